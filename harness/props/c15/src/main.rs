//! C15 — all signature verification paths agree, with or without the pairing cache.
//!
//! Subjects (code under test, chia-bls): `verify`, `aggregate_verify`,
//! `aggregate_verify_gt`, `BlsCache::{aggregate_verify, update, evict, len}`.
//! Oracle: model::sig — the harness owns every secret key, so for a pair list
//! it computes the aggregate signature itself:
//!   valid  <=>  no key is the point at infinity  AND  signature == aggregate.
//! Schedules: the harness owns the interleaving of critical sections through
//! the `chia-bls/verif-hooks` yield points (one before every acquisition of the
//! cache mutex); exactly one worker thread runs between two yield points.

use std::cell::RefCell;
use std::collections::{BTreeSet, HashMap};
use std::num::NonZeroUsize;
use std::panic::{catch_unwind, resume_unwind, AssertUnwindSafe};
use std::sync::{Arc, Condvar, Mutex, OnceLock};
use std::time::{Duration, Instant};

use chia_bls::{
    aggregate_verify, aggregate_verify_gt, hash_to_g2, sign, verif_hooks, verify, BlsCache,
    GTElement, PublicKey, SecretKey, Signature,
};
use vcore::engine::{self, fail, CaseResult, Ctx, Property, Source, SubCheck, Tier};
use vcore::{vensure, Fnv, Src};

// --------------------------------------------------------------------------
// key pool, messages, memoised shares and pairings (pure functions of the ids)

const NKEYS: usize = 8;
/// key indices from INF on mean "the point at infinity", in different
/// in-memory representations: INF = `PublicKey::default()`, INF+1 = the parsed
/// encoding c0 00.., INF+2 = computed `pk + (-pk)`, INF+3 = computed as the sum of
/// the public keys of sk and r - sk. All four are equal as values and have the
/// same bytes; only their projective coordinates differ.
const INF: u8 = 8;
const NINF: u8 = 4;
/// key indices OFF + k: the pool key k plus a point T of the cofactor torsion
/// (on the curve, NOT in the prime-order subgroup G1; only constructible through
/// `from_bytes_unchecked` / arithmetic). There is no secret key for it, but
/// because pairings ignore the torsion component, the holder of sk_k can make
/// the pairing equation hold: share = sign_raw(sk_k, bytes(pk_k + T) ‖ msg).
/// Every verifier has to refuse such a key all the same.
const OFF: u8 = INF + NINF;
/// not a key of the subgroup with a secret key: infinity or off the subgroup
fn is_inf_idx(k: u8) -> bool {
    k >= INF
}
fn is_off_idx(k: u8) -> bool {
    k >= OFF
}

/// a non-zero point of the cofactor torsion: r·Q = (r-1)·Q + Q for the first
/// on-curve point Q outside G1 found by a deterministic search
fn torsion_point() -> &'static PublicKey {
    static T: std::sync::OnceLock<PublicKey> = std::sync::OnceLock::new();
    T.get_or_init(|| {
        for i in 0..=255u8 {
            let mut b = [0u8; 48];
            b[0] = 0x80 | (i & 0x1f);
            b[20] = 0x5a;
            b[47] = i;
            if let Ok(q) = PublicKey::from_bytes_unchecked(&b) {
                if PublicKey::from_bytes(&b).is_err() {
                    let mut t = q;
                    t.scalar_multiply(&R_MINUS_1);
                    t += &q;
                    assert!(!t.is_inf() && !t.is_valid(), "torsion point");
                    return t;
                }
            }
        }
        panic!("no off-subgroup point found");
    })
}
const NPOOLS: usize = 4;

const M_EMPTY: &[u8] = b"";
const M_ZERO: &[u8] = &[0];
const M_HELLO: &[u8] = b"hello";
const M_32: &[u8] = &[0x6a; 32];
const M_LONG: &[u8] = &[0xff; 100];
const MSGS: [&[u8]; 5] = [M_EMPTY, M_ZERO, M_HELLO, M_32, M_LONG];
/// message indices 5 and 6 depend on the pair's key: the key's own 48-byte
/// encoding, alone and followed by "hello" — messages that START with what the
/// augmented scheme prepends anyway ((pk, pk‖m) and (pk, m) are different pairs)
const NMSGS: usize = 7;

type Pair = (u8, u8); // (key index or INF, message index)

struct Pool {
    sks: Vec<SecretKey>,
    pks: Vec<PublicKey>,
    shares: HashMap<Pair, Signature>,
    gts: HashMap<Pair, GTElement>,
}

impl Pool {
    fn new(id: u8) -> Self {
        let mut sks = vec![];
        let mut pks = vec![];
        for i in 0..NKEYS {
            let mut seed = [0u8; 32];
            seed[0] = id;
            seed[1] = i as u8;
            seed[2] = 0xc1;
            seed[3] = 0x5;
            let sk = SecretKey::from_seed(&seed);
            pks.push(sk.public_key());
            sks.push(sk);
        }
        Self { sks, pks, shares: HashMap::new(), gts: HashMap::new() }
    }
    fn pk(&self, k: u8) -> PublicKey {
        if is_off_idx(k) {
            return self.pks[(k - OFF) as usize] + torsion_point();
        }
        if is_inf_idx(k) {
            match k - INF {
                0 => PublicKey::default(),
                1 => {
                    let mut b = [0u8; 48];
                    b[0] = 0xc0;
                    PublicKey::from_bytes(&b).expect("canonical infinity encoding")
                }
                2 => {
                    let p = self.pks[0];
                    let mut q = p;
                    q.negate();
                    p + &q
                }
                _ => {
                    // public keys of sk and r - sk
                    const R: [u8; 32] = [
                        0x73, 0xed, 0xa7, 0x53, 0x29, 0x9d, 0x7d, 0x48, 0x33, 0x39, 0xd8, 0x08, 0x09, 0xa1, 0xd8, 0x05, 0x53, 0xbd, 0xa4, 0x02, 0xff, 0xfe,
                        0x5b, 0xfe, 0xff, 0xff, 0xff, 0xff, 0x00, 0x00, 0x00, 0x01,
                    ];
                    let x = self.sks[1].to_bytes();
                    let mut b = [0u8; 32];
                    let mut borrow = 0i16;
                    for i in (0..32).rev() {
                        let d = i16::from(R[i]) - i16::from(x[i]) - borrow;
                        borrow = i16::from(d < 0);
                        b[i] = (d + 256 * borrow) as u8;
                    }
                    let other = SecretKey::from_bytes(&b).expect("r - sk is a valid scalar");
                    self.pks[1] + &other.public_key()
                }
            }
        } else {
            self.pks[k as usize]
        }
    }
    fn msg(&self, p: Pair) -> Vec<u8> {
        match p.1 as usize {
            m @ 0..=4 => MSGS[m].to_vec(),
            5 => self.pk(p.0).to_bytes().to_vec(),
            _ => {
                let mut v = self.pk(p.0).to_bytes().to_vec();
                v.extend_from_slice(M_HELLO);
                v
            }
        }
    }
    /// sign(sk_k, msg_m): the share of pair (k, m) in an aggregate
    fn share(&mut self, p: Pair) -> Signature {
        assert!(!is_inf_idx(p.0) || is_off_idx(p.0));
        if let Some(s) = self.shares.get(&p) {
            return s.clone();
        }
        let s = if is_off_idx(p.0) {
            // the share that makes the pairing equation hold for the torsion twin
            chia_bls::sign_raw(&self.sks[(p.0 - OFF) as usize], self.aug(p))
        } else {
            sign(&self.sks[p.0 as usize], self.msg(p))
        };
        self.shares.insert(p, s.clone());
        s
    }
    fn aug(&self, p: Pair) -> Vec<u8> {
        let mut a = self.pk(p.0).to_bytes().to_vec();
        a.extend_from_slice(&self.msg(p));
        a
    }
    /// the truthful pairing of pair (k, m), computed by the harness
    fn gt(&mut self, p: Pair) -> GTElement {
        if let Some(g) = self.gts.get(&p) {
            return g.clone();
        }
        let g = hash_to_g2(&self.aug(p)).pair(&self.pk(p.0));
        self.gts.insert(p, g.clone());
        g
    }
    fn mat(&self, pairs: &[Pair]) -> Vec<(PublicKey, Vec<u8>)> {
        pairs.iter().map(|p| (self.pk(p.0), self.msg(*p))).collect()
    }
}

thread_local! {
    static POOLS: RefCell<Vec<Option<Pool>>> = RefCell::new((0..NPOOLS).map(|_| None).collect());
}

fn with_pool<R>(id: u8, f: impl FnOnce(&mut Pool) -> R) -> R {
    // take the pool out while in use (a case never nests with_pool)
    let mut pool = POOLS
        .with(|p| p.borrow_mut()[id as usize].take())
        .unwrap_or_else(|| Pool::new(id));
    let r = f(&mut pool);
    POOLS.with(|p| p.borrow_mut()[id as usize] = Some(pool));
    r
}

// --------------------------------------------------------------------------
// an on-curve G2 point outside the prime-order subgroup

/// group order r minus one, big-endian. `scalar_multiply` reduces its scalar
/// modulo r (blst_scalar_from_be_bytes), so r itself would give 0*P; (r-1)*P + P
/// is r*P without that reduction.
const R_MINUS_1: [u8; 32] = [
    0x73, 0xed, 0xa7, 0x53, 0x29, 0x9d, 0x7d, 0x48, 0x33, 0x39, 0xd8, 0x08, 0x09, 0xa1, 0xd8, 0x05,
    0x53, 0xbd, 0xa4, 0x02, 0xff, 0xfe, 0x5b, 0xfe, 0xff, 0xff, 0xff, 0xff, 0x00, 0x00, 0x00, 0x00,
];

fn g2_order_divides_r(p: &Signature) -> bool {
    let mut q = p.clone();
    q.scalar_multiply(&R_MINUS_1);
    q += p;
    q == Signature::default()
}

fn off_subgroup_g2() -> &'static Signature {
    static P: OnceLock<Signature> = OnceLock::new();
    P.get_or_init(|| {
        // compressed encoding: c1 (48 bytes, flag bits on top) || c0 (48 bytes);
        // try x = (c0 = n, c1 = 0) for n = 1, 2, ...
        for n in 1u32..100_000 {
            let mut b = [0u8; 96];
            b[0] = 0x80;
            b[92..96].copy_from_slice(&n.to_be_bytes());
            if let Ok(p) = Signature::from_bytes_unchecked(&b) {
                if !g2_order_divides_r(&p) {
                    return p;
                }
            }
        }
        panic!("harness: no on-curve off-subgroup G2 point found");
    })
}

// --------------------------------------------------------------------------
// queries

#[derive(Clone, Copy, Debug, PartialEq)]
enum SigKind {
    Correct,
    MissingShare,
    ExtraShare,
    WrongMessage,
    Negated,
    PlusGenerator,
    Identity,
    OffSubgroup,
}

#[derive(Clone)]
struct Query {
    pairs: Vec<Pair>,
    kind: SigKind,
    sig: Signature,
    /// model::sig verdict
    expect: bool,
    has_inf: bool,
}

fn render_pairs(pairs: &[Pair]) -> String {
    let mut s = String::from("[");
    for (i, (k, m)) in pairs.iter().enumerate() {
        if i > 0 {
            s.push(',');
        }
        if is_off_idx(*k) {
            s.push_str(&format!("(pk{}+torsion,m{m})", *k - OFF));
        } else if is_inf_idx(*k) {
            s.push_str(&format!("(INF{},m{m})", ["-default", "-parsed", "-pk-minus-pk", "-pk(sk)+pk(r-sk)"][(*k - INF) as usize]));
        } else {
            s.push_str(&format!("(k{k},m{m})"));
        }
    }
    s.push(']');
    s
}

impl Query {
    fn render(&self) -> String {
        format!("{} sig={:?} model={}", render_pairs(&self.pairs), self.kind, self.expect)
    }
    fn fp(&self, f: &mut Fnv) {
        for (k, m) in &self.pairs {
            f.write(&[*k, *m]);
        }
        f.write(&[0xfe]);
        f.write(&self.sig.to_bytes());
    }
}

struct ListCfg {
    nk: usize,
    nm: usize,
    maxlen: usize,
    /// chance (of 256) that a pair uses the infinity key
    inf: u16,
}

fn gen_list(s: &mut Src<'_>, c: &ListCfg) -> Vec<Pair> {
    let n = s.below(c.maxlen + 1);
    (0..n)
        .map(|_| {
            let k = if c.inf > 0 && s.chance(c.inf) {
                if s.chance(96) {
                    OFF + s.below(c.nk) as u8
                } else {
                    INF + s.below(NINF as usize) as u8
                }
            } else {
                s.below(c.nk) as u8
            };
            (k, s.below(c.nm) as u8)
        })
        .collect()
}

/// the aggregate the harness computes with the secret keys (infinity keys have
/// no secret key and contribute nothing: the model's verdict is false anyway)
fn harness_aggregate(pool: &mut Pool, pairs: &[Pair]) -> Signature {
    let mut agg = Signature::default();
    for p in pairs {
        if !is_inf_idx(p.0) || is_off_idx(p.0) {
            agg += &pool.share(*p);
        }
    }
    agg
}

fn make_query(s: &mut Src<'_>, pool: &mut Pool, pairs: Vec<Pair>, c: &ListCfg, correct_only: bool) -> Query {
    let agg = harness_aggregate(pool, &pairs);
    let real: Vec<usize> = (0..pairs.len()).filter(|i| !is_inf_idx(pairs[*i].0)).collect();
    let kind = if correct_only {
        SigKind::Correct
    } else {
        match s.weighted(&[12, 2, 2, 2, 1, 1, 1, 1]) {
            0 => SigKind::Correct,
            1 => SigKind::MissingShare,
            2 => SigKind::ExtraShare,
            3 => SigKind::WrongMessage,
            4 => SigKind::Negated,
            5 => SigKind::PlusGenerator,
            6 => SigKind::Identity,
            _ => SigKind::OffSubgroup,
        }
    };
    let sig = match kind {
        SigKind::Correct => agg.clone(),
        SigKind::MissingShare => {
            let mut g = agg.clone();
            if !real.is_empty() {
                let i = real[s.below(real.len())];
                g -= &pool.share(pairs[i]);
            }
            g
        }
        SigKind::ExtraShare => {
            let extra = (s.below(c.nk) as u8, s.below(c.nm) as u8);
            let mut g = agg.clone();
            g += &pool.share(extra);
            g
        }
        SigKind::WrongMessage => {
            let mut g = agg.clone();
            if !real.is_empty() {
                let i = real[s.below(real.len())];
                let (k, m) = pairs[i];
                g -= &pool.share((k, m));
                g += &pool.share((k, (m + 1) % NMSGS as u8));
            }
            g
        }
        SigKind::Negated => -&agg,
        SigKind::PlusGenerator => {
            let mut g = agg.clone();
            g += &Signature::generator();
            g
        }
        SigKind::Identity => Signature::default(),
        SigKind::OffSubgroup => {
            let mut g = off_subgroup_g2().clone();
            if s.bool() {
                g += &agg; // still outside the subgroup
            }
            g
        }
    };
    let has_inf = pairs.iter().any(|p| is_inf_idx(p.0));
    let expect = !has_inf && sig.to_bytes() == agg.to_bytes();
    Query { pairs, kind, sig, expect, has_inf }
}

const SIG_F4: &str = "C15:cache-verify:accepts-infinity-key";

/// compare a cache-assisted verdict with the model; `scope` names the
/// sub-check family for the signature
fn judge_cache(ctx: &mut Ctx, q: &Query, got: bool, scope: &str, detail: &dyn Fn() -> String) -> CaseResult {
    if got == q.expect {
        return Ok(());
    }
    if got && q.pairs.iter().any(|p| is_off_idx(p.0)) && !q.pairs.iter().any(|p| is_inf_idx(p.0) && !is_off_idx(p.0)) {
        return ctx.known_or_fail("C15:cache-verify:accepts-key-outside-the-subgroup", || {
            format!(
                "BlsCache::aggregate_verify returned true for a list containing a public key outside the prime-order subgroup (verify / aggregate_verify refuse it): {} ({})",
                q.render(),
                detail()
            )
        });
    }
    if got && q.has_inf {
        // known finding F4: continue past it when listed
        return ctx.known_or_fail(SIG_F4, || {
            format!(
                "BlsCache::aggregate_verify returned true for a list containing the infinity public key: {} ({})",
                q.render(),
                detail()
            )
        });
    }
    let what = if got { "accepts-invalid" } else { "rejects-valid" };
    fail(
        format!("C15:{scope}:{what}"),
        format!("BlsCache::aggregate_verify = {got}, model = {}: {} ({})", q.expect, q.render(), detail()),
    )
}

fn cache_verify(cache: &BlsCache, mat: &[(PublicKey, Vec<u8>)], sig: &Signature) -> bool {
    cache.aggregate_verify(mat.iter().map(|(pk, m)| (pk, m.as_slice())), sig)
}

fn nz(n: usize) -> NonZeroUsize {
    NonZeroUsize::new(n).expect("capacity >= 1")
}

// --------------------------------------------------------------------------
// sub-check 1: the four verifiers against the model on one query

fn case_paths(bytes: &[u8], ctx: &mut Ctx) -> CaseResult {
    let mut s = Src::new(bytes);
    let pool_id = s.below(NPOOLS) as u8;
    let c = ListCfg { nk: s.range(1, NKEYS), nm: s.range(1, NMSGS), maxlen: 5, inf: 12 };
    with_pool(pool_id, |pool| {
        let pairs = gen_list(&mut s, &c);
        let q = make_query(&mut s, pool, pairs, &c, false);
        let mat = pool.mat(&q.pairs);
        let cap = s.range(1, 6);
        ctx.render(|| format!("pool {pool_id}: {} (cache capacity {cap})", q.render()));
        // aggregate_verify
        let got = aggregate_verify(&q.sig, mat.iter().map(|(pk, m)| (pk, m.as_slice())));
        vensure!(
            got == q.expect,
            if got { "C15:aggregate_verify:accepts-invalid" } else { "C15:aggregate_verify:rejects-valid" },
            "aggregate_verify = {got}, model = {}: {}",
            q.expect,
            q.render()
        );
        // verify (singleton lists)
        if mat.len() == 1 {
            let got = verify(&q.sig, &mat[0].0, &mat[0].1);
            vensure!(
                got == q.expect,
                if got { "C15:verify:accepts-invalid" } else { "C15:verify:rejects-valid" },
                "verify = {got}, model = {}: {}",
                q.expect,
                q.render()
            );
            ctx.label("paths:singleton");
        }
        // aggregate_verify_gt over pairings computed by the harness
        if !q.has_inf {
            let gts: Vec<GTElement> = q.pairs.iter().map(|p| pool.gt(*p)).collect();
            let got = aggregate_verify_gt(&q.sig, &gts);
            vensure!(
                got == q.expect,
                if got { "C15:aggregate_verify_gt:accepts-invalid" } else { "C15:aggregate_verify_gt:rejects-valid" },
                "aggregate_verify_gt = {got}, model = {}: {}",
                q.expect,
                q.render()
            );
        }
        // cache-assisted: cold cache, then the same (now warm) cache
        let cache = BlsCache::new(nz(cap));
        let cold = cache_verify(&cache, &mat, &q.sig);
        judge_cache(ctx, &q, cold, "cache-verify", &|| format!("cold cache, capacity {cap}"))?;
        let len = cache.len();
        vensure!(len <= cap, "C15:cache:len-exceeds-capacity", "len {len} > capacity {cap} after {}", q.render());
        let warm = cache_verify(&cache, &mat, &q.sig);
        judge_cache(ctx, &q, warm, "cache-verify", &|| format!("warm cache, capacity {cap}"))?;
        let len = cache.len();
        vensure!(len <= cap, "C15:cache:len-exceeds-capacity", "len {len} > capacity {cap} after {}", q.render());

        ctx.label(format!("paths:sig:{:?}:{}", q.kind, if q.expect { "valid" } else { "invalid" }));
        ctx.label(format!("paths:len:{}", q.pairs.len()));
        if q.pairs.iter().any(|p| p.0 >= INF + 2 && !is_off_idx(p.0)) {
            ctx.label("paths:infinity-key:computed-by-group-arithmetic");
        }
        if q.pairs.iter().any(|p| is_off_idx(p.0)) {
            ctx.label("paths:key-outside-the-subgroup");
        }
        if q.has_inf {
            ctx.label("paths:infinity-key");
        }
        if q.pairs.iter().any(|p| p.1 == 0) {
            ctx.label("paths:empty-message");
        }
        let mut seen = BTreeSet::new();
        if q.pairs.iter().any(|p| !seen.insert(*p)) {
            ctx.label("paths:repeated-pair");
        }
        if !q.pairs.is_empty() {
            let mut f = Fnv::new();
            f.write(&[pool_id]);
            q.fp(&mut f);
            ctx.nontrivial(f.finish());
        }
        ctx.ran_dry(s.ran_dry());
        Ok(())
    })
}

// --------------------------------------------------------------------------
// sub-check 2: sequential histories on one cache

thread_local! {
    static SITES: RefCell<Vec<&'static str>> = const { RefCell::new(Vec::new()) };
}

/// installs a hook that only records the sites reached (no scheduling)
struct Recorder;
impl Recorder {
    fn install() -> Self {
        SITES.with(|s| s.borrow_mut().clear());
        verif_hooks::set_hook(Box::new(|site| SITES.with(|s| s.borrow_mut().push(site))));
        Recorder
    }
    fn take() -> Vec<&'static str> {
        SITES.with(|s| std::mem::take(&mut *s.borrow_mut()))
    }
}
impl Drop for Recorder {
    fn drop(&mut self) {
        verif_hooks::clear_hook();
    }
}

/// per pair of a Verify: did the cache miss (a `put` followed the `lookup`)?
/// Observation only (labels); never asserted.
fn misses_from_sites(sites: &[&'static str], npairs: usize) -> Vec<Option<bool>> {
    let mut out: Vec<Option<bool>> = vec![None; npairs];
    let mut cur: isize = -1;
    for s in sites {
        match *s {
            "lookup" => {
                cur += 1;
                if let Some(o) = out.get_mut(cur as usize) {
                    *o = Some(false);
                }
            }
            "put" => {
                if cur >= 0 {
                    if let Some(o) = out.get_mut(cur as usize) {
                        *o = Some(true);
                    }
                }
            }
            _ => {}
        }
    }
    out
}

fn case_history(bytes: &[u8], ctx: &mut Ctx) -> CaseResult {
    let mut s = Src::new(bytes);
    let pool_id = s.below(NPOOLS) as u8;
    let cap = s.range(1, 6);
    let c = ListCfg { nk: s.range(1, NKEYS), nm: s.range(1, NMSGS), maxlen: 5, inf: 8 };
    let nops = s.range(1, 14);
    with_pool(pool_id, |pool| {
        let cache = BlsCache::new(nz(cap));
        let _rec = Recorder::install();
        // pairs inserted (verify-miss or update) and not explicitly evicted since
        let mut inserted: BTreeSet<Pair> = BTreeSet::new();
        let mut via_update: BTreeSet<Pair> = BTreeSet::new();
        let mut fp = Fnv::new();
        fp.write(&[pool_id, cap as u8]);
        let mut log: Vec<String> = vec![];
        let mut reverified = false;
        for i in 0..nops {
            match s.weighted(&[7, 2, 2]) {
                0 => {
                    let pairs = gen_list(&mut s, &c);
                    let q = make_query(&mut s, pool, pairs, &c, false);
                    let mat = pool.mat(&q.pairs);
                    Recorder::take();
                    let got = cache_verify(&cache, &mat, &q.sig);
                    let sites = Recorder::take();
                    fp.write(&[1]);
                    q.fp(&mut fp);
                    log.push(format!("Verify {} -> {got}", q.render()));
                    judge_cache(ctx, &q, got, "cache-history", &|| {
                        format!("op {i} of a history on a cache of capacity {cap}")
                    })?;
                    for (j, miss) in misses_from_sites(&sites, q.pairs.len()).iter().enumerate() {
                        let p = q.pairs[j];
                        match miss {
                            Some(true) => {
                                if inserted.contains(&p) {
                                    // was in the cache, was not explicitly evicted, is gone:
                                    // evicted by capacity, and re-verified now
                                    reverified = true;
                                }
                                inserted.insert(p);
                                via_update.remove(&p);
                            }
                            Some(false) => {
                                if via_update.contains(&p) {
                                    ctx.label("hist:hit-on-updated-entry");
                                }
                            }
                            None => {}
                        }
                    }
                }
                1 => {
                    let pairs = gen_list(&mut s, &c);
                    let mat = pool.mat(&pairs);
                    cache.evict(mat.iter().map(|(pk, m)| (pk, m.as_slice())));
                    for p in &pairs {
                        inserted.remove(p);
                        via_update.remove(p);
                    }
                    fp.write(&[2]);
                    for (k, m) in &pairs {
                        fp.write(&[*k, *m]);
                    }
                    log.push(format!("Evict {}", render_pairs(&pairs)));
                }
                _ => {
                    // Update is only ever fed the truthful pairing (its contract)
                    let p = (s.below(c.nk) as u8, s.below(c.nm) as u8);
                    let gt = pool.gt(p);
                    cache.update(&pool.aug(p), gt);
                    inserted.insert(p);
                    via_update.insert(p);
                    fp.write(&[3, p.0, p.1]);
                    log.push(format!("Update (k{},m{})", p.0, p.1));
                }
            }
            let len = cache.len();
            vensure!(
                len <= cap,
                "C15:cache-history:len-exceeds-capacity",
                "len() = {len} > capacity {cap} after op {i}: {}",
                log.join("; ")
            );
        }
        if reverified {
            ctx.label("hist:reverify-after-capacity-eviction");
            ctx.nontrivial(fp.finish());
        }
        ctx.label(format!("hist:capacity:{cap}"));
        ctx.render(|| format!("pool {pool_id}, capacity {cap}: {}", log.join("; ")));
        ctx.ran_dry(s.ran_dry());
        Ok(())
    })
}

// --------------------------------------------------------------------------
// schedules: controller + workers

const STEP_TIMEOUT: Duration = Duration::from_secs(60);

#[derive(Clone)]
enum SOp {
    Verify(Query),
    Update(Pair),
    Evict(Vec<Pair>),
}

impl SOp {
    fn render(&self) -> String {
        match self {
            SOp::Verify(q) => format!("Verify {}", q.render()),
            SOp::Update(p) => format!("Update (k{},m{})", p.0, p.1),
            SOp::Evict(l) => format!("Evict {}", render_pairs(l)),
        }
    }
}

struct SchedCase {
    pool: u8,
    cap: usize,
    scripts: Vec<Vec<SOp>>,
}

impl SchedCase {
    fn render(&self) -> String {
        let mut s = format!("pool {}, capacity {}", self.pool, self.cap);
        for (t, sc) in self.scripts.iter().enumerate() {
            let ops: Vec<String> = sc.iter().map(SOp::render).collect();
            s.push_str(&format!("; T{t}: {}", ops.join(", ")));
        }
        s
    }
}

/// what a worker executes (fully materialised; no pool access off the case thread)
enum MOp {
    Verify { pairs: Vec<(PublicKey, Vec<u8>)>, sig: Signature },
    Update { aug: Vec<u8>, gt: GTElement },
    Evict { pairs: Vec<(PublicKey, Vec<u8>)> },
}

#[derive(Clone, Copy, PartialEq, Debug)]
enum St {
    Running,
    At(&'static str),
    Done,
}

struct SState {
    turn: Option<usize>,
    st: Vec<St>,
    /// (op index, pair index of the last `lookup`) per thread
    pos: Vec<(usize, isize)>,
    abort: bool,
    verdicts: Vec<Vec<Option<bool>>>,
    panics: Vec<Option<String>>,
}

struct Sched {
    m: Mutex<SState>,
    cv: Condvar,
}

/// payload used to unwind a worker when the controller gave up
struct Aborted;

impl Sched {
    fn lock(&self) -> std::sync::MutexGuard<'_, SState> {
        // never poisoned: no code panics while holding it; be robust anyway
        self.m.lock().unwrap_or_else(std::sync::PoisonError::into_inner)
    }

    /// worker side: park at a yield point until the controller hands over the turn
    fn yield_at(&self, tid: usize, site: &'static str) {
        let mut g = self.lock();
        if site == "lookup" {
            g.pos[tid].1 += 1;
        }
        g.st[tid] = St::At(site);
        if g.turn == Some(tid) {
            g.turn = None;
        }
        self.cv.notify_all();
        let deadline = Instant::now() + STEP_TIMEOUT + STEP_TIMEOUT;
        loop {
            if g.abort {
                drop(g);
                resume_unwind(Box::new(Aborted));
            }
            if g.turn == Some(tid) {
                g.st[tid] = St::Running;
                return;
            }
            let now = Instant::now();
            if now >= deadline {
                g.abort = true;
                self.cv.notify_all();
                drop(g);
                resume_unwind(Box::new(Aborted));
            }
            g = self
                .cv
                .wait_timeout(g, deadline - now)
                .unwrap_or_else(std::sync::PoisonError::into_inner)
                .0;
        }
    }

    fn begin_op(&self, tid: usize, op: usize) {
        let mut g = self.lock();
        g.pos[tid] = (op, -1);
    }

    fn record(&self, tid: usize, v: Option<bool>) {
        let mut g = self.lock();
        g.verdicts[tid].push(v);
    }

    fn finish(&self, tid: usize, panic: Option<String>) {
        let mut g = self.lock();
        g.st[tid] = St::Done;
        g.panics[tid] = panic;
        if g.turn == Some(tid) {
            g.turn = None;
        }
        self.cv.notify_all();
    }
}

fn worker(tid: usize, sh: Arc<Sched>, cache: Arc<BlsCache>, script: Vec<MOp>) {
    let sh2 = sh.clone();
    verif_hooks::set_hook(Box::new(move |site| sh2.yield_at(tid, site)));
    let r = catch_unwind(AssertUnwindSafe(|| {
        for (i, op) in script.iter().enumerate() {
            sh.begin_op(tid, i);
            let v = match op {
                MOp::Verify { pairs, sig } => Some(cache_verify(&cache, pairs, sig)),
                MOp::Update { aug, gt } => {
                    cache.update(aug, gt.clone());
                    None
                }
                MOp::Evict { pairs } => {
                    cache.evict(pairs.iter().map(|(pk, m)| (pk, m.as_slice())));
                    None
                }
            };
            sh.record(tid, v);
        }
    }));
    verif_hooks::clear_hook();
    let panic = match r {
        Ok(()) => None,
        Err(p) => {
            if p.is::<Aborted>() {
                Some("aborted by the schedule controller".to_string())
            } else if let Some(s) = p.downcast_ref::<&str>() {
                Some((*s).to_string())
            } else if let Some(s) = p.downcast_ref::<String>() {
                Some(s.clone())
            } else {
                Some("<non-string panic>".to_string())
            }
        }
    };
    sh.finish(tid, panic);
}

#[derive(Default)]
struct Trace {
    /// (choice, number of runnable threads) per step
    choices: Vec<(usize, usize)>,
    /// (thread, site it was parked at when it was granted the step)
    steps: Vec<(usize, &'static str)>,
    verdicts: Vec<Vec<Option<bool>>>,
    double_miss: bool,
    preemptions: usize,
    max_len: usize,
    len_violation: Option<(usize, usize)>,
    worker_panic: Option<(usize, String)>,
}

impl Trace {
    fn render_schedule(&self) -> String {
        let v: Vec<String> = self.steps.iter().map(|(t, site)| format!("T{t}:{site}")).collect();
        v.join(" ")
    }
}

/// harness broken / inconclusive: never a violation
fn inconclusive(case: &SchedCase, trace: &Trace, why: &str) -> ! {
    println!(
        "INCONCLUSIVE property=C15 schedule controller: {why}; case: {}; schedule so far: {}",
        case.render(),
        trace.render_schedule()
    );
    std::process::exit(2);
}

/// Run the scripts on one shared cache under a schedule. `choose(n)` is asked
/// at every step which of the `n` runnable threads (ordered by thread id) runs
/// next; it is not asked when n == 1.
fn run_schedule(case: &SchedCase, pool: &mut Pool, choose: &mut dyn FnMut(usize) -> usize) -> Trace {
    let nt = case.scripts.len();
    let cache = Arc::new(BlsCache::new(nz(case.cap)));
    let sh = Arc::new(Sched {
        m: Mutex::new(SState {
            turn: None,
            st: vec![St::Running; nt],
            pos: vec![(0, -1); nt],
            abort: false,
            verdicts: vec![vec![]; nt],
            panics: vec![None; nt],
        }),
        cv: Condvar::new(),
    });
    let mut handles = vec![];
    for (tid, script) in case.scripts.iter().enumerate() {
        let mops: Vec<MOp> = script
            .iter()
            .map(|op| match op {
                SOp::Verify(q) => MOp::Verify { pairs: pool.mat(&q.pairs), sig: q.sig.clone() },
                SOp::Update(p) => MOp::Update { aug: pool.aug(*p), gt: pool.gt(*p) },
                SOp::Evict(l) => MOp::Evict { pairs: pool.mat(l) },
            })
            .collect();
        let (sh2, cache2) = (sh.clone(), cache.clone());
        let h = std::thread::Builder::new()
            .name(format!("c15-worker-{tid}"))
            .stack_size(1 << 20)
            .spawn(move || worker(tid, sh2, cache2, mops))
            .expect("spawn worker");
        handles.push(h);
    }

    let mut trace = Trace::default();
    // a `put` a thread is parked in front of: it missed on that pair and has not inserted yet
    let mut pending: Vec<Option<Pair>> = vec![None; nt];
    let mut last: Option<usize> = None;
    let mut timed_out: Option<String> = None;

    // wait until `pred` holds; false on timeout
    let wait_until = |pred: &dyn Fn(&SState) -> bool| -> bool {
        let mut g = sh.lock();
        let deadline = Instant::now() + STEP_TIMEOUT;
        loop {
            if pred(&g) {
                return true;
            }
            let now = Instant::now();
            if now >= deadline || g.abort {
                return false;
            }
            g = sh.cv.wait_timeout(g, deadline - now).unwrap_or_else(std::sync::PoisonError::into_inner).0;
        }
    };

    // every worker runs (thread-local work only) up to its first yield point
    if !wait_until(&|g: &SState| g.st.iter().all(|s| *s != St::Running)) {
        timed_out = Some("a worker did not reach its first yield point".into());
    }
    let note_arrival = |tid: usize, pending: &mut Vec<Option<Pair>>, trace: &mut Trace| {
        let g = sh.lock();
        if g.st[tid] == St::At("put") {
            let (op, pair) = g.pos[tid];
            if let Some(SOp::Verify(q)) = case.scripts[tid].get(op) {
                if pair >= 0 {
                    if let Some(p) = q.pairs.get(pair as usize) {
                        if pending.iter().enumerate().any(|(o, pp)| o != tid && *pp == Some(*p)) {
                            trace.double_miss = true;
                        }
                        pending[tid] = Some(*p);
                    }
                }
            }
        }
    };
    if timed_out.is_none() {
        for tid in 0..nt {
            note_arrival(tid, &mut pending, &mut trace);
        }
    }
    let mut steps = 0usize;
    while timed_out.is_none() {
        let runnable: Vec<(usize, &'static str)> = {
            let g = sh.lock();
            g.st.iter()
                .enumerate()
                .filter_map(|(t, s)| if let St::At(site) = s { Some((t, *site)) } else { None })
                .collect()
        };
        if runnable.is_empty() {
            break;
        }
        steps += 1;
        if steps > 10_000 {
            timed_out = Some("more than 10000 steps".into());
            break;
        }
        let n = runnable.len();
        let c = if n > 1 { choose(n).min(n - 1) } else { 0 };
        let (tid, site) = runnable[c];
        trace.choices.push((c, n));
        trace.steps.push((tid, site));
        if let Some(l) = last {
            if l != tid && runnable.iter().any(|(t, _)| *t == l) {
                trace.preemptions += 1;
            }
        }
        last = Some(tid);
        pending[tid] = None;
        {
            let mut g = sh.lock();
            g.st[tid] = St::Running;
            g.turn = Some(tid);
            sh.cv.notify_all();
        }
        if !wait_until(&|g: &SState| g.st[tid] != St::Running) {
            timed_out = Some(format!("thread T{tid} did not reach its next yield point within {} s (deadlock or livelock)", STEP_TIMEOUT.as_secs()));
            break;
        }
        note_arrival(tid, &mut pending, &mut trace);
        // all workers are parked in front of a lock acquisition (or done): observe the cache
        let len = cache.len();
        trace.max_len = trace.max_len.max(len);
        if len > case.cap && trace.len_violation.is_none() {
            trace.len_violation = Some((trace.steps.len(), len));
        }
    }
    if let Some(why) = timed_out {
        // release whoever can still be released, then give up (exit 2)
        {
            let mut g = sh.lock();
            g.abort = true;
            sh.cv.notify_all();
        }
        std::thread::sleep(Duration::from_millis(200));
        inconclusive(case, &trace, &why);
    }
    for h in handles {
        // every worker is Done: it only has to return
        let _ = h.join();
    }
    let g = sh.lock();
    trace.verdicts.clone_from(&g.verdicts);
    for (t, p) in g.panics.iter().enumerate() {
        if let Some(p) = p {
            trace.worker_panic = Some((t, p.clone()));
            break;
        }
    }
    trace
}

/// oracle for one executed schedule
fn judge_schedule(ctx: &mut Ctx, case: &SchedCase, trace: &Trace) -> CaseResult {
    if let Some((t, msg)) = &trace.worker_panic {
        // same convention as a panic in any case function
        panic!("worker T{t} panicked: {msg} [{} | {}]", case.render(), trace.render_schedule());
    }
    if let Some((step, len)) = trace.len_violation {
        return fail(
            "C15:cache-schedule:len-exceeds-capacity",
            format!(
                "len() = {len} > capacity {} after step {step} of schedule [{}]; {}",
                case.cap,
                trace.render_schedule(),
                case.render()
            ),
        );
    }
    for (t, script) in case.scripts.iter().enumerate() {
        vensure!(
            trace.verdicts[t].len() == script.len(),
            "C15:harness:script-incomplete",
            "thread T{t} completed {} of {} ops",
            trace.verdicts[t].len(),
            script.len()
        );
        for (i, op) in script.iter().enumerate() {
            if let SOp::Verify(q) = op {
                let got = trace.verdicts[t][i].expect("verify verdict");
                judge_cache(ctx, q, got, "cache-schedule", &|| {
                    format!("T{t} op {i} under schedule [{}]; {}", trace.render_schedule(), case.render())
                })?;
            }
        }
    }
    Ok(())
}

fn label_schedule(ctx: &mut Ctx, case: &SchedCase, trace: &Trace, with_fp: u64) {
    ctx.label(format!("sched:threads:{}", case.scripts.len()));
    ctx.label(match trace.preemptions {
        0 => "sched:preemptions:0",
        1 => "sched:preemptions:1",
        2 => "sched:preemptions:2",
        _ => "sched:preemptions:3+",
    });
    if trace.max_len == case.cap {
        ctx.label("sched:cache-full");
    }
    if trace.double_miss {
        ctx.label("sched:double-miss-same-key");
        let mut f = Fnv::new();
        f.write_u64(with_fp);
        for (t, _) in &trace.steps {
            f.write(&[*t as u8]);
        }
        ctx.nontrivial(f.finish());
    }
}

// ---- exhaustive: 2 threads x one Verify of <= 2 pairs, every interleaving

const EXH_LISTS: [&[Pair]; 8] = [
    &[(0, 2)],
    &[(1, 2)],
    &[(0, 2), (1, 2)],
    &[(1, 2), (0, 2)],
    &[(0, 2), (0, 2)],
    &[(0, 2), (0, 3)],
    &[(0, 3), (1, 2)],
    &[(1, 3), (1, 2)],
];

fn exh_caps(tier: Tier) -> usize {
    match tier {
        Tier::Quick => 2,
        Tier::Thorough => 3,
    }
}

fn exh_nconfigs(tier: Tier) -> usize {
    exh_caps(tier) * 2 * EXH_LISTS.len() * EXH_LISTS.len()
}

/// configuration index -> (capacity, list of T0, list of T1, is T1's signature tampered)
fn exh_config(idx: usize, pool: &mut Pool) -> SchedCase {
    let nl = EXH_LISTS.len();
    let b = idx % nl;
    let a = (idx / nl) % nl;
    let tampered = (idx / (nl * nl)) % 2 == 1;
    let cap = 1 + idx / (nl * nl * 2);
    let mk = |pool: &mut Pool, l: &[Pair], tampered: bool| {
        let agg = harness_aggregate(pool, l);
        let (kind, sig) = if tampered { (SigKind::Negated, -&agg) } else { (SigKind::Correct, agg.clone()) };
        let expect = sig.to_bytes() == agg.to_bytes();
        SOp::Verify(Query { pairs: l.to_vec(), kind, sig, expect, has_inf: false })
    };
    SchedCase {
        pool: 0,
        cap,
        scripts: vec![vec![mk(pool, EXH_LISTS[a], false)], vec![mk(pool, EXH_LISTS[b], tampered)]],
    }
}

/// smallest byte that `Src::below(n)` maps to `k`
fn enc_choice(k: usize, n: usize) -> u8 {
    ((k * 256).div_ceil(n)) as u8
}

thread_local! {
    static ENUM_POOL: RefCell<Option<Pool>> = const { RefCell::new(None) };
}

fn enum_schedules(tier: Tier, shard: usize, nshards: usize, emit: &mut dyn FnMut(&[u8]) -> bool) {
    // sharded by configuration: the schedule tree of a configuration is discovered
    // by depth-first search over real executions, which one shard does alone
    for idx in 0..exh_nconfigs(tier) {
        if idx % nshards != shard {
            continue;
        }
        // a pool of its own: `emit` runs the case function, which uses the thread's pool 0
        let go_on = ENUM_POOL.with(|ep| {
            let mut ep = ep.borrow_mut();
            let pool = ep.get_or_insert_with(|| Pool::new(0));
            let case = exh_config(idx, pool);
            let mut prefix: Vec<usize> = vec![];
            loop {
                let mut step = 0usize;
                let trace = run_schedule(&case, pool, &mut |_n| {
                    let c = prefix.get(step).copied().unwrap_or(0);
                    step += 1;
                    c
                });
                let mut bytes = (idx as u16).to_be_bytes().to_vec();
                for (c, n) in &trace.choices {
                    if *n > 1 {
                        bytes.push(enc_choice(*c, *n));
                    }
                }
                if !emit(&bytes) {
                    return false;
                }
                if trace.worker_panic.is_some() {
                    return true; // the case function reports it; tree below is unknown
                }
                // next schedule in depth-first order (only steps with n > 1 were asked)
                let asked: Vec<(usize, usize)> = trace.choices.iter().copied().filter(|(_, n)| *n > 1).collect();
                let mut i = asked.len();
                loop {
                    if i == 0 {
                        return true;
                    }
                    i -= 1;
                    if asked[i].0 + 1 < asked[i].1 {
                        prefix = asked[..i].iter().map(|(c, _)| *c).collect();
                        prefix.push(asked[i].0 + 1);
                        break;
                    }
                }
            }
        });
        if !go_on {
            return;
        }
    }
}

fn case_sched_exhaustive(bytes: &[u8], ctx: &mut Ctx) -> CaseResult {
    let mut s = Src::new(bytes);
    let idx = s.u16() as usize;
    // (replay files and shrinking may hand us any index: clamp into the thorough space)
    let idx = idx % exh_nconfigs(Tier::Thorough);
    with_pool(0, |pool| {
        let case = exh_config(idx, pool);
        let trace = run_schedule(&case, pool, &mut |n| s.below(n));
        ctx.render(|| format!("config {idx}: {}; schedule [{}]", case.render(), trace.render_schedule()));
        judge_schedule(ctx, &case, &trace)?;
        label_schedule(ctx, &case, &trace, idx as u64);
        ctx.label(format!("sched:capacity:{}", case.cap));
        Ok(())
    })
}

// ---- sampled: 2-3 threads, longer scripts, Update/Evict mixed in

fn case_sched_sampled(bytes: &[u8], ctx: &mut Ctx) -> CaseResult {
    let mut s = Src::new(bytes);
    let mut cfg = s.sub(160);
    let pool_id = cfg.below(NPOOLS) as u8;
    let cap = cfg.range(1, 4);
    let nt = match ctx.tier {
        Tier::Quick => cfg.weighted(&[3, 1]) + 2,
        Tier::Thorough => cfg.weighted(&[1, 1]) + 2,
    };
    // a small universe so that threads collide on keys
    let c = ListCfg { nk: cfg.range(1, 3), nm: cfg.range(1, 2), maxlen: 3, inf: 4 };
    with_pool(pool_id, |pool| {
        let mut scripts = vec![];
        let mut fp = Fnv::new();
        fp.write(&[pool_id, cap as u8, nt as u8]);
        for _ in 0..nt {
            let nops = cfg.range(1, 3);
            let mut script = vec![];
            for _ in 0..nops {
                let op = match cfg.weighted(&[8, 1, 1]) {
                    0 => {
                        let mut pairs = gen_list(&mut cfg, &c);
                        if pairs.is_empty() {
                            pairs.push((0, 0));
                        }
                        let q = make_query(&mut cfg, pool, pairs, &c, false);
                        fp.write(&[1]);
                        q.fp(&mut fp);
                        SOp::Verify(q)
                    }
                    1 => {
                        let l = gen_list(&mut cfg, &c);
                        fp.write(&[2]);
                        for (k, m) in &l {
                            fp.write(&[*k, *m]);
                        }
                        SOp::Evict(l)
                    }
                    _ => {
                        let p = (cfg.below(c.nk) as u8, cfg.below(c.nm) as u8);
                        fp.write(&[3, p.0, p.1]);
                        SOp::Update(p)
                    }
                };
                script.push(op);
            }
            fp.write(&[0xff]);
            scripts.push(script);
        }
        let case = SchedCase { pool: pool_id, cap, scripts };
        let trace = run_schedule(&case, pool, &mut |n| s.below(n));
        ctx.render(|| format!("{}; schedule [{}]", case.render(), trace.render_schedule()));
        judge_schedule(ctx, &case, &trace)?;
        label_schedule(ctx, &case, &trace, fp.finish());
        ctx.ran_dry(cfg.ran_dry());
        Ok(())
    })
}

fn main() {
    // find the off-subgroup point once, before any worker threads exist
    let _ = off_subgroup_g2();
    let prop = Property {
        id: "C15",
        rule: "cases are (pair list, signature) queries over a pool of 8 secret keys owned by the harness (lists of 0..5 pairs with repeated keys/messages, the empty message, messages that begin with the pair's own key encoding, the infinity key in four in-memory representations (default, parsed, pk + (-pk), pk(sk) + pk(r - sk)); signature = correct aggregate | share missing/extra | wrong message | negated | plus generator | identity | on-curve point outside the subgroup), run (a) through all four verifiers, (b) as sequential histories Verify/Update(truthful)/Evict on a cache of capacity 1..6, (c) as 2-3 threads on one shared cache under a schedule of critical sections owned by the harness (every interleaving for 2 threads x one Verify of <=2 pairs; sampled otherwise). Non-trivial = (a) non-empty list; (b) a history in which a pair evicted by capacity is verified again; (c) a schedule in which two threads miss on the same key before either inserts. Distinct by decoded query / history / (scripts, realised thread order).",
        assumptions: &[
            "model::sig: valid <=> no key is infinity or outside the subgroup and signature bytes == aggregate of sign(sk_i, m_i) computed by the harness with the secret keys (sign/aggregate of chia-bls are the definition of 'signatures by those keys')",
            "interleavings are explored at the granularity of the cache's mutex acquisitions (feature chia-bls/verif-hooks); code between two acquisitions touches no shared state",
            "off-subgroup-ness of the G2 test point is decided by (r-1)*P + P != 0 (scalar_multiply reduces its scalar mod r, so r*P cannot be asked directly)",
            "hit/miss observations through the hook sites feed labels only and are never asserted",
        ],
        death_is_violation: false,
        subchecks: vec![
            SubCheck {
                name: "paths-agree",
                about: "verify / aggregate_verify / aggregate_verify_gt / BlsCache::aggregate_verify (cold and warm) all equal model::sig",
                source: Source::Random { len: 64, quick: 30_000, thorough: 750_000 },
                run: case_paths,
                inflight: false,
                min_nontrivial: 10_000,
                required_labels: &[
                    "paths:infinity-key",
                    "paths:infinity-key:computed-by-group-arithmetic",
                    "paths:key-outside-the-subgroup",
                    "paths:empty-message",
                    "paths:repeated-pair",
                    "paths:singleton",
                    "paths:sig:Correct:valid",
                    "paths:sig:OffSubgroup:invalid",
                    "paths:sig:Identity:invalid",
                    "paths:sig:MissingShare:invalid",
                    "paths:sig:ExtraShare:invalid",
                    "paths:sig:WrongMessage:invalid",
                    "paths:sig:Negated:invalid",
                    "paths:sig:PlusGenerator:invalid",
                    "paths:len:0",
                    "paths:len:5",
                ],
            },
            SubCheck {
                name: "histories",
                about: "sequential Verify/Update/Evict histories on a cache of capacity 1..6: verdict == model, len() <= capacity after every op",
                source: Source::Random { len: 384, quick: 8_000, thorough: 200_000 },
                run: case_history,
                inflight: false,
                min_nontrivial: 1_500,
                required_labels: &["hist:reverify-after-capacity-eviction", "hist:hit-on-updated-entry", "hist:capacity:1", "hist:capacity:6"],
            },
            SubCheck {
                name: "schedules-exhaustive",
                about: "2 threads x one Verify of <=2 pairs on a shared cache: every interleaving of critical sections (DFS over the schedule tree), capacities 1..2 (3 thorough)",
                source: Source::Enumerate { f: enum_schedules, exhaustive: true },
                run: case_sched_exhaustive,
                inflight: true,
                min_nontrivial: 2_000,
                required_labels: &["sched:double-miss-same-key", "sched:cache-full", "sched:preemptions:3+"],
            },
            SubCheck {
                name: "schedules-sampled",
                about: "2-3 threads x 1..3 ops (Verify/Update/Evict) on a shared cache of capacity 1..4 under sampled schedules",
                source: Source::Random { len: 224, quick: 8_000, thorough: 200_000 },
                run: case_sched_sampled,
                inflight: true,
                min_nontrivial: 300,
                required_labels: &["sched:double-miss-same-key", "sched:threads:3", "sched:cache-full"],
            },
        ],
    };
    engine::main(prop);
}

#[cfg(test)]
mod tests {
    use super::*;

    /// number of leaves of the schedule tree of configuration (a, b, capacity)
    fn count(a: usize, b: usize, cap: usize) -> usize {
        let nl = EXH_LISTS.len();
        let idx = (cap - 1) * nl * nl * 2 + a * nl + b;
        let mut n = 0usize;
        let mut seen = std::collections::BTreeSet::new();
        // the enumerator emits every configuration of shard idx % 16
        enum_schedules(Tier::Thorough, idx % 16, 16, &mut |bytes: &[u8]| {
            if u16::from_be_bytes([bytes[0], bytes[1]]) as usize == idx {
                n += 1;
                assert!(seen.insert(bytes.to_vec()), "schedule emitted twice");
            }
            true
        });
        n
    }

    #[test]
    fn schedule_tree_sizes() {
        // disjoint lists, nothing ever hits: C(2+2, 2) and C(4+4, 4) interleavings
        assert_eq!(count(0, 1, 3), 6);
        assert_eq!(count(5, 7, 3), 70);
        // the same single pair on both threads: A.lookup A.put B.lookup(hit) |
        // A.l B.l A.p B.p | A.l B.l B.p A.p | and the three mirror images
        assert_eq!(count(0, 0, 3), 6);
    }

    #[test]
    fn choice_encoding_round_trips() {
        for n in 2..=8usize {
            for k in 0..n {
                let b = [enc_choice(k, n)];
                assert_eq!(Src::new(&b).below(n), k);
            }
        }
    }
}
