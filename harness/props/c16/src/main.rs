//! C16 — key and signature encodings round-trip and derivations commute.
//!
//! Subjects (code under test): chia-bls `PublicKey`, `Signature`, `SecretKey`,
//! `GTElement` (`to_bytes`, `from_bytes`, `from_bytes_unchecked`, `Streamable`),
//! `DerivableKey::derive_unhardened`, `master_to_wallet_unhardened*`, `sign`,
//! `verify`, key addition; chia-puzzle-types `DeriveSynthetic`.
//! Oracles: the algebraic laws of the statement (each side computed through a
//! different route of the code under test) and, for "is a point of the
//! prime-order subgroup", an independent order test: (r-1)*P + P == 0.
//! (`scalar_multiply` reduces its scalar modulo r — blst_scalar_from_be_bytes —
//! so multiplying by the 32-byte group order itself would compute 0*P = 0 for
//! *every* point and decide nothing; r-1 is below r and is not reduced.)

use std::io::Cursor;

use chia_bls::{
    hash_to_g1, hash_to_g2, master_to_wallet_unhardened, master_to_wallet_unhardened_intermediate,
    sign, verify, DerivableKey, GTElement, PublicKey, SecretKey, Signature,
};
use chia_puzzle_types::standard::DEFAULT_HIDDEN_PUZZLE_HASH;
use chia_puzzle_types::DeriveSynthetic;
use chia_traits::Streamable;
use num_bigint::{BigInt, BigUint, Sign};
use sha2::{Digest, Sha256};
use vcore::engine::{self, fail, CaseResult, Ctx, Property, Source, SubCheck};
use vcore::{fnv, vensure, Fnv, Src};

/// group order r, big-endian
const R: [u8; 32] = [
    0x73, 0xed, 0xa7, 0x53, 0x29, 0x9d, 0x7d, 0x48, 0x33, 0x39, 0xd8, 0x08, 0x09, 0xa1, 0xd8, 0x05,
    0x53, 0xbd, 0xa4, 0x02, 0xff, 0xfe, 0x5b, 0xfe, 0xff, 0xff, 0xff, 0xff, 0x00, 0x00, 0x00, 0x01,
];
/// r - 1
const R_MINUS_1: [u8; 32] = [
    0x73, 0xed, 0xa7, 0x53, 0x29, 0x9d, 0x7d, 0x48, 0x33, 0x39, 0xd8, 0x08, 0x09, 0xa1, 0xd8, 0x05,
    0x53, 0xbd, 0xa4, 0x02, 0xff, 0xfe, 0x5b, 0xfe, 0xff, 0xff, 0xff, 0xff, 0x00, 0x00, 0x00, 0x00,
];
/// base field modulus p, big-endian
const P_HEX: &str = "1a0111ea397fe69a4b1ba7b6434bacd764774b84f38512bf6730d2a0f6b0f6241eabfffeb153ffffb9feffffffffaaab";

fn p_mod() -> BigUint {
    BigUint::from_bytes_be(&hex::decode(P_HEX).expect("p"))
}

fn hx(b: &[u8]) -> String {
    hex::encode(b)
}

// --------------------------------------------------------------------------
// the two point types behind one interface

trait Pt: Sized + Clone + PartialEq + std::fmt::Debug + Streamable {
    const N: usize;
    const NAME: &'static str;
    fn checked(b: &[u8]) -> Result<Self, String>;
    fn unchecked(b: &[u8]) -> Result<Self, String>;
    fn enc(&self) -> Vec<u8>;
    fn identity() -> Self;
    /// independent order test: r*P == 0, computed as (r-1)*P + P
    fn times_r_is_identity(&self) -> bool;
    fn valid_sample(s: &mut Src<'_>) -> Self;
}

impl Pt for PublicKey {
    const N: usize = 48;
    const NAME: &'static str = "g1";
    fn checked(b: &[u8]) -> Result<Self, String> {
        PublicKey::from_bytes(b.try_into().expect("48 bytes")).map_err(|e| format!("{e:?}"))
    }
    fn unchecked(b: &[u8]) -> Result<Self, String> {
        PublicKey::from_bytes_unchecked(b.try_into().expect("48 bytes")).map_err(|e| format!("{e:?}"))
    }
    fn enc(&self) -> Vec<u8> {
        PublicKey::to_bytes(self).to_vec()
    }
    fn identity() -> Self {
        PublicKey::default()
    }
    fn times_r_is_identity(&self) -> bool {
        let mut q = *self;
        q.scalar_multiply(&R_MINUS_1);
        q += self;
        q == PublicKey::default()
    }
    fn valid_sample(s: &mut Src<'_>) -> Self {
        match s.below(5) {
            0 => seed_key(s).public_key(),
            1 => hash_to_g1(&s.bytes(4)),
            2 => -seed_key(s).public_key(),
            3 => PublicKey::generator(),
            _ => PublicKey::default(),
        }
    }
}

impl Pt for Signature {
    const N: usize = 96;
    const NAME: &'static str = "g2";
    fn checked(b: &[u8]) -> Result<Self, String> {
        Signature::from_bytes(b.try_into().expect("96 bytes")).map_err(|e| format!("{e:?}"))
    }
    fn unchecked(b: &[u8]) -> Result<Self, String> {
        Signature::from_bytes_unchecked(b.try_into().expect("96 bytes")).map_err(|e| format!("{e:?}"))
    }
    fn enc(&self) -> Vec<u8> {
        Signature::to_bytes(self).to_vec()
    }
    fn identity() -> Self {
        Signature::default()
    }
    fn times_r_is_identity(&self) -> bool {
        let mut q = self.clone();
        q.scalar_multiply(&R_MINUS_1);
        q += self;
        q == Signature::default()
    }
    fn valid_sample(s: &mut Src<'_>) -> Self {
        match s.below(5) {
            0 => hash_to_g2(&s.bytes(4)),
            1 => sign(&seed_key(s), s.bytes(3)),
            2 => -hash_to_g2(&s.bytes(4)),
            3 => Signature::generator(),
            _ => Signature::default(),
        }
    }
}

fn seed_key(s: &mut Src<'_>) -> SecretKey {
    let mut seed = [0u8; 32];
    seed[..4].copy_from_slice(&s.array::<4>());
    seed[31] = 0x16;
    SecretKey::from_seed(&seed)
}

/// `x` is a value of the type: it must survive every serialize/parse route
fn check_value_roundtrip<T: Pt>(x: &T, what: &str) -> CaseResult {
    let n = T::NAME;
    let b = x.enc();
    let back = T::checked(&b);
    vensure!(
        back.as_ref() == Ok(x),
        format!("C16:{n}:roundtrip-checked"),
        "{what}: from_bytes(to_bytes(x)) = {back:?}, x = {x:?}"
    );
    let back = T::unchecked(&b);
    vensure!(
        back.as_ref() == Ok(x),
        format!("C16:{n}:roundtrip-unchecked"),
        "{what}: from_bytes_unchecked(to_bytes(x)) = {back:?}, x = {x:?}"
    );
    let sb = Streamable::to_bytes(x).map_err(|e| format!("{e:?}"));
    vensure!(
        sb.as_ref() == Ok(&b),
        format!("C16:{n}:streamable-encoding-differs"),
        "{what}: Streamable::to_bytes = {sb:?}, to_bytes = {}",
        hx(&b)
    );
    let s1 = <T as Streamable>::from_bytes(&b).map_err(|e| format!("{e:?}"));
    vensure!(s1.as_ref() == Ok(x), format!("C16:{n}:roundtrip-streamable"), "{what}: Streamable::from_bytes(stream(x)) = {s1:?}, x = {x:?}");
    let s2 = <T as Streamable>::from_bytes_unchecked(&b).map_err(|e| format!("{e:?}"));
    vensure!(s2.as_ref() == Ok(x), format!("C16:{n}:roundtrip-streamable-trusted"), "{what}: Streamable::from_bytes_unchecked(stream(x)) = {s2:?}, x = {x:?}");
    Ok(())
}

#[derive(Clone, Copy, PartialEq, Debug)]
enum Verdict {
    Accepted,
    UncheckedOnly,
    Rejected,
}

/// every law the statement gives for an arbitrary byte string `b`
fn check_bytes<T: Pt>(b: &[u8]) -> Result<Verdict, engine::Failure> {
    let n = T::NAME;
    let c = T::checked(b);
    let u = T::unchecked(b);
    let sc = <T as Streamable>::from_bytes(b).map_err(|e| format!("{e:?}"));
    let su = <T as Streamable>::from_bytes_unchecked(b).map_err(|e| format!("{e:?}"));
    // Streamable parsing is the same function of the bytes
    vensure!(
        sc.is_ok() == c.is_ok() && (sc.is_err() || sc.as_ref().ok() == c.as_ref().ok()),
        format!("C16:{n}:streamable-checked-differs"),
        "bytes {}: from_bytes = {c:?}, Streamable::from_bytes = {sc:?}",
        hx(b)
    );
    vensure!(
        su.is_ok() == u.is_ok() && (su.is_err() || su.as_ref().ok() == u.as_ref().ok()),
        format!("C16:{n}:streamable-unchecked-differs"),
        "bytes {}: from_bytes_unchecked = {u:?}, Streamable::from_bytes_unchecked = {su:?}",
        hx(b)
    );
    if let Ok(x) = &c {
        // checked is a subset of unchecked
        vensure!(
            u.as_ref() == Ok(x),
            format!("C16:{n}:checked-not-subset-of-unchecked"),
            "bytes {}: from_bytes = Ok({x:?}) but from_bytes_unchecked = {u:?}",
            hx(b)
        );
        // unique encoding
        let e = x.enc();
        vensure!(
            e == b,
            format!("C16:{n}:non-canonical-encoding-accepted"),
            "from_bytes accepted {} but the point's encoding is {}",
            hx(b),
            hx(&e)
        );
        // accepted => infinity or order r
        vensure!(
            *x == T::identity() || x.times_r_is_identity(),
            format!("C16:{n}:checked-accepts-point-outside-subgroup"),
            "from_bytes accepted {} but (r-1)*P + P != 0",
            hx(b)
        );
    }
    if let Ok(y) = &u {
        let e = y.enc();
        vensure!(
            e == b,
            format!("C16:{n}:unchecked-non-canonical-encoding-accepted"),
            "from_bytes_unchecked accepted {} but the point's encoding is {}",
            hx(b),
            hx(&e)
        );
        let back = T::unchecked(&e);
        vensure!(
            back.as_ref() == Ok(y),
            format!("C16:{n}:roundtrip-unchecked"),
            "from_bytes_unchecked(to_bytes(y)) = {back:?} for y parsed from {}",
            hx(b)
        );
        if c.is_err() && (*y == T::identity() || y.times_r_is_identity()) {
            // y is a value of the type in the subgroup and b is its encoding:
            // the round-trip law demands that checked parsing accepts it
            return fail(
                format!("C16:{n}:checked-rejects-subgroup-point"),
                format!("bytes {} are the encoding of a point of order r (or infinity) but from_bytes = {c:?}", hx(b)),
            );
        }
    }
    Ok(match (c.is_ok(), u.is_ok()) {
        (true, _) => Verdict::Accepted,
        (false, true) => Verdict::UncheckedOnly,
        (false, false) => Verdict::Rejected,
    })
}

// --------------------------------------------------------------------------
// perturbation generators for 48/96-byte strings

const KINDS: [&str; 8] = [
    "valid",
    "flag-flip",
    "infinity-stray-bits",
    "x-plus-minus-modulus",
    "on-curve-random-x",
    "bit-flip",
    "random-bytes",
    "small-x",
];

fn add_modulus(coord: &mut [u8], flagged: bool, minus: bool) {
    // coord: 48 bytes big-endian; if flagged the top three bits are flag bits
    let flags = if flagged { coord[0] & 0xe0 } else { 0 };
    if flagged {
        coord[0] &= 0x1f;
    }
    let bits = if flagged { 381 } else { 384 };
    let modulus = BigUint::from(1u8) << bits;
    let x = BigUint::from_bytes_be(coord);
    let y: BigUint = if minus { (x + &modulus - p_mod()) % &modulus } else { (x + p_mod()) % &modulus };
    let yb = y.to_bytes_be();
    for c in coord.iter_mut() {
        *c = 0;
    }
    coord[48 - yb.len()..].copy_from_slice(&yb);
    coord[0] |= flags;
}

fn gen_bytes<T: Pt>(s: &mut Src<'_>) -> (usize, Vec<u8>) {
    let kind = s.weighted(&[2, 4, 4, 4, 6, 4, 2, 1]);
    let n = T::N;
    let b = match kind {
        0 => T::valid_sample(s).enc(),
        1 => {
            let mut b = T::valid_sample(s).enc();
            let mask = [0x80u8, 0x40, 0x20, 0xc0, 0xa0, 0x60, 0xe0][s.below(7)];
            b[0] ^= mask;
            b
        }
        2 => {
            let mut b = vec![0u8; n];
            b[0] = [0xc0u8, 0xe0, 0x40, 0x00, 0x80, 0xa0, 0x60, 0x20][s.below(8)];
            if s.bool() {
                // one stray bit anywhere (including the flag bits)
                let bit = s.below(n * 8);
                b[bit / 8] ^= 0x80 >> (bit % 8);
            }
            b
        }
        3 => {
            let mut b = T::valid_sample(s).enc();
            let minus = s.bool();
            if n == 96 && s.bool() {
                add_modulus(&mut b[48..96], false, minus);
            } else {
                add_modulus(&mut b[0..48], true, minus);
            }
            b
        }
        4 => {
            // random x below 2^381 with the compression bit set: on the curve about
            // half of the time, then outside the subgroup with overwhelming probability
            let mut b = s.bytes(n);
            b[0] = 0x80 | (b[0] & 0x3f);
            if n == 96 {
                b[48] &= 0x1f; // second coordinate below 2^381 too
            }
            b
        }
        5 => {
            let mut b = T::valid_sample(s).enc();
            let bit = s.below(n * 8);
            b[bit / 8] ^= 0x80 >> (bit % 8);
            b
        }
        6 => s.bytes(n),
        _ => {
            // tiny x coordinates
            let mut b = vec![0u8; n];
            b[0] = if s.bool() { 0x80 } else { 0xa0 };
            b[n - 1] = s.u8();
            if n == 96 && s.bool() {
                b[47] = s.u8();
            }
            b
        }
    };
    (kind, b)
}

fn case_parse<T: Pt>(bytes: &[u8], ctx: &mut Ctx) -> CaseResult {
    let mut s = Src::new(bytes);
    let (kind, b) = gen_bytes::<T>(&mut s);
    ctx.render(|| format!("{} bytes ({}): {}", T::NAME, KINDS[kind], hx(&b)));
    let v = check_bytes::<T>(&b)?;
    ctx.label(format!(
        "{}:{}:{}",
        T::NAME,
        KINDS[kind],
        match v {
            Verdict::Accepted => "accepted",
            Verdict::UncheckedOnly => "unchecked-only",
            Verdict::Rejected => "rejected",
        }
    ));
    if v != Verdict::Rejected {
        ctx.nontrivial(fnv(&b));
    }
    ctx.ran_dry(s.ran_dry());
    Ok(())
}

fn case_parse_g1(bytes: &[u8], ctx: &mut Ctx) -> CaseResult {
    case_parse::<PublicKey>(bytes, ctx)
}

fn case_parse_g2(bytes: &[u8], ctx: &mut Ctx) -> CaseResult {
    case_parse::<Signature>(bytes, ctx)
}

// --------------------------------------------------------------------------
// secret keys

fn sk_roundtrip(sk: &SecretKey, what: &str) -> CaseResult {
    let b = sk.to_bytes();
    let back = SecretKey::from_bytes(&b);
    vensure!(
        back.as_ref().ok() == Some(sk),
        "C16:sk:roundtrip",
        "{what}: from_bytes(to_bytes(sk)) differs (bytes {}, result ok = {})",
        hx(&b),
        back.is_ok()
    );
    let sb = Streamable::to_bytes(sk).map_err(|e| format!("{e:?}"));
    vensure!(sb.as_ref().ok().map(Vec::as_slice) == Some(&b[..]), "C16:sk:streamable-encoding-differs", "{what}: Streamable::to_bytes differs from to_bytes ({})", hx(&b));
    let s1 = <SecretKey as Streamable>::from_bytes(&b);
    vensure!(s1.as_ref().ok() == Some(sk), "C16:sk:roundtrip-streamable", "{what}: Streamable::from_bytes(stream(sk)) differs ({})", hx(&b));
    let s2 = <SecretKey as Streamable>::from_bytes_unchecked(&b);
    vensure!(s2.as_ref().ok() == Some(sk), "C16:sk:roundtrip-streamable-trusted", "{what}: Streamable::from_bytes_unchecked(stream(sk)) differs ({})", hx(&b));
    Ok(())
}

const SK_KINDS: [&str; 6] = ["around-r", "around-2r", "small", "r-bit-flip", "random-below-r", "random"];

fn add_small(base: &BigUint, d: i64) -> BigUint {
    if d >= 0 {
        base + BigUint::from(d as u64)
    } else {
        base - BigUint::from((-d) as u64)
    }
}

fn to32(v: &BigUint) -> [u8; 32] {
    let b = v.to_bytes_be();
    let mut out = [0u8; 32];
    let b = if b.len() > 32 { &b[b.len() - 32..] } else { &b[..] };
    out[32 - b.len()..].copy_from_slice(b);
    out
}

fn case_sk_bytes(bytes: &[u8], ctx: &mut Ctx) -> CaseResult {
    let mut s = Src::new(bytes);
    let r = BigUint::from_bytes_be(&R);
    let kind = s.weighted(&[4, 2, 1, 3, 3, 3]);
    let b: [u8; 32] = match kind {
        0 => to32(&add_small(&r, s.below(9) as i64 - 4)),
        1 => to32(&add_small(&(&r * 2u8), s.below(9) as i64 - 4)),
        2 => to32(&BigUint::from(s.below(4))),
        3 => {
            let mut b = R;
            let bit = s.below(256);
            b[bit / 8] ^= 0x80 >> (bit % 8);
            b
        }
        4 => {
            let mut b: [u8; 32] = s.array();
            b[0] = ((u16::from(b[0]) * 0x73) >> 8) as u8; // top byte strictly below r's (monotone)
            b
        }
        _ => s.array(),
    };
    ctx.render(|| format!("secret key bytes ({}): {}", SK_KINDS[kind], hx(&b)));
    let below_r = b < R; // big-endian byte order = numeric order
    let nonzero = b != [0u8; 32];
    let got = SecretKey::from_bytes(&b);
    let sgot = <SecretKey as Streamable>::from_bytes(&b);
    let tgot = <SecretKey as Streamable>::from_bytes_unchecked(&b);
    vensure!(
        sgot.is_ok() == got.is_ok() && tgot.is_ok() == got.is_ok(),
        "C16:sk:streamable-differs",
        "bytes {}: from_bytes ok = {}, Streamable::from_bytes ok = {}, trusted ok = {}",
        hx(&b),
        got.is_ok(),
        sgot.is_ok(),
        tgot.is_ok()
    );
    match &got {
        Ok(sk) => {
            // unique encoding of a scalar modulo r: only the representative below r
            vensure!(
                below_r,
                "C16:sk:non-canonical-scalar-accepted",
                "SecretKey::from_bytes accepted {} which is >= the group order (same key as its residue)",
                hx(&b)
            );
            vensure!(sk.to_bytes() == b, "C16:sk:encoding-changed", "from_bytes({}).to_bytes() = {}", hx(&b), hx(&sk.to_bytes()));
            vensure!(sgot.as_ref().ok() == Some(sk), "C16:sk:streamable-differs", "Streamable::from_bytes({}) gives another key", hx(&b));
            sk_roundtrip(sk, "parsed key")?;
            if nonzero {
                // consistent with the arithmetic: the key's public key is b * G
                let pk = sk.public_key();
                vensure!(
                    pk == PublicKey::from_integer(&b) && check_bytes::<PublicKey>(&pk.to_bytes())? == Verdict::Accepted,
                    "C16:sk:public-key-inconsistent",
                    "public key of secret key {} is not the scalar multiple of the generator / not a valid key",
                    hx(&b)
                );
            }
            ctx.nontrivial(fnv(&b));
        }
        Err(_) => {
            // every scalar in 1..r-1 is a secret key and `b` is its encoding
            vensure!(
                !(below_r && nonzero),
                "C16:sk:rejects-valid-scalar",
                "SecretKey::from_bytes rejected {} which is in 1..r-1",
                hx(&b)
            );
        }
    }
    ctx.label(format!("sk:{}:{}", SK_KINDS[kind], if got.is_ok() { "accepted" } else { "rejected" }));
    ctx.ran_dry(s.ran_dry());
    Ok(())
}

// --------------------------------------------------------------------------
// values: round-trips of keys, signatures, pairing elements

fn gt_roundtrip(g: &GTElement, what: &str) -> CaseResult {
    let b = g.to_bytes();
    let back = GTElement::from_bytes(&b);
    vensure!(back == *g, "C16:gt:roundtrip", "{what}: from_bytes(to_bytes(g)) != g");
    vensure!(back.to_bytes() == b, "C16:gt:encoding-changed", "{what}: to_bytes(from_bytes(b)) != b");
    let sb = Streamable::to_bytes(g).map_err(|e| format!("{e:?}"));
    vensure!(sb.as_ref().ok().map(Vec::as_slice) == Some(&b[..]), "C16:gt:streamable-encoding-differs", "{what}: Streamable::to_bytes differs from to_bytes");
    let s1 = <GTElement as Streamable>::from_bytes(&b);
    vensure!(s1.as_ref().ok() == Some(g), "C16:gt:roundtrip-streamable", "{what}: Streamable::from_bytes(stream(g)) != g");
    let s2 = <GTElement as Streamable>::from_bytes_unchecked(&b);
    vensure!(s2.as_ref().ok() == Some(g), "C16:gt:roundtrip-streamable-trusted", "{what}: Streamable::from_bytes_unchecked(stream(g)) != g");
    // a streamed element followed by garbage is not an element
    let mut longer = b.to_vec();
    longer.push(0);
    vensure!(<GTElement as Streamable>::from_bytes(&longer).is_err(), "C16:gt:trailing-byte-accepted", "{what}: Streamable::from_bytes accepts a trailing byte");
    vensure!(<GTElement as Streamable>::parse::<false>(&mut Cursor::new(&b[..b.len() - 1])).is_err(), "C16:gt:short-accepted", "{what}: parse accepts a truncated element");
    Ok(())
}

fn case_values(bytes: &[u8], ctx: &mut Ctx) -> CaseResult {
    let mut s = Src::new(bytes);
    let seed: [u8; 32] = s.array();
    let sk = SecretKey::from_seed(&seed);
    let sk2 = seed_key(&mut s);
    let msg_len = s.below(40);
    let msg = s.bytes(msg_len);
    ctx.render(|| format!("seed {} second-seed-key {} msg {}", hx(&seed), hx(&sk2.to_bytes()), hx(&msg)));
    sk_roundtrip(&sk, "key from seed")?;
    let pk = sk.public_key();
    check_value_roundtrip(&pk, "public key")?;
    vensure!(check_bytes::<PublicKey>(&pk.to_bytes())? == Verdict::Accepted, "C16:g1:roundtrip-checked", "public key encoding not accepted");
    check_value_roundtrip(&-pk, "negated public key")?;
    let pk2 = sk2.public_key();
    check_value_roundtrip(&(&pk + &pk2), "sum of public keys")?;
    check_value_roundtrip(&(&pk + &-pk), "pk + (-pk) = infinity")?;
    let sig = sign(&sk, &msg);
    check_value_roundtrip(&sig, "signature")?;
    vensure!(check_bytes::<Signature>(&sig.to_bytes())? == Verdict::Accepted, "C16:g2:roundtrip-checked", "signature encoding not accepted");
    let sig2 = sign(&sk2, &msg);
    check_value_roundtrip(&(&sig + &sig2), "aggregate signature")?;
    check_value_roundtrip(&-&sig, "negated signature")?;
    let mut zero = sig.clone();
    zero -= &sig;
    check_value_roundtrip(&zero, "sig - sig = infinity")?;
    // signing is deterministic and verifies
    let again = sign(&sk, &msg);
    vensure!(again.to_bytes() == sig.to_bytes(), "C16:sign:not-deterministic", "sign(sk, m) twice gives different bytes");
    vensure!(verify(&sig, &pk, &msg), "C16:sign:does-not-verify", "verify(sign(sk, m), pk, m) = false");
    // pairing elements (a quarter of the cases: a pairing costs ~1 ms)
    if s.chance(64) {
        let g = sig.pair(&pk);
        gt_roundtrip(&g, "pairing output")?;
        let mut g2 = g.clone();
        g2 *= &sig2.pair(&pk2);
        gt_roundtrip(&g2, "product of pairings")?;
        // any 576 bytes parse (no validation): the encoding must come back unchanged
        let mut raw = g.to_bytes();
        let at = s.below(raw.len());
        raw[at] ^= 1 << s.below(8);
        vensure!(GTElement::from_bytes(&raw).to_bytes() == raw, "C16:gt:encoding-changed", "to_bytes(from_bytes(b)) != b for a perturbed element");
        ctx.label("values:gt");
    }
    ctx.label("values:keys-and-signatures");
    ctx.nontrivial(fnv(&seed));
    ctx.ran_dry(s.ran_dry());
    Ok(())
}

// --------------------------------------------------------------------------
// derivations commute with taking the public key

const SPECIAL_IDX: [u32; 5] = [0, 1, 0x7fff_ffff, 0x8000_0000, 0xffff_ffff];

fn gen_idx(s: &mut Src<'_>) -> u32 {
    match s.below(8) {
        k @ 0..=4 => SPECIAL_IDX[k],
        5 => s.below(256) as u32,
        _ => s.u32(),
    }
}

/// the definition of the synthetic offset used by the Chia standard transaction:
/// int.from_bytes(sha256(pk || hidden_puzzle_hash), "big", signed=True) mod r.
/// MEASURED (label), not asserted unless VERIF_C16_ASSERT_DEFINITION is set: the
/// property statement only promises that both routes commute.
fn synthetic_offset_by_definition(pk: &PublicKey, hidden: &[u8; 32]) -> [u8; 32] {
    let mut h = Sha256::new();
    h.update(pk.to_bytes());
    h.update(hidden);
    let d: [u8; 32] = h.finalize().into();
    let v = BigInt::from_signed_bytes_be(&d);
    let r = BigInt::from_bytes_be(Sign::Plus, &R);
    let m = ((v % &r) + &r) % &r;
    to32(&m.to_biguint().expect("non-negative"))
}

fn case_derive(bytes: &[u8], ctx: &mut Ctx) -> CaseResult {
    let mut s = Src::new(bytes);
    let seed: [u8; 32] = s.array();
    let sk = SecretKey::from_seed(&seed);
    let pk = sk.public_key();
    let n = s.below(7);
    let path: Vec<u32> = (0..n).map(|_| gen_idx(&mut s)).collect();
    let widx = gen_idx(&mut s);
    let hidden: [u8; 32] = match s.below(4) {
        0 => DEFAULT_HIDDEN_PUZZLE_HASH,
        1 => [0u8; 32],
        2 => [0xff; 32],
        _ => s.array(),
    };
    ctx.render(|| format!("seed {} path {path:?} wallet index {widx} hidden puzzle hash {}", hx(&seed), hx(&hidden)));

    // unhardened derivation along the whole path
    let (mut cs, mut cp) = (sk.clone(), pk);
    for (depth, idx) in path.iter().enumerate() {
        cs = cs.derive_unhardened(*idx);
        cp = cp.derive_unhardened(*idx);
        vensure!(
            cs.public_key() == cp,
            "C16:derive_unhardened:does-not-commute",
            "depth {depth}, index {idx}: sk.derive_unhardened(i).public_key() = {:?}, sk.public_key().derive_unhardened(i) = {cp:?}",
            cs.public_key()
        );
    }
    if let Some(last) = path.last() {
        ctx.label(match *last {
            0 => "derive:idx:0",
            1 => "derive:idx:1",
            0x7fff_ffff => "derive:idx:2^31-1",
            0x8000_0000 => "derive:idx:2^31",
            0xffff_ffff => "derive:idx:2^32-1",
            _ => "derive:idx:other",
        });
    }
    // the derived keys are keys: they round-trip
    sk_roundtrip(&cs, "derived secret key")?;
    check_value_roundtrip(&cp, "derived public key")?;
    // wallet helpers (from the end of the path, so derived keys are exercised too)
    vensure!(
        master_to_wallet_unhardened_intermediate(&cs).public_key() == master_to_wallet_unhardened_intermediate(&cp),
        "C16:master_to_wallet_unhardened_intermediate:does-not-commute",
        "helper on secret key then public_key() differs from helper on the public key"
    );
    vensure!(
        master_to_wallet_unhardened(&cs, widx).public_key() == master_to_wallet_unhardened(&cp, widx),
        "C16:master_to_wallet_unhardened:does-not-commute",
        "index {widx}: helper on secret key then public_key() differs from helper on the public key"
    );
    // synthetic keys
    let ss = cs.derive_synthetic_hidden(&hidden);
    let sp = cp.derive_synthetic_hidden(&hidden);
    vensure!(
        ss.public_key() == sp,
        "C16:derive_synthetic_hidden:does-not-commute",
        "sk.derive_synthetic_hidden(h).public_key() = {:?}, pk.derive_synthetic_hidden(h) = {sp:?}",
        ss.public_key()
    );
    vensure!(
        cs.derive_synthetic().public_key() == cp.derive_synthetic(),
        "C16:derive_synthetic:does-not-commute",
        "sk.derive_synthetic().public_key() differs from pk.derive_synthetic()"
    );
    if hidden == DEFAULT_HIDDEN_PUZZLE_HASH {
        vensure!(
            cp.derive_synthetic() == sp,
            "C16:derive_synthetic:default-hash-differs",
            "derive_synthetic() differs from derive_synthetic_hidden(DEFAULT_HIDDEN_PUZZLE_HASH)"
        );
    }
    sk_roundtrip(&ss, "synthetic secret key")?;
    check_value_roundtrip(&sp, "synthetic public key")?;
    // measured, not asserted: agreement with the standard-transaction definition
    {
        let off = synthetic_offset_by_definition(&cp, &hidden);
        let agrees = match SecretKey::from_bytes(&off) {
            Ok(o) => &cp + &o.public_key() == sp && (&cs + &o) == ss,
            Err(_) => false,
        };
        if agrees {
            ctx.label("synthetic-definition:agrees");
        } else {
            ctx.label("synthetic-definition:DIFFERS");
            if std::env::var_os("VERIF_C16_ASSERT_DEFINITION").is_some() {
                return fail(
                    "C16:derive_synthetic:differs-from-standard-definition",
                    "synthetic key != key + (int_signed_be(sha256(pk || hidden)) mod r) [opt-in assertion]",
                );
            }
        }
    }
    // adding secret keys commutes with adding public keys (all three operators)
    let other = match s.below(4) {
        0 => seed_key(&mut s),
        1 => ss.clone(),
        2 => {
            // r - sk: the sum is the zero key, its public key the point at infinity
            let v = BigUint::from_bytes_be(&R) - BigUint::from_bytes_be(&cs.to_bytes());
            ctx.label("add:sum-is-zero");
            SecretKey::from_bytes(&to32(&v)).expect("r - sk is below r")
        }
        _ => cs.clone(),
    };
    let opk = other.public_key();
    let want = &cp + &opk;
    let s1 = &cs + &other;
    let s2 = cs.clone() + &other;
    let mut s3 = cs.clone();
    s3 += &other;
    vensure!(
        s1.public_key() == want && s2.public_key() == want && s3.public_key() == want,
        "C16:add:does-not-commute",
        "(sk1 + sk2).public_key() != pk1 + pk2 for sk1 = {}, sk2 = {}",
        hx(&cs.to_bytes()),
        hx(&other.to_bytes())
    );
    let mut p2 = cp;
    p2 += &opk;
    vensure!(p2 == want && cp + &opk == want, "C16:add:public-key-operators-differ", "pk1 + pk2 differs between Add and AddAssign");
    sk_roundtrip(&s1, "sum of secret keys")?;
    check_value_roundtrip(&want, "sum of public keys")?;
    // signing with a derived key is deterministic and verifies
    let msg_len = s.below(24);
    let msg = s.bytes(msg_len);
    let sig = sign(&ss, &msg);
    vensure!(sign(&ss, &msg).to_bytes() == sig.to_bytes(), "C16:sign:not-deterministic", "sign(sk, m) twice gives different bytes");
    vensure!(verify(&sig, &sp, &msg), "C16:sign:does-not-verify", "signature by the synthetic secret key does not verify under the synthetic public key");

    ctx.label(format!("derive:path-len:{}", path.len()));
    if path.len() >= 2 {
        let mut f = Fnv::new();
        f.write(&seed);
        for i in &path {
            f.write(&i.to_be_bytes());
        }
        ctx.nontrivial(f.finish());
    }
    ctx.ran_dry(s.ran_dry());
    Ok(())
}

// ---------------------------------------------------------------------------
// several keys, one after the other, on one thread. The derivation laws are laws
// about single keys; an implementation that keeps any per-thread or global state
// between calls (memoised intermediates, caches keyed by a fingerprint) can obey
// them for every key taken alone and break them for a sequence. Sequences are
// therefore generated, and the second key is chosen adversarially with respect
// to the only short identity the API exposes: `get_fingerprint()` (32 bits).
// Pairs of distinct master keys with EQUAL fingerprints are found once per
// process by a birthday search over 2^18 seeds (expected ~8 pairs; deterministic).

const COLLISION_SEARCH: u32 = 1 << 18;

fn counter_seed(c: u32) -> [u8; 32] {
    let mut seed = [0u8; 32];
    seed[..4].copy_from_slice(&c.to_be_bytes());
    seed[31] = 0x16;
    seed[30] = 0xc0;
    seed
}

/// pairs of seed counters whose master public keys share their fingerprint
fn fingerprint_collisions() -> &'static Vec<(u32, u32)> {
    static C: std::sync::OnceLock<Vec<(u32, u32)>> = std::sync::OnceLock::new();
    C.get_or_init(|| {
        let threads = 16u32;
        let per = COLLISION_SEARCH / threads;
        let mut all: Vec<(u32, u32)> = std::thread::scope(|sc| {
            let hs: Vec<_> = (0..threads)
                .map(|t| {
                    sc.spawn(move || {
                        (t * per..(t + 1) * per)
                            .map(|c| (SecretKey::from_seed(&counter_seed(c)).public_key().get_fingerprint(), c))
                            .collect::<Vec<(u32, u32)>>()
                    })
                })
                .collect();
            hs.into_iter().flat_map(|h| h.join().expect("collision search thread")).collect()
        });
        all.sort_unstable();
        let mut out = vec![];
        for w in all.windows(2) {
            if w[0].0 == w[1].0 {
                out.push((w[0].1, w[1].1));
            }
        }
        out
    })
}

fn commute_all(sk: &SecretKey, idx: u32, who: &str, step: usize) -> CaseResult {
    let pk = sk.public_key();
    vensure!(
        master_to_wallet_unhardened_intermediate(sk).public_key() == master_to_wallet_unhardened_intermediate(&pk),
        "C16:sequence:master_to_wallet_unhardened_intermediate:does-not-commute",
        "step {step} (key {who}): helper on the secret key then public_key() differs from the helper on the public key"
    );
    vensure!(
        master_to_wallet_unhardened(sk, idx).public_key() == master_to_wallet_unhardened(&pk, idx),
        "C16:sequence:master_to_wallet_unhardened:does-not-commute",
        "step {step} (key {who}), index {idx}: helper on the secret key then public_key() differs from the helper on the public key"
    );
    vensure!(
        sk.derive_unhardened(idx).public_key() == pk.derive_unhardened(idx),
        "C16:sequence:derive_unhardened:does-not-commute",
        "step {step} (key {who}), index {idx}"
    );
    vensure!(
        sk.derive_synthetic().public_key() == pk.derive_synthetic(),
        "C16:sequence:derive_synthetic:does-not-commute",
        "step {step} (key {who})"
    );
    // the same call twice gives the same answer
    vensure!(
        master_to_wallet_unhardened(&pk, idx) == master_to_wallet_unhardened(&pk, idx),
        "C16:sequence:master_to_wallet_unhardened:not-a-function-of-its-arguments",
        "step {step} (key {who}), index {idx}: two identical calls differ"
    );
    Ok(())
}

fn case_sequence(bytes: &[u8], ctx: &mut Ctx) -> CaseResult {
    let mut s = Src::new(bytes);
    let cols = fingerprint_collisions();
    let a_seed: [u8; 32];
    let b_seed: [u8; 32];
    let kind = s.weighted(&[3, 5, 1, 1]);
    match kind {
        1 if !cols.is_empty() => {
            let (x, y) = cols[s.below(cols.len())];
            let (x, y) = if s.bool() { (x, y) } else { (y, x) };
            a_seed = counter_seed(x);
            b_seed = counter_seed(y);
            ctx.label("sequence:fingerprint-colliding-pair");
        }
        2 => {
            a_seed = s.array();
            b_seed = a_seed;
            ctx.label("sequence:same-key-twice");
        }
        3 => {
            // neighbours in the collision search space (no collision)
            let c = s.u32() % COLLISION_SEARCH;
            a_seed = counter_seed(c);
            b_seed = counter_seed(c ^ 1);
            ctx.label("sequence:independent-keys");
        }
        _ => {
            a_seed = s.array();
            b_seed = s.array();
            ctx.label("sequence:independent-keys");
        }
    }
    let a = SecretKey::from_seed(&a_seed);
    let b = SecretKey::from_seed(&b_seed);
    if kind == 1 && !cols.is_empty() {
        assert!(a.public_key() != b.public_key() && a.public_key().get_fingerprint() == b.public_key().get_fingerprint(), "collision table");
    }
    let n = 2 + s.below(5);
    let mut order = vec![];
    for step in 0..n {
        let use_b = if step == 0 { false } else if step == 1 { true } else { s.bool() };
        let idx = gen_idx(&mut s);
        order.push((use_b, idx));
    }
    ctx.render(|| format!("key A seed {}, key B seed {} (fingerprints {} / {}), calls: {order:?}", hx(&a_seed), hx(&b_seed), a.public_key().get_fingerprint(), b.public_key().get_fingerprint()));
    for (step, (use_b, idx)) in order.iter().enumerate() {
        if *use_b {
            commute_all(&b, *idx, "B", step)?;
        } else {
            commute_all(&a, *idx, "A", step)?;
        }
    }
    let mut f = Fnv::new();
    f.write(&a_seed).write(&b_seed);
    for (u, i) in &order {
        f.write(&[u8::from(*u)]).write(&i.to_be_bytes());
    }
    ctx.nontrivial(f.finish());
    ctx.ran_dry(s.ran_dry());
    Ok(())
}

fn main() {
    let prop = Property {
        id: "C16",
        rule: "cases are (a) values: keys from 32-byte seeds, their sums/negations, signatures, aggregate signatures, pairing outputs — round-tripped through to_bytes/from_bytes/from_bytes_unchecked/Streamable; (b) 48- and 96-byte strings: valid encodings, each flag-bit combination flipped, infinity encodings with stray bits, a coordinate +/- the field modulus, random x with the compression bit (on the curve half of the time, then outside the subgroup), single bit flips, random bytes; (c) 32-byte scalars around r and 2r, bit flips of r, random; (d) seeds x derivation paths of length 0..6 over {0,1,2^31-1,2^31,2^32-1,random} x hidden puzzle hashes; (e) sequences of 2-6 derivation calls alternating between two master keys (independent, identical, or distinct with equal get_fingerprint()). Non-trivial = (b) a string accepted by unchecked parsing (the decision then rests on the subgroup test), (c) an accepted scalar, (d) a path of length >= 2, (a) every case. Distinct by the decoded bytes / seed+path.",
        assumptions: &[
            "subgroup membership is decided independently by (r-1)*P + P == 0 using scalar_multiply and point addition (scalar_multiply reduces its scalar modulo r, so r*P cannot be asked directly); correctness of blst's generic point multiplication/addition on curve points outside the subgroup is trusted",
            "unique encoding is asserted as: parse(b) = Ok(x) => to_bytes(x) = b (checked and unchecked), and for secret keys: accepted => integer value < r",
            "a byte string that is the encoding of a subgroup point must be accepted by checked parsing (this is the round-trip law for that point)",
            "the synthetic offset's definition (signed big-endian sha256(pk||hidden) mod r) is measured as a label only: both routes share synthetic_offset(), so the statement's commutation law cannot see it",
        ],
        death_is_violation: false,
        subchecks: vec![
            SubCheck {
                name: "values-roundtrip",
                about: "keys, signatures, sums, negations, infinity, pairing outputs survive every serialize/parse route; sign is deterministic and verifies",
                source: Source::Random { len: 256, quick: 20_000, thorough: 400_000 },
                run: case_values,
                inflight: false,
                min_nontrivial: 10_000,
                required_labels: &["values:gt"],
            },
            SubCheck {
                name: "g1-bytes",
                about: "48-byte strings: checked subset of unchecked, unique encoding, accepted => infinity or order r, Streamable agrees",
                source: Source::Random { len: 256, quick: 400_000, thorough: 8_000_000 },
                run: case_parse_g1,
                inflight: false,
                min_nontrivial: 50_000,
                required_labels: &[
                    "g1:valid:accepted",
                    "g1:flag-flip:rejected",
                    "g1:infinity-stray-bits:rejected",
                    "g1:infinity-stray-bits:accepted",
                    "g1:x-plus-minus-modulus:rejected",
                    "g1:on-curve-random-x:unchecked-only",
                    "g1:on-curve-random-x:rejected",
                    "g1:bit-flip:unchecked-only",
                    "g1:random-bytes:rejected",
                ],
            },
            SubCheck {
                name: "g2-bytes",
                about: "96-byte strings: checked subset of unchecked, unique encoding, accepted => infinity or order r, Streamable agrees",
                source: Source::Random { len: 512, quick: 150_000, thorough: 3_000_000 },
                run: case_parse_g2,
                inflight: false,
                min_nontrivial: 20_000,
                required_labels: &[
                    "g2:valid:accepted",
                    "g2:flag-flip:rejected",
                    "g2:infinity-stray-bits:rejected",
                    "g2:infinity-stray-bits:accepted",
                    "g2:x-plus-minus-modulus:rejected",
                    "g2:on-curve-random-x:unchecked-only",
                    "g2:on-curve-random-x:rejected",
                    "g2:bit-flip:unchecked-only",
                    "g2:random-bytes:rejected",
                ],
            },
            SubCheck {
                name: "sk-bytes",
                about: "32-byte scalars around the group order: accepted <=> canonical (below r), round-trip, public key consistent",
                source: Source::Random { len: 160, quick: 150_000, thorough: 3_000_000 },
                run: case_sk_bytes,
                inflight: false,
                min_nontrivial: 10_000,
                required_labels: &["sk:around-r:accepted", "sk:around-r:rejected", "sk:around-2r:rejected", "sk:small:accepted", "sk:random-below-r:accepted", "sk:random:rejected"],
            },
            SubCheck {
                name: "derivations",
                about: "unhardened paths, wallet helpers, synthetic keys and key addition commute with public_key(); sign deterministic and verifies",
                source: Source::Random { len: 640, quick: 30_000, thorough: 600_000 },
                run: case_derive,
                inflight: false,
                min_nontrivial: 10_000,
                required_labels: &[
                    "derive:idx:0",
                    "derive:idx:1",
                    "derive:idx:2^31-1",
                    "derive:idx:2^31",
                    "derive:idx:2^32-1",
                    "derive:path-len:6",
                    "add:sum-is-zero",
                ],
            },
            SubCheck {
                name: "key-sequences",
                about: "the derivation laws for 2-6 calls on two master keys in sequence on one thread; the second key is independent, identical, or a DIFFERENT key with the SAME 32-bit fingerprint (pairs found by a birthday search over 2^18 seeds)",
                source: Source::Random { len: 128, quick: 6_000, thorough: 120_000 },
                run: case_sequence,
                inflight: false,
                min_nontrivial: 3_000,
                required_labels: &["sequence:fingerprint-colliding-pair", "sequence:same-key-twice", "sequence:independent-keys"],
            },
        ],
    };
    engine::main(prop);
}
