fn main() {
    vcore::engine::main(c10::property());
}
