//! C10 — block builders emit exactly the accepted bundles within the cost limit.
//!
//! A stateful, model-based check of `BlockBuilder` (compressed generator) and
//! `InternedBlockBuilder`. One case = a pool of priced spend bundles, a block
//! cost limit and a history of `add_spend_bundles` calls ending in `finalize`.
//! The model is the list of accepted attempts; everything the statement says
//! is checked against it at `finalize`.
//!
//! An *attempt* is one `add_spend_bundles` call, i.e. the whole batch: the
//! batch has a single declared cost, a single limit test, goes into one
//! `Serializer::add` / one allocator checkpoint and is undone as a whole.

use std::collections::BTreeSet;
use std::panic::{catch_unwind, AssertUnwindSafe};
use std::sync::OnceLock;

use chia_bls::Signature;
use chia_consensus::build_compressed_block::{BlockBuilder, BuildBlockResult as CompressedResult};
use chia_consensus::build_interned_block::{BuildBlockResult as InternedResult, InternedBlockBuilder};
use chia_consensus::consensus_constants::{ConsensusConstants, TEST_CONSTANTS};
use chia_consensus::flags::{ConsensusFlags, MEMPOOL_MODE};
use chia_consensus::run_block_generator::run_block_generator2;
use chia_consensus::spendbundle_conditions::run_spendbundle;
use chia_protocol::{Coin, CoinSpend, Program, SpendBundle};
use clvmr::allocator::{Allocator, NodePtr, SExp};
use clvmr::serde::{node_from_bytes, node_from_bytes_backrefs, node_to_bytes, node_to_bytes_backrefs};
use vcore::condgen::{self, GenCfg};
use vcore::engine::{CaseResult, Ctx, Failure, Property, Source, SubCheck};
use vcore::gentree::{Tid, Tree};
use vcore::model::conditions as mc;
use vcore::model::int::enc_u64;
use vcore::model::treehash;
use vcore::{Fnv, Src};

/// the constant of both builders (not exported by them); only used to *label*
/// which reject branch fired, never asserted
const MIN_COST_THRESHOLD: u64 = 6_000_000;

// ---------------------------------------------------------------------------
// the two builders behind one interface

pub trait Bld: Sized {
    const NAME: &'static str;
    fn create(c: &ConsensusConstants) -> Self;
    /// `(added, done)`; `Err` rendered as text
    fn add(&mut self, batch: &[&SpendBundle], cost: u64, c: &ConsensusConstants) -> Result<(bool, bool), String>;
    fn cost(&self) -> u64;
    fn finish(self, c: &ConsensusConstants) -> Result<(Vec<u8>, Signature, u64), String>;
    /// the consensus flag under which `run_block_generator2` charges what
    /// `finalize` computes: byte length for the compressed builder
    /// (`ser.size() * cost_per_byte`), interned vbytes for the interned one
    fn generator_flags() -> ConsensusFlags;
}

impl Bld for BlockBuilder {
    const NAME: &'static str = "compressed";
    fn create(_c: &ConsensusConstants) -> Self {
        BlockBuilder::new().expect("BlockBuilder::new")
    }
    fn add(&mut self, batch: &[&SpendBundle], cost: u64, c: &ConsensusConstants) -> Result<(bool, bool), String> {
        match self.add_spend_bundles(batch.iter().copied(), cost, c) {
            Ok((added, r)) => Ok((added, r == CompressedResult::Done)),
            Err(e) => Err(format!("{e:?}")),
        }
    }
    fn cost(&self) -> u64 {
        BlockBuilder::cost(self)
    }
    fn finish(self, c: &ConsensusConstants) -> Result<(Vec<u8>, Signature, u64), String> {
        self.finalize(c).map_err(|e| format!("{e:?}"))
    }
    fn generator_flags() -> ConsensusFlags {
        ConsensusFlags::empty()
    }
}

impl Bld for InternedBlockBuilder {
    const NAME: &'static str = "interned";
    fn create(c: &ConsensusConstants) -> Self {
        InternedBlockBuilder::new(c)
    }
    fn add(&mut self, batch: &[&SpendBundle], cost: u64, _c: &ConsensusConstants) -> Result<(bool, bool), String> {
        match self.add_spend_bundles(batch.iter().copied(), cost) {
            Ok((added, r)) => Ok((added, r == InternedResult::Done)),
            Err(e) => Err(format!("{e:?}")),
        }
    }
    fn cost(&self) -> u64 {
        InternedBlockBuilder::cost(self)
    }
    fn finish(mut self, _c: &ConsensusConstants) -> Result<(Vec<u8>, Signature, u64), String> {
        self.finalize().map_err(|e| format!("{e:?}"))
    }
    fn generator_flags() -> ConsensusFlags {
        ConsensusFlags::INTERNED_GENERATOR
    }
}

// ---------------------------------------------------------------------------
// the bundle pool

/// `(parent, plain puzzle serialization, canonical amount atom, plain solution
/// serialization)` — the value of one spend as it must appear in the generator
pub type SpendKey = (Vec<u8>, Vec<u8>, Vec<u8>, Vec<u8>);

pub struct PBundle {
    /// what is handed to the builder (reveals possibly back-ref compressed)
    pub sb: SpendBundle,
    pub keys: Vec<SpendKey>,
    pub coin_ids: Vec<[u8; 32]>,
    /// execution + condition cost under the case's flags (run_spendbundle);
    /// None for a bundle whose reveal does not decode
    pub truthful: Option<u64>,
    pub kind: &'static str,
    pub wire_size: usize,
    pub fp: u64,
}

pub struct Case {
    pub constants: ConsensusConstants,
    pub base_flags: ConsensusFlags,
    pub pool: Vec<PBundle>,
    pub style: &'static str,
}

/// deterministic expansion of a few choice bytes into a long atom (splitmix64)
fn expand(seed: u64, len: usize) -> Vec<u8> {
    let mut x = seed;
    let mut out = Vec::with_capacity(len + 8);
    while out.len() < len {
        x = x.wrapping_add(0x9E37_79B9_7F4A_7C15);
        let mut z = x;
        z = (z ^ (z >> 30)).wrapping_mul(0xBF58_476D_1CE4_E5B9);
        z = (z ^ (z >> 27)).wrapping_mul(0x94D0_49BB_1331_11EB);
        z ^= z >> 31;
        out.extend_from_slice(&z.to_le_bytes());
    }
    out.truncate(len);
    out
}

fn pad_len(s: &mut Src<'_>) -> usize {
    match s.weighted(&[8, 6, 4, 3, 2]) {
        0 => s.range(2, 40),
        1 => s.range(41, 200),
        2 => s.range(200, 800),
        3 => s.range(800, 2500),
        _ => s.range(2500, 6000),
    }
}

/// sub-trees that several bundles of the pool have in common
enum Blob {
    Atom(Vec<u8>),
    List(Vec<Vec<u8>>),
}

impl Blob {
    fn add_to(&self, t: &mut Tree) -> Tid {
        match self {
            Blob::Atom(b) => t.atom(b),
            Blob::List(items) => {
                let ids: Vec<Tid> = items.iter().map(|b| t.atom(b)).collect();
                t.list(&ids)
            }
        }
    }
}

fn gen_blobs(s: &mut Src<'_>) -> Vec<Blob> {
    let n = s.range(2, 5);
    (0..n)
        .map(|i| {
            let seed = (u64::from(s.u16()) << 8) | i as u64;
            if s.bool() {
                let k = s.range(2, 8);
                Blob::List((0..k).map(|j| expand(seed ^ ((j as u64) << 40), if j % 2 == 0 { 32 } else { 3 + j * 17 })).collect())
            } else {
                Blob::Atom(expand(seed, pad_len(s)))
            }
        })
        .collect()
}

/// 0–3 REMARK conditions carrying shared blobs and/or unique long atoms
fn gen_padding(s: &mut Src<'_>, t: &mut Tree, blobs: &[Blob]) -> Vec<Tid> {
    let n = s.weighted(&[6, 5, 3, 1]);
    let mut out = vec![];
    for _ in 0..n {
        let n_args = s.range(1, 3);
        let mut items = vec![t.atom(&[1])];
        for _ in 0..n_args {
            if s.chance(120) {
                items.push(s.pick(blobs).add_to(t));
            } else {
                let seed = u64::from(s.u32());
                let b = expand(seed | (1 << 50), pad_len(s));
                items.push(t.atom(&b));
            }
        }
        out.push(t.list(&items));
    }
    out
}

/// re-serialize with back-references (the builders accept either form)
fn backref_form(plain: &[u8]) -> Vec<u8> {
    let mut a = Allocator::new();
    match node_from_bytes(&mut a, plain) {
        Ok(n) => node_to_bytes_backrefs(&a, n).expect("harness: node_to_bytes_backrefs"),
        // the deliberately undecodable reveals stay as they are
        Err(_) => plain.to_vec(),
    }
}

struct RawSpend {
    parent: [u8; 32],
    puzzle_hash: [u8; 32],
    amount: u64,
    puzzle: Vec<u8>,
    solution: Vec<u8>,
}

fn sig_pool() -> &'static Vec<Signature> {
    static POOL: OnceLock<Vec<Signature>> = OnceLock::new();
    POOL.get_or_init(|| {
        let keys = condgen::key_pool();
        let mut out = vec![];
        for m in 0..8u8 {
            for sk in &keys.sks {
                out.push(chia_bls::sign(sk, [b"c10 bundle message ".as_slice(), &[m]].concat()));
            }
        }
        out
    })
}

/// a valid G2 element per bundle: one pool signature selected by the pool
/// index (distinct for the ≤ 16 bundles of a pool), optionally aggregated with
/// a second one
fn bundle_signature(s: &mut Src<'_>, idx: usize) -> Signature {
    let pool = sig_pool();
    let mut sig = pool[(idx * 3 + 1) % pool.len()].clone();
    if s.bool() {
        sig.aggregate(&pool[s.below(pool.len())]);
    }
    sig
}

fn price(spends: &[RawSpend], flags: ConsensusFlags) -> Option<u64> {
    let sb = SpendBundle::new(
        spends
            .iter()
            .map(|r| CoinSpend::new(Coin::new(r.parent.into(), r.puzzle_hash.into(), r.amount), Program::from(r.puzzle.clone()), Program::from(r.solution.clone())))
            .collect(),
        Signature::default(),
    );
    let mut a = Allocator::new();
    match run_spendbundle(&mut a, &sb, u64::MAX / 4, flags | ConsensusFlags::DONT_VALIDATE_SIGNATURE, &TEST_CONSTANTS) {
        Ok((c, _)) => Some(c.execution_cost + c.condition_cost),
        Err(_) => None,
    }
}

fn finish_bundle(s: &mut Src<'_>, idx: usize, spends: Vec<RawSpend>, truthful: Option<u64>, kind: &'static str) -> PBundle {
    let mut fp = Fnv::new();
    let mut keys = vec![];
    let mut coin_ids = vec![];
    let mut coin_spends = vec![];
    let mut wire_size = 0usize;
    for r in &spends {
        fp.write(&r.parent).write(&r.puzzle).write_u64(r.amount).write(&r.solution);
        keys.push((r.parent.to_vec(), r.puzzle.clone(), enc_u64(r.amount), r.solution.clone()));
        coin_ids.push(mc::coin_id(&r.parent, &r.puzzle_hash, r.amount));
        // some reveals are handed over in back-reference form
        let (pz, sol) = match s.weighted(&[5, 2, 1]) {
            0 => (r.puzzle.clone(), r.solution.clone()),
            1 => (r.puzzle.clone(), backref_form(&r.solution)),
            _ => (backref_form(&r.puzzle), backref_form(&r.solution)),
        };
        wire_size += pz.len() + sol.len() + 45;
        coin_spends.push(CoinSpend::new(Coin::new(r.parent.into(), r.puzzle_hash.into(), r.amount), Program::from(pz), Program::from(sol)));
    }
    let sig = bundle_signature(s, idx);
    PBundle {
        sb: SpendBundle::new(coin_spends, sig),
        keys,
        coin_ids,
        truthful,
        kind,
        wire_size,
        fp: fp.finish(),
    }
}

/// spends that share (almost) nothing with each other: the puzzle is a path
/// atom, the solution holds the (empty or one-condition) condition list at that
/// path and unique atoms everywhere else. This is where the interned builder's
/// per-spend upper bound is tightest.
fn gen_sparse_spends(s: &mut Src<'_>, idx: usize, blobs: &[Blob]) -> Vec<RawSpend> {
    let n = s.weighted(&[8, 4, 2]) + 1;
    let mut out = vec![];
    for j in 0..n {
        let salt = (u64::from(s.u16()) << 16) | ((idx as u64) << 8) | j as u64;
        let mut parent: [u8; 32] = expand(salt | (2 << 50), 32).try_into().unwrap();
        parent[0] = 0xd0;
        parent[1] = idx as u8;
        parent[2] = j as u8;
        let depth = s.range(1, 5);
        let mut t = Tree::new();
        // the conditions at the end of the path
        let mut node = match s.weighted(&[6, 2, 2]) {
            0 => t.nil(),
            1 => {
                let op = t.atom(&[51]);
                let ph = t.atom(&expand(salt | (3 << 50), 32));
                let am = t.atom(&enc_u64(200 + idx as u64));
                let c = t.list(&[op, ph, am]);
                t.list(&[c])
            }
            _ => {
                let pad = gen_padding(s, &mut t, blobs);
                t.list(&pad)
            }
        };
        let mut path: u32 = 1;
        let mut steps = vec![];
        for _ in 0..depth {
            steps.push(s.bool());
        }
        // build bottom-up: the last step is applied first
        for (k, rest) in steps.iter().enumerate().rev() {
            let junk_len = if s.chance(40) { pad_len(s) } else { s.range(2, 40) };
            let junk = t.atom(&expand(salt ^ ((k as u64 + 7) << 44), junk_len));
            node = if *rest { t.pair(junk, node) } else { t.pair(node, junk) };
        }
        for rest in steps.iter().rev() {
            path = (path << 1) | u32::from(*rest);
        }
        let puzzle_atom = enc_u64(u64::from(path));
        let amount = 0x0100_0000 + (idx as u64) * 1031 + (j as u64) * 17 + u64::from(s.u8());
        out.push(RawSpend {
            parent,
            puzzle_hash: treehash::hash_atom(&puzzle_atom),
            amount,
            puzzle: {
                let mut v = vec![];
                vcore::gentree::write_atom(&mut v, &puzzle_atom);
                v
            },
            solution: t.serialize(node),
        });
    }
    out
}

/// always valid, coin ids unique by construction (fallback when a generated
/// bundle does not price or collides with an earlier bundle of the pool)
fn gen_simple_spends(s: &mut Src<'_>, idx: usize, blobs: &[Blob]) -> Vec<RawSpend> {
    let n = s.weighted(&[6, 3]) + 1;
    let phs = condgen::tag_puzzle_hashes();
    let mut out = vec![];
    for j in 0..n {
        let mut parent = [0u8; 32];
        parent[0] = 0xc0;
        parent[1] = idx as u8;
        parent[2] = j as u8;
        let tag = s.below(condgen::NUM_TAGS) as u8 + 1;
        let mut t = Tree::new();
        let amount = 1000 + idx as u64;
        let mut conds = vec![];
        if s.bool() {
            let op = t.atom(&[51]);
            let ph = t.atom(&[0x66; 32]);
            let am = t.atom(&enc_u64(amount / 2));
            conds.push(t.list(&[op, ph, am]));
        }
        conds.extend(gen_padding(s, &mut t, blobs));
        let sol = t.list(&conds);
        let pz = condgen::tagged_identity(&mut t, tag);
        out.push(RawSpend {
            parent,
            puzzle_hash: phs[(tag - 1) as usize],
            amount,
            puzzle: t.serialize(pz),
            solution: t.serialize(sol),
        });
    }
    out
}

fn gen_condgen_spends(s: &mut Src<'_>, blobs: &[Blob]) -> Vec<RawSpend> {
    let cfg = GenCfg {
        max_spends: 3,
        max_conds: 5,
        mutation_rate: 0,
        agg_sigs: false,
        huge: false,
        strict_friendly: true,
        shape_mutations: false,
        careful_rate: 256,
        eval_puzzles: false,
    };
    let mut sub = s.sub(160);
    let mut b = condgen::gen_bundle(&mut sub, &cfg);
    let mut out = vec![];
    for i in 0..b.spends.len() {
        let mut conds = b.spends[i].conds.clone();
        let pad = gen_padding(s, &mut b.tree, blobs);
        if s.bool() {
            conds.extend(pad);
        } else {
            let mut p = pad;
            p.extend(conds);
            conds = p;
        }
        let sol = b.tree.list(&conds);
        let sp = &b.spends[i];
        out.push(RawSpend {
            parent: sp.parent,
            puzzle_hash: sp.puzzle_hash,
            amount: sp.amount,
            puzzle: b.tree.serialize(sp.puzzle),
            solution: b.tree.serialize(sol),
        });
    }
    out
}

/// one spend per bundle, all bundles of the pool cut from ONE template: the same
/// tree shape (k REMARK conditions of one atom each in front of an optional
/// CREATE_COIN, tagged-identity puzzle), differing in the puzzle tag, the parent
/// and the atoms' contents and sizes. A few members carry an atom of 0.3-1.3 MB:
/// with a truthful (tiny) declared cost such a bundle passes every cheap
/// pre-check, is parsed into the builder's allocator, serialized, and only then
/// rejected on its byte cost — the expensive undo path — after which the next
/// batch is parsed into a builder that has seen (and has to have forgotten)
/// megabytes of same-shaped content.
fn gen_family_spends(s: &mut Src<'_>, idx: usize, k: usize) -> (Vec<RawSpend>, &'static str) {
    let phs = condgen::tag_puzzle_hashes();
    let tag = s.below(condgen::NUM_TAGS.min(4)) as u8 + 1;
    let size_class = s.weighted(&[12, 2, 2]);
    let mut parent = [0u8; 32];
    parent[0] = 0xe0;
    parent[1] = idx as u8;
    let mut t = Tree::new();
    let mut conds = vec![];
    for j in 0..k {
        let op = t.atom(&[1]);
        let seed = (u64::from(s.u16()) << 8) | j as u64 | (4 << 50);
        let len = if j == 0 {
            match size_class {
                0 => s.range(5, 300),
                1 => 300_000 + s.below(300_000),
                _ => 1_048_576 + s.below(300_000),
            }
        } else {
            s.range(5, 300)
        };
        // a small pool of contents: members often repeat each other's atoms
        let a = t.atom(&expand(seed & 0x3ff | (4 << 50), len));
        conds.push(t.list(&[op, a]));
    }
    let amount = 2000 + idx as u64;
    {
        let op = t.atom(&[51]);
        let ph = t.atom(&[0x67; 32]);
        let am = t.atom(&enc_u64(amount / 2));
        conds.push(t.list(&[op, ph, am]));
    }
    let sol = t.list(&conds);
    let pz = condgen::tagged_identity(&mut t, tag);
    (
        vec![RawSpend {
            parent,
            puzzle_hash: phs[(tag - 1) as usize],
            amount,
            puzzle: t.serialize(pz),
            solution: t.serialize(sol),
        }],
        match size_class {
            0 => "family-small",
            1 => "family-300-600kB",
            _ => "family-over-1MiB",
        },
    )
}

pub fn gen_case(s: &mut Src<'_>) -> Case {
    let base_flags = match s.below(4) {
        0 => ConsensusFlags::empty(),
        1 => MEMPOOL_MODE,
        2 => ConsensusFlags::COST_CONDITIONS,
        _ => MEMPOOL_MODE | ConsensusFlags::COST_CONDITIONS,
    };
    // (all-zero choices select style 0, as they did when there were two styles)
    let pool_style = s.weighted(&[92, 23, 3]);
    let sparse_pool = pool_style == 1;
    let family_pool = pool_style == 2;
    let n = s.range(6, 16);
    let blobs = gen_blobs(s);
    let family_k = if family_pool { s.range(1, 3) } else { 0 };
    let mut pool: Vec<PBundle> = vec![];
    let mut seen: BTreeSet<[u8; 32]> = BTreeSet::new();
    for idx in 0..n {
        let kind_sel = if family_pool {
            3
        } else if sparse_pool {
            1
        } else {
            s.weighted(&[10, 2, 1])
        };
        let (mut spends, mut kind) = match kind_sel {
            3 => gen_family_spends(s, idx, family_k),
            0 => (gen_condgen_spends(s, &blobs), "condgen"),
            1 => (gen_sparse_spends(s, idx, &blobs), "sparse"),
            _ => (gen_simple_spends(s, idx, &blobs), "simple"),
        };
        let collides = |sp: &[RawSpend], seen: &BTreeSet<[u8; 32]>| {
            let mut own = BTreeSet::new();
            sp.iter().any(|r| {
                let id = mc::coin_id(&r.parent, &r.puzzle_hash, r.amount);
                seen.contains(&id) || !own.insert(id)
            })
        };
        let mut truthful = if collides(&spends, &seen) { None } else { price(&spends, base_flags) };
        if truthful.is_none() {
            spends = gen_simple_spends(s, idx, &blobs);
            kind = "simple-fallback";
            truthful = price(&spends, base_flags);
            assert!(truthful.is_some(), "harness: fallback bundle must price");
        }
        // a bundle with a reveal that does not decode: every add with it is Err
        if s.chance(8) {
            let k = s.below(spends.len());
            if s.bool() {
                spends[k].solution = vec![0xff, 0x01];
            } else {
                spends[k].puzzle = vec![0xfe, 0x7f];
            }
            kind = "undecodable";
            truthful = None;
        }
        // the builders never look at coin.puzzle_hash (validation does): a bundle
        // whose coin CLAIMS the puzzle hash of a spend of an earlier bundle while
        // revealing its own, different puzzle must be emitted with its own reveal
        if kind != "undecodable" && idx > 0 && s.chance(12) {
            let j = s.below(idx);
            let donor = &pool[j].sb.coin_spends;
            let x = s.below(donor.len());
            let k = s.below(spends.len());
            let claimed: [u8; 32] = donor[x].coin.puzzle_hash.as_slice().try_into().expect("32 bytes");
            if claimed != spends[k].puzzle_hash && donor[x].puzzle_reveal.as_slice() != spends[k].puzzle.as_slice() {
                spends[k].puzzle_hash = claimed;
                kind = "claims-foreign-puzzle-hash";
                truthful = None;
            }
        }
        let pb = finish_bundle(s, idx, spends, truthful, kind);
        if pb.truthful.is_some() {
            for id in &pb.coin_ids {
                seen.insert(*id);
            }
        }
        pool.push(pb);
    }
    let cpb = TEST_CONSTANTS.cost_per_byte;
    let total: u64 = pool.iter().map(|b| b.truthful.unwrap_or(0) + b.wire_size as u64 * cpb).sum();
    let uniform = |s: &mut Src<'_>, lo: u64, hi: u64| lo + ((u64::from(s.u32()) * (hi - lo)) >> 32);
    let max = if s.bool() {
        match s.weighted(&[4, 4, 3, 2]) {
            0 => uniform(s, 30_000_000, 60_000_000),
            1 => uniform(s, 60_000_000, 150_000_000),
            2 => uniform(s, 150_000_000, 300_000_000),
            _ => uniform(s, 300_000_000, 600_000_000),
        }
    } else {
        let pct = s.range(10, 90) as u64;
        (total / 100 * pct + u64::from(s.u16())).clamp(30_000_000, 600_000_000)
    };
    let mut constants = TEST_CONSTANTS.clone();
    constants.max_block_cost_clvm = max;
    Case {
        constants,
        base_flags,
        pool,
        style: if family_pool {
            "family"
        } else if sparse_pool {
            "sparse"
        } else {
            "mixed"
        },
    }
}

// ---------------------------------------------------------------------------
// histories

#[derive(Clone, Copy, Debug, PartialEq, Eq)]
pub enum Mode {
    Truthful,
    TruthfulPlus,
    Arbitrary,
    ExactFit,
    ExactFitPlusOne,
    /// the fitting cost plus up to a few dozen bytes' worth of cost
    ExactFitPlusSome,
}

#[derive(Clone, Copy, Debug, PartialEq, Eq)]
pub enum Outcome {
    Accepted,
    Rejected,
    Error,
}

#[derive(Clone, Debug)]
pub struct Attempt {
    pub batch: Vec<usize>,
    pub declared: u64,
    pub mode: Mode,
    pub truthful: bool,
    pub outcome: Outcome,
    /// cost() of the builder under test right before the call
    pub before: u64,
}

fn batch_refs<'a>(pool: &'a [PBundle], batch: &[usize]) -> Vec<&'a SpendBundle> {
    batch.iter().map(|i| &pool[*i].sb).collect()
}

/// issue the same calls again on a new builder; returns the builder and
/// whether every call had the recorded outcome
fn replay<B: Bld>(case: &Case, attempts: &[Attempt]) -> (B, bool) {
    let mut b = B::create(&case.constants);
    let mut same = true;
    for at in attempts {
        let r = b.add(&batch_refs(&case.pool, &at.batch), at.declared, &case.constants);
        let o = match r {
            Ok((true, _)) => Outcome::Accepted,
            Ok((false, _)) => Outcome::Rejected,
            Err(_) => Outcome::Error,
        };
        same &= o == at.outcome;
    }
    (b, same)
}

fn decode_spends(generator: &[u8]) -> Result<Vec<SpendKey>, String> {
    let mut a = Allocator::new();
    let root = node_from_bytes_backrefs(&mut a, generator).map_err(|e| format!("generator does not decode: {e:?}"))?;
    let pair = |a: &Allocator, n: NodePtr, what: &str| -> Result<(NodePtr, NodePtr), String> {
        match a.sexp(n) {
            SExp::Pair(l, r) => Ok((l, r)),
            SExp::Atom => Err(format!("{what}: atom where a pair is expected")),
        }
    };
    let atom = |a: &Allocator, n: NodePtr, what: &str| -> Result<Vec<u8>, String> {
        match a.sexp(n) {
            SExp::Atom => Ok(a.atom(n).as_ref().to_vec()),
            SExp::Pair(..) => Err(format!("{what}: pair where an atom is expected")),
        }
    };
    let (q, rest) = pair(&a, root, "generator")?;
    if atom(&a, q, "quote")? != [1u8] {
        return Err("generator does not start with (q . …)".into());
    }
    let (mut list, tail) = pair(&a, rest, "quoted value")?;
    if !atom(&a, tail, "outer list terminator")?.is_empty() {
        return Err("outer list is not nil-terminated".into());
    }
    let mut out = vec![];
    loop {
        match a.sexp(list) {
            SExp::Atom => {
                if a.atom_len(list) != 0 {
                    return Err("spend list is not nil-terminated".into());
                }
                break;
            }
            SExp::Pair(item, next) => {
                let (parent, r1) = pair(&a, item, "spend")?;
                let (puzzle, r2) = pair(&a, r1, "spend after parent")?;
                let (amount, r3) = pair(&a, r2, "spend after puzzle")?;
                let (solution, r4) = pair(&a, r3, "spend after amount")?;
                if !atom(&a, r4, "spend terminator")?.is_empty() {
                    return Err("spend tuple has more than four fields".into());
                }
                out.push((
                    atom(&a, parent, "parent id")?,
                    node_to_bytes(&a, puzzle).map_err(|e| format!("{e:?}"))?,
                    atom(&a, amount, "amount")?,
                    node_to_bytes(&a, solution).map_err(|e| format!("{e:?}"))?,
                ));
                list = next;
            }
        }
    }
    Ok(out)
}

fn short(k: &SpendKey) -> String {
    let h = |b: &[u8]| -> String { b.iter().take(6).map(|x| format!("{x:02x}")).collect() };
    format!("(parent {}… puzzle[{}] amount 0x{} solution[{}])", h(&k.0), k.1.len(), h(&k.2), k.3.len())
}

fn panic_text(p: &(dyn std::any::Any + Send)) -> String {
    let msg = if let Some(s) = p.downcast_ref::<&str>() {
        (*s).to_string()
    } else if let Some(s) = p.downcast_ref::<String>() {
        s.clone()
    } else {
        "non-string panic".to_string()
    };
    msg.chars().filter(|c| c.is_ascii_alphanumeric() || " _<=>.".contains(*c)).take(60).collect::<String>().replace(' ', "_")
}

fn fail(sig: String, msg: String) -> CaseResult {
    Err(Failure { sig, msg })
}

struct Run<'a> {
    labels: BTreeSet<String>,
    log: Vec<String>,
    want_log: bool,
    ctx: &'a mut Ctx,
}

impl Run<'_> {
    fn label(&mut self, l: impl Into<String>) {
        self.labels.insert(l.into());
    }
    fn log(&mut self, f: impl FnOnce() -> String) {
        if self.want_log {
            self.log.push(f());
        }
    }
}

pub fn case_fn<B: Bld>(bytes: &[u8], ctx: &mut Ctx) -> CaseResult {
    let want_log = ctx.want_render();
    let mut run = Run {
        labels: BTreeSet::new(),
        log: vec![],
        want_log,
        ctx,
    };
    let r = run_history::<B>(bytes, &mut run);
    let Run { labels, log, ctx, .. } = run;
    for l in labels {
        ctx.label(l);
    }
    ctx.render(|| log.join("\n"));
    r
}

fn run_history<B: Bld>(bytes: &[u8], run: &mut Run<'_>) -> CaseResult {
    let name = B::NAME;
    let mut s = Src::new(bytes);
    let case = gen_case(&mut s);
    let c = &case.constants;
    let max = c.max_block_cost_clvm;
    let pool = &case.pool;
    run.label(format!("pool:{}", case.style));
    for b in pool {
        run.label(format!("bundle:{}", b.kind));
        run.label(match b.wire_size {
            0..=199 => "bundle-size:<200B",
            200..=999 => "bundle-size:200B-1KiB",
            1000..=3999 => "bundle-size:1-4KiB",
            _ => "bundle-size:>=4KiB",
        });
    }
    run.log(|| {
        let mut v = vec![format!("builder={name} max_block_cost_clvm={max} flags={:?} pool-style={}", case.base_flags, case.style)];
        for (i, b) in pool.iter().enumerate() {
            v.push(format!(
                "  bundle {i}: {} spends={} wire-bytes={} truthful(exec+cond)={:?}",
                b.kind,
                b.keys.len(),
                b.wire_size,
                b.truthful
            ));
        }
        v.join("\n")
    });

    let n_ops = s.range(1, 24);
    let cost_style = s.weighted(&[5, 6, 3]);
    let mut attempts: Vec<Attempt> = vec![];
    let mut accepted_ever = vec![false; pool.len()];
    let mut exact_fits = 0usize;
    let mut serialized_once = false;
    let mut b = B::create(c);
    let mut fp = Fnv::new();
    fp.write(name.as_bytes()).write_u64(max).write_u64(u64::from(case.base_flags.bits()));

    for op in 0..n_ops {
        // ---- the batch
        let bs = s.weighted(&[10, 4, 2]) + 1;
        let mut batch: Vec<usize> = vec![];
        for _ in 0..bs {
            let mut idx = s.below(pool.len());
            if !s.chance(40) {
                for k in 0..pool.len() {
                    let j = (idx + k) % pool.len();
                    if !accepted_ever[j] && !batch.contains(&j) {
                        idx = j;
                        break;
                    }
                }
            }
            batch.push(idx);
        }
        let truthful_cost: u64 = batch.iter().map(|i| pool[*i].truthful.unwrap_or(0)).sum();
        let priced = batch.iter().all(|i| pool[*i].truthful.is_some());
        // ---- the declared cost
        let mut mode = match cost_style {
            0 => Mode::Truthful,
            1 => match s.weighted(&[6, 3, 4, 2, 1, 1]) {
                0 => Mode::Truthful,
                1 => Mode::TruthfulPlus,
                2 => Mode::Arbitrary,
                3 => Mode::ExactFit,
                4 => Mode::ExactFitPlusOne,
                _ => Mode::ExactFitPlusSome,
            },
            _ => match s.weighted(&[8, 2, 1, 1]) {
                0 => Mode::Truthful,
                1 => Mode::ExactFit,
                2 => Mode::ExactFitPlusOne,
                _ => Mode::ExactFitPlusSome,
            },
        };
        let before = b.cost();
        let mut declared = truthful_cost;
        match mode {
            Mode::Truthful => {}
            Mode::TruthfulPlus => {
                declared += if s.bool() { 1 } else { 1 + ((u64::from(s.u32()) * 2_000_000) >> 32) };
            }
            Mode::Arbitrary => {
                declared = match s.below(5) {
                    0 => 0,
                    1 => (u64::from(s.u32()) * (max / 4)) >> 32,
                    2 => max.saturating_sub(before),
                    3 => max.saturating_sub(before) + 1,
                    _ => (u64::from(s.u32()) * (2 * max)) >> 32,
                };
            }
            Mode::ExactFit | Mode::ExactFitPlusOne | Mode::ExactFitPlusSome => {
                // a shadow builder replays the same history, then takes the
                // batch at declared cost 0: its cost() is the post-serialisation
                // byte cost plus everything accepted so far
                let mut fit = None;
                if exact_fits < 4 {
                    exact_fits += 1;
                    let (mut shadow, same) = replay::<B>(&case, &attempts);
                    if !same {
                        run.label("shadow:replay-diverged");
                    } else if let Ok((true, _)) = shadow.add(&batch_refs(pool, &batch), 0, c) {
                        let c1 = shadow.cost();
                        if c1 <= max {
                            fit = Some(max - c1);
                        }
                    }
                }
                match fit {
                    Some(d) => {
                        declared = match mode {
                            Mode::ExactFit => d,
                            Mode::ExactFitPlusOne => d + 1,
                            // beyond the limit by less than / more than the
                            // slack an upper-bound estimate may have
                            _ => match s.below(3) {
                                0 => d + 2,
                                1 => d + 2 + ((u64::from(s.u32()) * 24_000) >> 32),
                                _ => d + 24_000 + ((u64::from(s.u32()) * 400_000) >> 32),
                            },
                        }
                    }
                    None => {
                        run.label("exact-fit:unavailable");
                        mode = Mode::Truthful;
                    }
                }
            }
        }
        let truthful = priced && declared == truthful_cost;

        // ---- the call
        let r = b.add(&batch_refs(pool, &batch), declared, c);
        let after = b.cost();
        let would_precheck_done = before + MIN_COST_THRESHOLD > max;
        let would_precheck = before + declared > max;
        let outcome = match &r {
            Ok((true, _)) => Outcome::Accepted,
            Ok((false, _)) => Outcome::Rejected,
            Err(_) => Outcome::Error,
        };
        run.log(|| format!("  op {op}: add batch={batch:?} declared={declared} ({mode:?}, truthful sum {truthful_cost}) cost() before={before} -> {r:?} cost() after={after}"));
        fp.write_u64(declared).write(&[outcome as u8]);
        for i in &batch {
            fp.write_u64(pool[*i].fp);
        }
        match &r {
            Ok((true, done)) => {
                run.label("add:accepted");
                if batch.len() > 1 {
                    run.label("add:accepted-multi-bundle-batch");
                }
                if *done {
                    run.label("add:accepted-and-done");
                }
                if after == max {
                    run.label("add:accepted-cost-exactly-at-limit");
                }
                for i in &batch {
                    accepted_ever[*i] = true;
                }
                serialized_once = true;
            }
            Ok((false, done)) => {
                let branch = if would_precheck_done {
                    "reject:done-threshold"
                } else if would_precheck {
                    "reject:pre-check"
                } else {
                    "reject:post-serialisation-undo"
                };
                run.label(branch);
                if batch.len() > 1 {
                    run.label(format!("{branch}:multi-bundle-batch"));
                }
                if *done && !would_precheck_done {
                    run.label("reject:skip-limit-done");
                }
                if after != before {
                    let sig = if name == "compressed" && !serialized_once {
                        run.label("initial-estimate:first-undo-raises-cost()");
                        format!("C10:{name}:initial-estimate-omits-empty-generator-bytes")
                    } else {
                        format!("C10:{name}:rejected-add-changed-cost-estimate")
                    };
                    run.ctx.known_or_fail(&sig, || format!("op {op}: a rejected add changed cost() from {before} to {after}"))?;
                }
                if !would_precheck_done && !would_precheck {
                    serialized_once = true;
                }
            }
            Err(e) => {
                run.label("add:err");
                if batch.iter().all(|i| pool[*i].truthful.is_some()) {
                    return fail(format!("C10:{name}:add-fails-on-decodable-bundles"), format!("op {op}: add returned Err({e}) for bundles whose reveals decode"));
                }
                if after != before {
                    return fail(format!("C10:{name}:failed-add-changed-cost-estimate"), format!("op {op}: an add that returned Err changed cost() from {before} to {after}"));
                }
            }
        }
        match (mode, outcome) {
            (Mode::ExactFit, Outcome::Accepted) => run.label("exact-fit:accepted-at-limit"),
            (Mode::ExactFit, _) => run.label("exact-fit:not-accepted"),
            (Mode::ExactFitPlusOne, Outcome::Accepted) => run.label("exact-fit+1:accepted"),
            (Mode::ExactFitPlusOne, _) => run.label("exact-fit+1:rejected"),
            (Mode::ExactFitPlusSome, Outcome::Accepted) => run.label("exact-fit+some:accepted"),
            (Mode::ExactFitPlusSome, _) => run.label("exact-fit+some:rejected"),
            _ => {}
        }
        attempts.push(Attempt {
            batch,
            declared,
            mode,
            truthful,
            outcome,
            before,
        });
    }
    run.ctx.ran_dry(s.ran_dry());

    // ---- finalize
    let last_cost = b.cost();
    let fin = catch_unwind(AssertUnwindSafe(|| b.finish(c)));
    let (generator, signature, cost) = match fin {
        Err(p) => {
            let t = panic_text(p.as_ref());
            run.log(|| format!("  finalize: PANIC {t}"));
            return fail(format!("C10:{name}:finalize-panics:{t}"), format!("finalize panicked ({t}); last cost() = {last_cost}, max_block_cost_clvm = {max}"));
        }
        Ok(Err(e)) => return fail(format!("C10:{name}:finalize-error"), format!("finalize returned Err({e})")),
        Ok(Ok(x)) => x,
    };
    run.log(|| format!("  finalize: generator {} bytes, cost {cost}, last cost() {last_cost}", generator.len()));

    let accepted: Vec<&Attempt> = attempts.iter().filter(|a| a.outcome == Outcome::Accepted).collect();
    let mut expected: Vec<SpendKey> = vec![];
    let mut expected_sig = Signature::default();
    for at in &accepted {
        for i in &at.batch {
            expected.extend(pool[*i].keys.iter().cloned());
            expected_sig.aggregate(&pool[*i].sb.aggregated_signature);
        }
    }
    let decoded = match decode_spends(&generator) {
        Ok(d) => d,
        Err(e) => return fail(format!("C10:{name}:generator-not-a-quoted-spend-list"), e),
    };
    let mut dec_sorted = decoded.clone();
    dec_sorted.sort();
    let mut exp_sorted = expected.clone();
    exp_sorted.sort();
    if dec_sorted != exp_sorted {
        // multiset difference, both directions
        let mut extra = vec![];
        let mut missing = vec![];
        let (mut i, mut j) = (0, 0);
        while i < dec_sorted.len() || j < exp_sorted.len() {
            if j >= exp_sorted.len() || (i < dec_sorted.len() && dec_sorted[i] < exp_sorted[j]) {
                extra.push(&dec_sorted[i]);
                i += 1;
            } else if i >= dec_sorted.len() || exp_sorted[j] < dec_sorted[i] {
                missing.push(&exp_sorted[j]);
                j += 1;
            } else {
                i += 1;
                j += 1;
            }
        }
        if let Some(x) = extra.first() {
            return fail(
                format!("C10:{name}:output-has-spend-of-no-accepted-attempt"),
                format!(
                    "the generator holds {} spends, the accepted attempts {}; {} spends belong to no accepted attempt (or are duplicated), e.g. {}",
                    decoded.len(),
                    expected.len(),
                    extra.len(),
                    short(x)
                ),
            );
        }
        let x = missing.first().unwrap();
        return fail(
            format!("C10:{name}:accepted-spend-missing-from-output"),
            format!("the generator holds {} spends, the accepted attempts {}; {} accepted spends are missing, e.g. {}", decoded.len(), expected.len(), missing.len(), short(x)),
        );
    }
    if signature != expected_sig {
        return fail(
            format!("C10:{name}:signature-not-aggregate-of-accepted"),
            format!(
                "the returned signature is not the aggregate of the signatures of the bundles of the {} accepted attempts ({} rejected or failed attempts in the history)",
                accepted.len(),
                attempts.len() - accepted.len()
            ),
        );
    }
    if cost > max {
        return fail(format!("C10:{name}:returned-cost-exceeds-max"), format!("returned cost {cost} > max_block_cost_clvm {max}"));
    }
    if last_cost < cost {
        let sig = if name == "compressed" && !serialized_once {
            run.label("initial-estimate:cost()-below-final-cost-of-empty-block");
            format!("C10:{name}:initial-estimate-omits-empty-generator-bytes")
        } else {
            format!("C10:{name}:estimate-below-final-cost")
        };
        run.ctx
            .known_or_fail(&sig, || format!("the last cost() = {last_cost} underestimates the cost returned by finalize = {cost} ({} accepted attempts, {} spends)", accepted.len(), expected.len()))?;
    }
    run.label(if last_cost == cost { "estimate:exact" } else { "estimate:above-final" });
    run.label(match decoded.len() {
        0 => "block:empty",
        1 => "block:1-spend",
        2..=5 => "block:2-5-spends",
        6..=15 => "block:6-15-spends",
        _ => "block:>15-spends",
    });

    // ---- the cost consensus charges (given truthful declared costs)
    let all_truthful = accepted.iter().all(|a| a.truthful);
    let mut ids = BTreeSet::new();
    let no_double_spend = accepted.iter().all(|a| a.batch.iter().all(|i| pool[*i].coin_ids.iter().all(|id| ids.insert(*id))));
    if !all_truthful {
        run.label("consensus-cost:not-compared:untruthful-declared-cost");
    } else if !no_double_spend {
        run.label("consensus-cost:not-compared:same-coin-accepted-twice");
    } else {
        let flags = case.base_flags | B::generator_flags() | ConsensusFlags::DONT_VALIDATE_SIGNATURE;
        match run_block_generator2::<&[u8], _>(&generator, [], u64::MAX / 4, flags, &signature, None, c) {
            Ok((_, conds)) => {
                run.label(if accepted.is_empty() { "consensus-cost:compared:empty-block" } else { "consensus-cost:compared" });
                if conds.cost != cost {
                    return fail(
                        format!("C10:{name}:returned-cost-differs-from-consensus-cost"),
                        format!(
                            "every accepted attempt declared its truthful cost, finalize returned {cost}, run_block_generator2 charges {} (flags {flags:?}, generator {} bytes)",
                            conds.cost,
                            generator.len()
                        ),
                    );
                }
            }
            Err(e) => {
                let why = match e {
                    chia_consensus::validation_error::ValidationErr::Err(code) => format!("{code:?}"),
                    chia_consensus::validation_error::ValidationErr::Eval(_) => "eval-error".to_string(),
                };
                run.label(format!("consensus-cost:not-compared:block-invalid:{why}"));
            }
        }
    }

    // ---- a fresh builder fed only the accepted attempts
    let rejected_any = attempts.iter().any(|a| a.outcome != Outcome::Accepted);
    if rejected_any {
        let mut fresh = B::create(c);
        let mut comparable = true;
        for (k, at) in accepted.iter().enumerate() {
            let fresh_before = fresh.cost();
            if fresh_before != at.before {
                // The interned estimate is a sum over the accepted spends and
                // cannot legitimately depend on rejected attempts. The
                // compressed builder's byte count does (the incremental
                // serializer keeps the rejected trees and their parent links
                // cached after restore() and later finds other, shorter or
                // longer, back-references): the representation is only
                // measured.
                if name == "interned" {
                    return fail(
                        format!("C10:{name}:rejected-attempts-changed-later-estimate"),
                        format!("before accepted attempt #{k}: cost() = {} with the rejected attempts in between, {fresh_before} in a builder that saw only the accepted attempts", at.before),
                    );
                }
                run.label("fresh-builder:compressed:estimate-differs-after-rejects");
            }
            let r = fresh.add(&batch_refs(pool, &at.batch), at.declared, c);
            if !matches!(r, Ok((true, _))) {
                // not a matter of representation any more: which attempts get
                // into the block depends on an attempt that was rejected
                let sig = format!("C10:{name}:rejected-attempt-changes-later-acceptance");
                run.label(format!("later-acceptance-depends-on-rejected-attempt:{name}"));
                run.ctx.known_or_fail(&sig, || {
                    format!(
                        "accepted attempt #{k} (batch {:?}, declared {}, cost() before the call {}) is NOT accepted by a builder that saw only the accepted attempts (cost() before the call {fresh_before}): {r:?}",
                        at.batch, at.declared, at.before
                    )
                })?;
                comparable = false;
                break;
            }
        }
        if comparable {
            let fresh_last = fresh.cost();
            let (g2, s2, c2) = match catch_unwind(AssertUnwindSafe(|| fresh.finish(c))) {
                Ok(Ok(x)) => x,
                Ok(Err(e)) => return fail(format!("C10:{name}:finalize-error"), format!("fresh builder: finalize returned Err({e})")),
                Err(p) => {
                    let t = panic_text(p.as_ref());
                    return fail(format!("C10:{name}:finalize-panics:{t}"), format!("fresh builder (accepted attempts only): finalize panicked ({t})"));
                }
            };
            let mut d2 = match decode_spends(&g2) {
                Ok(d) => d,
                Err(e) => return fail(format!("C10:{name}:generator-not-a-quoted-spend-list"), format!("fresh builder: {e}")),
            };
            d2.sort();
            if d2 != dec_sorted || s2 != signature {
                return fail(
                    format!("C10:{name}:rejected-attempts-changed-output"),
                    format!(
                        "a builder fed only the accepted attempts emits {} spends / the builder with the rejected attempts in between {} spends; signatures equal: {}",
                        d2.len(),
                        dec_sorted.len(),
                        s2 == signature
                    ),
                );
            }
            run.label("fresh-builder:same-spends-and-signature");
            run.label(if g2 == generator {
                "fresh-builder:generator-bytes-equal".to_string()
            } else if g2.len() == generator.len() {
                format!("fresh-builder:{name}:generator-bytes-differ-same-length")
            } else {
                format!("fresh-builder:{name}:generator-length-differs")
            });
            run.label(if c2 == cost { "fresh-builder:returned-cost-equal".to_string() } else { format!("fresh-builder:{name}:returned-cost-differs") });
            run.label(if fresh_last == last_cost { "fresh-builder:last-estimate-equal".to_string() } else { format!("fresh-builder:{name}:last-estimate-differs") });
        }
    }

    // ---- classification
    let mut phase = 0;
    for at in &attempts {
        phase = match (phase, at.outcome) {
            (0, Outcome::Accepted) => 1,
            (1, Outcome::Rejected) => 2,
            (2, Outcome::Accepted) => 3,
            (p, _) => p,
        };
    }
    let undo_reuse = phase == 3;
    let exact = attempts.iter().any(|a| matches!(a.mode, Mode::ExactFit | Mode::ExactFitPlusOne | Mode::ExactFitPlusSome));
    if undo_reuse {
        run.label("history:undo-then-reuse");
    }
    if attempts.iter().any(|a| a.outcome == Outcome::Rejected) && attempts.iter().filter(|a| a.outcome == Outcome::Accepted).count() >= 1 {
        run.label("history:has-accept-and-reject");
    }
    if all_truthful {
        run.label("history:all-accepted-truthful");
    }
    if undo_reuse || exact {
        run.ctx.nontrivial(fp.finish());
    }
    Ok(())
}

pub fn case_compressed(bytes: &[u8], ctx: &mut Ctx) -> CaseResult {
    case_fn::<BlockBuilder>(bytes, ctx)
}

pub fn case_interned(bytes: &[u8], ctx: &mut Ctx) -> CaseResult {
    case_fn::<InternedBlockBuilder>(bytes, ctx)
}

const REQUIRED: &[&str] = &[
    "add:accepted",
    "add:accepted-multi-bundle-batch",
    "add:err",
    "reject:pre-check",
    "reject:post-serialisation-undo",
    "reject:post-serialisation-undo:multi-bundle-batch",
    "reject:done-threshold",
    "reject:skip-limit-done",
    "history:undo-then-reuse",
    "exact-fit:accepted-at-limit",
    "exact-fit+1:rejected",
    "add:accepted-cost-exactly-at-limit",
    "consensus-cost:compared",
    "block:empty",
    "pool:sparse",
    "pool:family",
    "bundle:claims-foreign-puzzle-hash",
    "fresh-builder:generator-bytes-equal",
    "fresh-builder:same-spends-and-signature",
];

pub fn property() -> Property {
    Property {
        id: "C10",
        rule: "one case = a pool of 6-16 priced spend bundles (shared-generator bundles in careful mode with tagged-identity puzzles; 'sparse' bundles whose spends share nothing but nil - where the interned per-spend upper bound is tightest; simple fallbacks; tens of bytes to >4 KiB through REMARK padding with blobs shared ACROSS bundles; some reveals handed over in back-reference form; a few with an undecodable reveal; each with its own valid G2 aggregated_signature), max_block_cost_clvm in [30 M, 600 M] (absolute, or 10-90 % of the pool's total cost), one of four flag sets, and a history of 1-24 add_spend_bundles calls (batch of 1-3 bundles, preferring bundles not accepted yet; declared cost truthful = execution_cost + condition_cost from run_spendbundle, truthful+k, arbitrary <= 2*max incl. both sides of the pre-check boundary, or ExactFit / ExactFit+1 / ExactFit+(2..424 000) learnt from a shadow builder that replays the same history and takes the batch at cost 0) followed by finalize under catch_unwind, for BlockBuilder and InternedBlockBuilder. An ATTEMPT is one add_spend_bundles call: the whole batch has one declared cost, one limit test, one Serializer::add / allocator checkpoint and is added or undone as a unit. Model = list of accepted attempts. NON-TRIVIAL = the history has >=1 accepted, then >=1 rejected, then >=1 accepted attempt (undo followed by reuse), or contains an ExactFit(+k) attempt for which the shadow found the fitting cost; DISTINCT by (builder, limit, flags, per attempt: bundle contents, declared cost, outcome).",
        assumptions: &[
            "run_spendbundle's execution_cost + condition_cost is the truthful declared cost of a bundle (the documented contract of add_spend_bundles); the same flag set prices the bundles and runs run_block_generator2 (plus INTERNED_GENERATOR for the interned builder, whose finalize charges interned vbytes; byte length for the compressed one)",
            "the consensus cost is compared only when every ACCEPTED attempt was truthful, no coin was accepted twice and run_block_generator2 accepts the block (block validity is not part of the statement); consensus does not validate signatures here (DONT_VALIDATE_SIGNATURE): the returned signature is compared with the aggregate computed by the harness",
            "decoding uses clvmr node_from_bytes_backrefs / node_to_bytes; spends are compared as multisets of (parent, plain puzzle serialization, canonical amount atom, plain solution serialization)",
            "fresh-builder comparison: every attempt the builder under test accepted must also be accepted by a builder that saw only the accepted attempts, and spends and signature of the two must be equal; generator bytes, length, estimate and returned cost of the compressed builder are only measured (labels fresh-builder:compressed:*) because a different back-reference choice is a matter of representation; the interned builder's estimate must not depend on rejected attempts at all",
            "declared costs near u64::MAX and limits below 30 M are outside the generated domain",
            "that an ExactFit attempt IS accepted is measured (required label) but not asserted: no clause of the statement obliges a builder to accept anything",
            "which reject branch fired is inferred from cost() before the call and the builders' MIN_COST_THRESHOLD (labels only)",
        ],
        subchecks: vec![
            SubCheck {
                name: "compressed-builder",
                about: "BlockBuilder: histories of add_spend_bundles + finalize against the accepted-attempts model",
                source: Source::Random { len: 4096, quick: 100_000, thorough: 2_000_000 },
                run: case_compressed,
                inflight: true,
                min_nontrivial: 5_000,
                required_labels: REQUIRED,
            },
            SubCheck {
                name: "interned-builder",
                about: "InternedBlockBuilder: histories of add_spend_bundles + finalize against the accepted-attempts model",
                // ≈ 8× the CPU time per history of the compressed builder (one scratch
                // Allocator per spend per call inside the builder)
                source: Source::Random { len: 4096, quick: 40_000, thorough: 800_000 },
                run: case_interned,
                inflight: true,
                min_nontrivial: 5_000,
                required_labels: REQUIRED,
            },
        ],
        death_is_violation: true,
    }
}
