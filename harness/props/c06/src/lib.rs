//! C06 — strict modes only restrict, and ordering never changes the verdict.
//! Metamorphic relations between runs of `parse_spends` on related inputs; no
//! model is involved.

use chia_bls::Signature;
use chia_consensus::conditions::{parse_spends, EmptyVisitor, MempoolVisitor, ELIGIBLE_FOR_FF};
use chia_consensus::consensus_constants::TEST_CONSTANTS;
use chia_consensus::flags::ConsensusFlags;
use chia_consensus::owned_conditions::{OwnedSpendBundleConditions, OwnedSpendConditions};
use chia_consensus::validation_error::ValidationErr;
use clvmr::{Allocator, NodePtr};
use vcore::condgen::{self, GenCfg};
use vcore::engine::{CaseResult, Ctx, Property, Source, SubCheck};
use vcore::gentree::{self, BuildMode, Tid};
use vcore::{vensure, vensure_eq, vfail, Fnv, Src};

fn run(a: &Allocator, root: NodePtr, flags: ConsensusFlags, mempool: bool, max_cost: u64) -> Result<OwnedSpendBundleConditions, ValidationErr> {
    let sig = Signature::default();
    let r = if mempool {
        parse_spends::<MempoolVisitor>(a, root, max_cost, 0, flags, &sig, None, &TEST_CONSTANTS)
    } else {
        parse_spends::<EmptyVisitor>(a, root, max_cost, 0, flags, &sig, None, &TEST_CONSTANTS)
    };
    r.map(|c| {
        let mut o = OwnedSpendBundleConditions::from(a, c);
        // create_coin is a set (HashSet iteration order in the summary): normalise
        for sp in &mut o.spends {
            sp.create_coin.sort();
        }
        o
    })
}

fn strict_bits(bits: u8) -> ConsensusFlags {
    let mut f = ConsensusFlags::empty();
    if bits & 1 != 0 {
        f |= ConsensusFlags::NO_UNKNOWN_CONDS;
    }
    if bits & 2 != 0 {
        f |= ConsensusFlags::STRICT_ARGS_COUNT;
    }
    if bits & 4 != 0 {
        f |= ConsensusFlags::LIMIT_SPENDS;
    }
    f
}

/// (1) Ok under strictness set S2 ⇒ Ok under every S1 ⊆ S2 with an identical summary
pub fn case_strict_implies_lenient(bytes: &[u8], ctx: &mut Ctx) -> CaseResult {
    let mut s = Src::new(bytes);
    let s2 = 1 + s.below(7) as u8; // non-empty strictness set
    let sub = s.below(8) as u8;
    let s1 = s2 & sub;
    let mempool = s.bool();
    let cost_conditions = s.bool();
    let mode = BuildMode::from_src(&mut s);
    // mostly bundles that pass full strictness, sometimes anything
    let mut cfg = GenCfg::standard();
    if s.chance(200) {
        cfg.strict_friendly = true;
        cfg.mutation_rate = 30;
        cfg.careful_rate = 200;
        cfg.shape_mutations = s.chance(60);
    }
    let b = condgen::gen_bundle(&mut s, &cfg);
    ctx.ran_dry(s.ran_dry());
    let mut fork = ConsensusFlags::DONT_VALIDATE_SIGNATURE;
    if cost_conditions {
        fork |= ConsensusFlags::COST_CONDITIONS;
    }
    let mut a = Allocator::new();
    let root = gentree::build(&mut a, &b.tree, b.root, mode);
    let max_cost = u64::MAX / 4;
    let strict = run(&a, root, fork | strict_bits(s2), mempool, max_cost);
    ctx.render(|| format!("S2={s2:03b} S1={s1:03b} (bit0 NO_UNKNOWN_CONDS, bit1 STRICT_ARGS_COUNT, bit2 LIMIT_SPENDS) cost_conditions={cost_conditions} visitor={} tree={}", if mempool { "mempool" } else { "block" }, b.tree.render(b.root)));
    match strict {
        Err(e) => {
            ctx.label("strict:rejected");
            ctx.label(format!("strict:rejected:{e:?}"));
        }
        Ok(st) => {
            ctx.label("strict:accepted");
            let lenient = run(&a, root, fork | strict_bits(s1), mempool, max_cost);
            match lenient {
                Err(e) => vfail!("C06:strict-accepted-but-lenient-rejected", "accepted with strictness {s2:03b} but rejected with {s1:03b}: {e:?}"),
                Ok(le) => {
                    vensure!(st == le, "C06:strict-and-lenient-summaries-differ", "accepted under both strictness {s2:03b} and {s1:03b} but the summaries differ:\n strict  {st:?}\n lenient {le:?}");
                }
            }
            if s1 != s2 && b.n_conds > 0 {
                let mut f = Fnv::new();
                f.write(&b.tree.serialize(b.root));
                f.write(&[s1, s2, u8::from(mempool), u8::from(cost_conditions)]);
                ctx.nontrivial(f.finish());
            }
        }
    }
    Ok(())
}

fn sorted_pairs(v: &[(chia_bls::PublicKey, chia_protocol::Bytes)]) -> Vec<(Vec<u8>, Vec<u8>)> {
    let mut o: Vec<(Vec<u8>, Vec<u8>)> = v.iter().map(|(k, m)| (k.to_bytes().to_vec(), m.as_slice().to_vec())).collect();
    o.sort();
    o
}

fn compare_spend_perm(x: &OwnedSpendConditions, y: &OwnedSpendConditions) -> CaseResult {
    vensure_eq!(x.parent_id, y.parent_id, "C06:perm:spend-field", "parent_id");
    vensure_eq!(x.puzzle_hash, y.puzzle_hash, "C06:perm:spend-field", "puzzle_hash");
    vensure_eq!(x.coin_amount, y.coin_amount, "C06:perm:spend-field", "coin_amount");
    vensure_eq!(x.height_relative, y.height_relative, "C06:perm:lock-aggregate", "height_relative");
    vensure_eq!(x.seconds_relative, y.seconds_relative, "C06:perm:lock-aggregate", "seconds_relative");
    vensure_eq!(x.before_height_relative, y.before_height_relative, "C06:perm:lock-aggregate", "before_height_relative");
    vensure_eq!(x.before_seconds_relative, y.before_seconds_relative, "C06:perm:lock-aggregate", "before_seconds_relative");
    vensure_eq!(x.birth_height, y.birth_height, "C06:perm:lock-aggregate", "birth_height");
    vensure_eq!(x.birth_seconds, y.birth_seconds, "C06:perm:lock-aggregate", "birth_seconds");
    let mut cx = x.create_coin.clone();
    let mut cy = y.create_coin.clone();
    cx.sort();
    cy.sort();
    vensure_eq!(cx, cy, "C06:perm:create-coin-set", "create_coin of spend {:?}", x.coin_id);
    for (name, l, r) in [
        ("agg_sig_me", &x.agg_sig_me, &y.agg_sig_me),
        ("agg_sig_parent", &x.agg_sig_parent, &y.agg_sig_parent),
        ("agg_sig_puzzle", &x.agg_sig_puzzle, &y.agg_sig_puzzle),
        ("agg_sig_amount", &x.agg_sig_amount, &y.agg_sig_amount),
        ("agg_sig_puzzle_amount", &x.agg_sig_puzzle_amount, &y.agg_sig_puzzle_amount),
        ("agg_sig_parent_amount", &x.agg_sig_parent_amount, &y.agg_sig_parent_amount),
        ("agg_sig_parent_puzzle", &x.agg_sig_parent_puzzle, &y.agg_sig_parent_puzzle),
    ] {
        vensure!(sorted_pairs(l) == sorted_pairs(r), "C06:perm:agg-sig-multiset", "{name} differs as a multiset");
    }
    vensure_eq!(x.flags & !ELIGIBLE_FOR_FF, y.flags & !ELIGIBLE_FOR_FF, "C06:perm:spend-flags", "flags (without the positional fast-forward bit)");
    vensure_eq!(x.condition_cost, y.condition_cost, "C06:perm:spend-condition-cost", "per-spend condition cost");
    Ok(())
}

/// apply a permutation chosen by the source (Fisher-Yates with monotone picks)
fn permute<T: Clone>(s: &mut Src<'_>, v: &[T]) -> (Vec<T>, bool) {
    let mut idx: Vec<usize> = (0..v.len()).collect();
    let n = idx.len();
    for i in 0..n.saturating_sub(1) {
        let j = i + s.below(n - i);
        idx.swap(i, j);
    }
    let identity = idx.iter().enumerate().all(|(i, j)| i == *j);
    (idx.iter().map(|i| v[*i].clone()).collect(), identity)
}

/// (2) reordering spends / conditions never changes acceptance, cost or any aggregate
pub fn case_permutation(bytes: &[u8], ctx: &mut Ctx) -> CaseResult {
    let mut s = Src::new(bytes);
    let strict = strict_bits(s.below(8) as u8);
    let mempool = s.bool();
    let cost_conditions = s.bool();
    let mode = BuildMode::from_src(&mut s);
    let mut cfg = GenCfg::standard();
    cfg.shape_mutations = false;
    cfg.huge = true;
    if s.chance(150) {
        cfg.strict_friendly = true;
        cfg.mutation_rate = 20;
        cfg.careful_rate = 200;
    }
    let mut b = condgen::gen_bundle(&mut s, &cfg);
    // ---- the permuted tree: same spends, same conditions, different order
    let order: Vec<usize> = (0..b.spends.len()).collect();
    let (order, id_spends) = if b.spends.len() <= 64 { permute(&mut s, &order) } else { (order.into_iter().rev().collect(), false) };
    let mut any_cond_perm = false;
    let mut nodes: Vec<Tid> = vec![];
    for i in &order {
        let sp = b.spends[*i].clone();
        let (conds, idc) = if sp.conds.len() <= 64 { permute(&mut s, &sp.conds) } else { (sp.conds.iter().rev().copied().collect(), false) };
        if !idc {
            // a permutation of value-distinct conditions?
            any_cond_perm = true;
        }
        let t = &mut b.tree;
        let cl = t.list(&conds);
        let pa = t.atom(&sp.parent);
        let ph = t.atom(&sp.puzzle_hash);
        let am = t.int(u128::from(sp.amount));
        nodes.push(t.list(&[pa, ph, am, cl]));
    }
    ctx.ran_dry(s.ran_dry());
    let sl = b.tree.list(&nodes);
    let nil = b.tree.nil();
    let root2 = b.tree.pair(sl, nil);

    let mut fork = ConsensusFlags::DONT_VALIDATE_SIGNATURE;
    if cost_conditions {
        fork |= ConsensusFlags::COST_CONDITIONS;
    }
    let flags = fork | strict;
    let mut a = Allocator::new();
    let r1 = gentree::build(&mut a, &b.tree, b.root, mode);
    let r2 = gentree::build(&mut a, &b.tree, root2, mode);
    let max_cost = u64::MAX / 4;
    let x = run(&a, r1, flags, mempool, max_cost);
    let y = run(&a, r2, flags, mempool, max_cost);
    ctx.render(|| format!("flags={flags:?} visitor={} original={} permuted={}", if mempool { "mempool" } else { "block" }, b.tree.render(b.root), b.tree.render(root2)));
    match (x, y) {
        (Err(_), Err(_)) => {
            ctx.label("perm:both-rejected");
        }
        (Ok(_), Err(e)) => vfail!("C06:perm:verdict-changed", "original order accepted, permuted order rejected with {e:?}"),
        (Err(e), Ok(_)) => vfail!("C06:perm:verdict-changed", "original order rejected with {e:?}, permuted order accepted"),
        (Ok(x), Ok(y)) => {
            ctx.label("perm:both-accepted");
            vensure_eq!(x.cost, y.cost, "C06:perm:cost", "cost");
            vensure_eq!(x.condition_cost, y.condition_cost, "C06:perm:cost", "condition_cost");
            vensure_eq!(x.reserve_fee, y.reserve_fee, "C06:perm:aggregate", "reserve_fee");
            vensure_eq!(x.height_absolute, y.height_absolute, "C06:perm:lock-aggregate", "height_absolute");
            vensure_eq!(x.seconds_absolute, y.seconds_absolute, "C06:perm:lock-aggregate", "seconds_absolute");
            vensure_eq!(x.before_height_absolute, y.before_height_absolute, "C06:perm:lock-aggregate", "before_height_absolute");
            vensure_eq!(x.before_seconds_absolute, y.before_seconds_absolute, "C06:perm:lock-aggregate", "before_seconds_absolute");
            vensure_eq!(x.removal_amount, y.removal_amount, "C06:perm:aggregate", "removal_amount");
            vensure_eq!(x.addition_amount, y.addition_amount, "C06:perm:aggregate", "addition_amount");
            vensure!(sorted_pairs(&x.agg_sig_unsafe) == sorted_pairs(&y.agg_sig_unsafe), "C06:perm:agg-sig-multiset", "agg_sig_unsafe differs as a multiset");
            vensure_eq!(x.spends.len(), y.spends.len(), "C06:perm:spend-set", "number of spends");
            for xs in &x.spends {
                let Some(ys) = y.spends.iter().find(|q| q.coin_id == xs.coin_id) else {
                    vfail!("C06:perm:spend-set", "spend {:?} missing after permutation", xs.coin_id);
                };
                compare_spend_perm(xs, ys)?;
            }
            // the limit is order independent too
            if x.cost > 0 {
                let t1 = run(&a, r1, flags, mempool, x.cost);
                let t2 = run(&a, r2, flags, mempool, x.cost);
                vensure!(t1.is_ok() && t2.is_ok(), "C06:perm:limit-at-total", "with max_cost = cost ({}) original ok={} permuted ok={}", x.cost, t1.is_ok(), t2.is_ok());
                let u1 = run(&a, r1, flags, mempool, x.cost - 1);
                let u2 = run(&a, r2, flags, mempool, x.cost - 1);
                vensure!(u1.is_err() && u2.is_err(), "C06:perm:limit-below-total", "with max_cost = cost-1 original ok={} permuted ok={}", u1.is_ok(), u2.is_ok());
            }
            let multi = b.spends.len() >= 2 && !id_spends;
            if (multi || any_cond_perm) && b.n_conds >= 2 {
                let mut f = Fnv::new();
                f.write(&b.tree.serialize(b.root));
                f.write(&b.tree.serialize(root2));
                f.write_u64(u64::from(flags.bits()));
                f.write(&[u8::from(mempool)]);
                ctx.nontrivial(f.finish());
            }
        }
    }
    Ok(())
}

pub fn property() -> Property {
    Property {
        id: "C06",
        rule: "(1) pairs of strictness sets S1 ⊆ S2 ⊆ {NO_UNKNOWN_CONDS, STRICT_ARGS_COUNT, LIMIT_SPENDS} on generated bundles (mostly strict-friendly so that the premise holds); non-trivial = the strict run was accepted, S1 ≠ S2 and the bundle has conditions. (2) a generated permutation of the spends and of the conditions inside each spend applied at tree level; non-trivial = both orders accepted, the permutation is not the identity and the bundle has ≥2 conditions. Distinct by hash of (trees, flags, visitor).",
        assumptions: &[
            "ELIGIBLE_FOR_FF is excluded from the permutation comparison (positional by definition, as the statement says)",
            "signature validation is off in these runs (signature semantics are C05)",
        ],
        subchecks: vec![
            SubCheck {
                name: "strict-implies-lenient",
                about: "Ok under S2 ⇒ Ok under S1 ⊆ S2 with identical summary, same fork flags, both visitors",
                source: Source::Random { len: 1536, quick: 400_000, thorough: 10_000_000 },
                run: case_strict_implies_lenient,
                inflight: false,
                min_nontrivial: 30_000,
                required_labels: &["strict:accepted", "strict:rejected"],
            },
            SubCheck {
                name: "permutation-invariance",
                about: "reordering spends and conditions: same verdict, cost, aggregates, per-coin summaries; same behaviour at max_cost = cost and cost-1",
                source: Source::Random { len: 1536, quick: 400_000, thorough: 10_000_000 },
                run: case_permutation,
                inflight: false,
                min_nontrivial: 30_000,
                required_labels: &["perm:both-accepted", "perm:both-rejected"],
            },
        ],
        death_is_violation: false,
    }
}
