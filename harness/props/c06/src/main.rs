fn main() {
    vcore::engine::main(c06::property());
}
