//! C14 — decoding arbitrary bytes is total and bounded.
//!
//! For every type of the `vstream` registry, with the untrusted
//! (`from_bytes`) and the trusted (`from_bytes_unchecked`) decoder:
//!   * the decoder returns Ok or Err — any panic is a violation (the engine
//!     turns it into a failure `panic:<file>:<message>`), a process death
//!     (stack overflow, allocation abort) is one too (`death_is_violation`,
//!     in-flight recorder + `./check` post-mortem);
//!   * peak extra heap allocation of the decoding thread ≤ 32 MiB + 64·len,
//!     measured by the counting `#[global_allocator]` below (per-thread
//!     accounting: the 16 shards do not disturb each other);
//!   * valid encoding + 1 byte ⇒ Err, valid encoding − 1 byte ⇒ Err;
//!   * on Ok(v): to_bytes, clone, ==, hash complete without panicking.
//!
//! Known finding F3: a decodable version-2 proof of space whose proof bytes
//! yield no quality string panics in `hash()`. `hash()` alone runs under
//! `catch_unwind`; the failure signature is derived from the panic
//! (`C14:panic:<file>:<message>`), and `ctx.known_or_fail` lets the case go on
//! when that signature is listed. Any other panic is a violation.

use std::alloc::{GlobalAlloc, Layout, System};
use std::cell::{Cell, RefCell};
use std::panic::{self, AssertUnwindSafe};
use std::sync::{Once, OnceLock};

use chia_protocol::Program;
use vcore::engine::{self, CaseResult, Ctx, Failure, Property, Source, SubCheck, Tier};
use vcore::{vensure, Fnv, Src};
use vstream::{registry, take_gen_labels, DynValue, Entry, HashExpect, Walker};

// ---------------------------------------------------------------------------
// counting allocator (per-thread accounting)

thread_local! {
    static ARMED: Cell<bool> = const { Cell::new(false) };
    static CUR: Cell<isize> = const { Cell::new(0) };
    static PEAK: Cell<isize> = const { Cell::new(0) };
    static LARGEST: Cell<usize> = const { Cell::new(0) };
}

/// requests of this size or more are served by a lazily-committed anonymous
/// mapping (MAP_NORESERVE): a `Vec::with_capacity(2^32 · size_of::<T>())`
/// then *succeeds* without committing memory, is accounted, and the case
/// fails the allocation bound in the ordinary way (replay file, shrinking)
/// instead of aborting the whole process.
const HUGE: usize = 1 << 30;
/// cap of one such mapping (16 shards × 4 TiB fit the 128 TiB address space);
/// decoders fill pre-allocated vectors from the front, and the input bounds
/// how much is ever touched
const HUGE_MAP_CAP: usize = 1 << 42;

struct Counting;

#[inline]
fn account(delta: isize, request: usize) {
    // const-initialised, destructor-free thread locals: safe inside the allocator
    let _ = ARMED.try_with(|a| {
        if a.get() {
            let _ = CUR.try_with(|c| {
                let v = c.get() + delta;
                c.set(v);
                let _ = PEAK.try_with(|p| {
                    if v > p.get() {
                        p.set(v);
                    }
                });
            });
            if request > 0 {
                let _ = LARGEST.try_with(|l| {
                    if request > l.get() {
                        l.set(request);
                    }
                });
            }
        }
    });
}

unsafe fn huge_map(size: usize) -> *mut u8 {
    let len = size.min(HUGE_MAP_CAP);
    let p = libc::mmap(
        std::ptr::null_mut(),
        len,
        libc::PROT_READ | libc::PROT_WRITE,
        libc::MAP_PRIVATE | libc::MAP_ANONYMOUS | libc::MAP_NORESERVE,
        -1,
        0,
    );
    if p == libc::MAP_FAILED {
        std::ptr::null_mut()
    } else {
        p.cast()
    }
}

unsafe impl GlobalAlloc for Counting {
    unsafe fn alloc(&self, l: Layout) -> *mut u8 {
        account(l.size() as isize, l.size());
        if l.size() >= HUGE {
            huge_map(l.size())
        } else {
            System.alloc(l)
        }
    }
    unsafe fn alloc_zeroed(&self, l: Layout) -> *mut u8 {
        account(l.size() as isize, l.size());
        if l.size() >= HUGE {
            huge_map(l.size()) // anonymous mappings are zero-filled
        } else {
            System.alloc_zeroed(l)
        }
    }
    unsafe fn dealloc(&self, p: *mut u8, l: Layout) {
        account(-(l.size() as isize), 0);
        if l.size() >= HUGE {
            libc::munmap(p.cast(), l.size().min(HUGE_MAP_CAP));
        } else {
            System.dealloc(p, l);
        }
    }
    unsafe fn realloc(&self, p: *mut u8, l: Layout, new_size: usize) -> *mut u8 {
        if l.size() >= HUGE || new_size >= HUGE {
            let nl = Layout::from_size_align_unchecked(new_size, l.align());
            let np = self.alloc(nl);
            if !np.is_null() {
                std::ptr::copy_nonoverlapping(p, np, l.size().min(new_size).min(HUGE_MAP_CAP));
                self.dealloc(p, l);
            }
            np
        } else {
            // during a moving realloc both blocks exist: account the new one first
            account(new_size as isize, new_size);
            let np = System.realloc(p, l, new_size);
            account(-(l.size() as isize), 0);
            if np.is_null() {
                account(-(new_size as isize), 0);
                account(l.size() as isize, 0);
            }
            np
        }
    }
}

#[global_allocator]
static GLOBAL: Counting = Counting;

fn arm() {
    CUR.with(|c| c.set(0));
    PEAK.with(|c| c.set(0));
    LARGEST.with(|c| c.set(0));
    ARMED.with(|a| a.set(true));
}

/// returns (peak extra bytes, largest single request)
fn disarm() -> (usize, usize) {
    ARMED.with(|a| a.set(false));
    (PEAK.with(|p| p.get()).max(0) as usize, LARGEST.with(|l| l.get()))
}

const BASE_BOUND: usize = 32 << 20;
fn alloc_bound(input_len: usize) -> usize {
    BASE_BOUND + 64 * input_len
}

// ---------------------------------------------------------------------------
// panic capture for the one place where we continue after a panic

thread_local! {
    static HASH_PANIC: RefCell<Option<(String, String)>> = const { RefCell::new(None) };
}

/// chain a hook *in front of* the engine's: it only records (file, message)
/// per thread and then calls the engine's hook unchanged. Installed lazily,
/// once, from the first case (the engine installs its own hook at start-up).
fn ensure_hook() {
    static H: Once = Once::new();
    H.call_once(|| {
        let prev = panic::take_hook();
        panic::set_hook(Box::new(move |info| {
            let file = info
                .location()
                .map(|l| l.file().rsplit('/').next().unwrap_or("?").to_string())
                .unwrap_or_else(|| "?".into());
            let msg = if let Some(s) = info.payload().downcast_ref::<&str>() {
                (*s).to_string()
            } else if let Some(s) = info.payload().downcast_ref::<String>() {
                s.clone()
            } else {
                "<non-string panic>".to_string()
            };
            HASH_PANIC.with(|p| *p.borrow_mut() = Some((file, msg)));
            prev(info);
        }));
    });
}

fn sanitize(s: &str) -> String {
    let mut out = String::new();
    for c in s.chars().take(80) {
        if c.is_ascii_alphanumeric() || "_-.:'".contains(c) {
            out.push(c);
        } else if c == ' ' {
            out.push('_');
        }
    }
    out
}

// ---------------------------------------------------------------------------
// the oracle

fn hx(b: &[u8]) -> String {
    if b.len() <= 200 {
        hex::encode(b)
    } else {
        format!("{}…({} bytes)…{}", hex::encode(&b[..120]), b.len(), hex::encode(&b[b.len() - 32..]))
    }
}

fn err_label(e: &chia_traits::chia_error::Error) -> String {
    let d = format!("{e:?}");
    let k = d.split('(').next().unwrap_or(&d);
    format!("err:{k}")
}

#[derive(Default, Clone, Copy)]
struct Outcome {
    ok_untrusted: bool,
    ok_trusted: bool,
}

/// operations a receiver performs on a decoded value: none may panic
fn post_ops(e: &Entry, trusted: bool, v: &dyn DynValue, input: &[u8], ctx: &mut Ctx) -> CaseResult {
    let _enc = v.to_bytes();
    let c = v.clone_dyn();
    let _same = v.eq_dyn(&*c);
    drop(c);
    // hash(): the only operation with a known finding; continue past it
    HASH_PANIC.with(|p| *p.borrow_mut() = None);
    let r = panic::catch_unwind(AssertUnwindSafe(|| v.hash()));
    if r.is_err() {
        let (file, msg) = HASH_PANIC
            .with(|p| p.borrow_mut().take())
            .unwrap_or_else(|| ("?".into(), "?".into()));
        let sig = format!("C14:panic:{}:{}", file, sanitize(&msg));
        // is the panic a property of the VALUE, or of what this thread did before?
        // Decode the same bytes and hash on a fresh thread (fresh thread-local
        // state everywhere): a receiver operation must not depend on history.
        let fresh_panics = std::thread::scope(|sc| {
            sc.spawn(|| {
                engine::quiet_panics_on_this_thread();
                match e.decode(trusted, input) {
                    Ok(v2) => panic::catch_unwind(AssertUnwindSafe(|| v2.hash())).is_err(),
                    Err(_) => false,
                }
            })
            .join()
            .unwrap_or(true)
        });
        vensure!(
            fresh_panics,
            "C14:panic:hash-panics-depending-on-what-the-thread-decoded-before",
            "{}: hash() of the value decoded by {} panics on this thread ({file}: {msg}) but NOT on a fresh thread that decodes the same bytes: the outcome depends on earlier operations; input = {}",
            e.name,
            if trusted { "from_bytes_unchecked" } else { "from_bytes" },
            hx(input)
        );
        ctx.known_or_fail(&sig, || {
            format!(
                "{}: hash() of a value accepted by {} panics at {file}: {msg}; input = {}",
                e.name,
                if trusted { "from_bytes_unchecked" } else { "from_bytes" },
                hx(input)
            )
        })?;
    }
    Ok(())
}

/// CPU time consumed by the calling thread so far (CLOCK_THREAD_CPUTIME_ID):
/// unlike wall-clock time it does not depend on how busy the machine is
fn thread_cpu_ns() -> u64 {
    let mut ts = libc::timespec { tv_sec: 0, tv_nsec: 0 };
    // SAFETY: plain syscall writing into a local struct
    let rc = unsafe { libc::clock_gettime(libc::CLOCK_THREAD_CPUTIME_ID, &mut ts) };
    if rc != 0 {
        return 0;
    }
    ts.tv_sec as u64 * 1_000_000_000 + ts.tv_nsec as u64
}

/// "never loops ... out of proportion to the input", as far as it can be
/// decided per case: 0.5 s of CPU plus 20 µs per input byte. The slowest
/// legitimate work per byte is a BLS subgroup check (~60 µs per 48-byte G1
/// element = 1.3 µs/byte); a 4 KiB input decodes in well under 5 ms. The bound
/// is therefore two orders of magnitude above anything the unchanged tree does
/// and is measured in CPU time of the decoding thread, not wall-clock time; it
/// counts only when it is exceeded by six consecutive decodes (see `probe`).
fn cpu_bound_ns(input_len: usize) -> u64 {
    500_000_000 + 20_000 * input_len as u64
}

/// decode `input` with both decoders under the allocation meter; on Ok run the
/// receiver operations
fn probe(e: &Entry, input: &[u8], ctx: &mut Ctx) -> Result<Outcome, Failure> {
    let mut out = Outcome::default();
    for trusted in [false, true] {
        arm();
        let t0 = thread_cpu_ns();
        let r = e.decode(trusted, input);
        let spent = thread_cpu_ns().saturating_sub(t0);
        let (peak, largest) = disarm();
        if spent > cpu_bound_ns(input.len()) {
            // a single excess proves nothing: on a virtual machine, time during
            // which the hypervisor had descheduled the vCPU is charged to whatever
            // thread was running (observed on the unchanged tree: ~1 s charged to a
            // 36-byte decode, about once per million decodes under load). A decoder
            // that really loops is slow EVERY time: repeat the decode five more
            // times and report only if every single run exceeds the bound.
            let mut runs = vec![spent];
            for _ in 0..5 {
                let t0 = thread_cpu_ns();
                let _ = e.decode(trusted, input);
                runs.push(thread_cpu_ns().saturating_sub(t0));
            }
            let min = *runs.iter().min().expect("six runs");
            if min <= cpu_bound_ns(input.len()) {
                ctx.label("time:single-slow-measurement-not-reproduced(ignored)");
            } else {
                vensure!(
                    false,
                    "C14:time:decoder-cpu-time-out-of-proportion-to-input",
                    "{}: {} of {} input bytes consumed {:?} ms of CPU time on the decoding thread in six consecutive runs (every run above the bound 500 ms + 20 µs·len = {} ms); input = {}",
                    e.name,
                    if trusted { "from_bytes_unchecked" } else { "from_bytes" },
                    input.len(),
                    runs.iter().map(|r| r / 1_000_000).collect::<Vec<_>>(),
                    cpu_bound_ns(input.len()) / 1_000_000,
                    hx(input)
                );
            }
        }
        vensure!(
            peak <= alloc_bound(input.len()),
            "C14:alloc:decoder-allocates-out-of-proportion-to-input",
            "{}: {} of {} input bytes allocated a peak of {} bytes (largest single request {}), bound 32 MiB + 64·len = {}; input = {}",
            e.name,
            if trusted { "from_bytes_unchecked" } else { "from_bytes" },
            input.len(),
            peak,
            largest,
            alloc_bound(input.len()),
            hx(input)
        );
        match r {
            Ok(v) => {
                if trusted {
                    out.ok_trusted = true;
                } else {
                    out.ok_untrusted = true;
                }
                post_ops(e, trusted, &*v, input, ctx)?;
            }
            Err(err) => {
                if !trusted {
                    ctx.label(err_label(&err));
                }
            }
        }
    }
    if out.ok_untrusted {
        ctx.label("ok");
    }
    if out.ok_trusted && !out.ok_untrusted {
        ctx.label("ok:trusted-only");
    }
    Ok(out)
}

fn must_reject(e: &Entry, input: &[u8], what: &str, sig: &str, ctx: &mut Ctx) -> CaseResult {
    let o = probe(e, input, ctx)?;
    vensure!(
        !o.ok_untrusted,
        format!("C14:{sig}:from_bytes"),
        "{}: from_bytes accepts a valid encoding {what}: {}",
        e.name,
        hx(input)
    );
    vensure!(
        !o.ok_trusted,
        format!("C14:{sig}:from_bytes_unchecked"),
        "{}: from_bytes_unchecked accepts a valid encoding {what}: {}",
        e.name,
        hx(input)
    );
    Ok(())
}

fn pick_type(s: &mut Src<'_>) -> &'static Entry {
    let reg = registry();
    // uniform over the registry (two choice bytes; monotone, 0 = first entry)
    &reg[(usize::from(s.u16()) * reg.len()) >> 16]
}

struct Lcg(u64);
impl Lcg {
    fn next(&mut self) -> u64 {
        self.0 = self.0.wrapping_mul(6364136223846793005).wrapping_add(1442695040888963407);
        self.0 >> 17
    }
    fn below(&mut self, n: usize) -> usize {
        (self.next() % n.max(1) as u64) as usize
    }
}

fn fp(e: &Entry, input: &[u8]) -> u64 {
    let mut f = Fnv::new();
    f.write(e.name.as_bytes()).write(&[0]).write(input);
    f.finish()
}

/// a well-formed value and its encoding; deterministic cost estimate of one
/// full decode in µs (see vstream::DynValue::bls_elements)
fn valid(e: &Entry, s: &mut Src<'_>) -> Option<(Box<dyn DynValue>, Vec<u8>, usize)> {
    let v = (e.generate)(s);
    let _ = take_gen_labels();
    let enc = v.to_bytes().ok()?;
    let v2 = match v.expected_hash(&enc) {
        HashExpect::Defined { v2_proofs, .. } | HashExpect::Undefined { v2_proofs } => v2_proofs,
        HashExpect::Unlocatable => 0,
    };
    let cost = 2 + enc.len() / 300 + 60 * v.bls_elements() + 150 * v2;
    Some((v, enc, cost))
}

fn budget_us(ctx: &Ctx) -> usize {
    match ctx.tier {
        Tier::Quick => 30_000,
        Tier::Thorough => 60_000,
    }
}

// ---------------------------------------------------------------------------
// 1. random bytes

pub fn case_random(bytes: &[u8], ctx: &mut Ctx) -> CaseResult {
    ensure_hook();
    let mut s = Src::new(bytes);
    let e = pick_type(&mut s);
    let n = match s.weighted(&[3, 4, 3, 2]) {
        0 => s.below(17),
        1 => s.range(17, 128),
        2 => s.range(129, 1024),
        _ => s.range(1025, 4096),
    };
    let style = s.below(3);
    let input: Vec<u8> = match style {
        0 | 1 => s.bytes(n),
        _ => {
            // biased alphabet: gets past bool / Option / small length prefixes
            const A: [u8; 8] = [0, 0, 1, 1, 2, 3, 0xff, 0x80];
            (0..n).map(|_| if s.bool() { s.u8() } else { *s.pick(&A) }).collect()
        }
    };
    let o = probe(e, &input, ctx)?;
    let (_, pos) = (e.parse_prefix)(&input, false);
    ctx.label(format!("type:{}", e.name));
    if o.ok_untrusted || o.ok_trusted || pos >= 16 {
        ctx.nontrivial(fp(e, &input));
    }
    ctx.render(|| format!("{} <- {} random bytes {}", e.name, input.len(), hx(&input)));
    Ok(())
}

// ---------------------------------------------------------------------------
// 2. mutated valid encodings

const U32S: [u32; 10] = [0, 1, 2, 0xff, 0x100, 0xffff, 1 << 24, 1 << 31, u32::MAX, u32::MAX - 1];

fn mutate(buf: &mut Vec<u8>, other: &[u8], s: &mut Src<'_>) -> usize {
    if buf.is_empty() {
        buf.push(s.u8());
        return 0;
    }
    let at = s.below(buf.len());
    match s.below(9) {
        0 => buf[at] = *s.pick(&[0u8, 1, 2, 3, 4, 0x7f, 0x80, 0xff]),
        1 => buf[at] = s.u8(),
        2 => buf[at] ^= 1 << s.below(8),
        3 => {
            let n = 1 + s.below(4);
            for _ in 0..n {
                buf.insert(at, s.u8());
            }
        }
        4 => {
            let n = (1 + s.below(8)).min(buf.len() - at);
            buf.drain(at..at + n);
        }
        5 => {
            let n = (1 + s.below(32)).min(buf.len() - at);
            let chunk = buf[at..at + n].to_vec();
            for (i, b) in chunk.into_iter().enumerate() {
                buf.insert(at + i, b);
            }
        }
        6 => {
            // a 4-byte window overwritten by an interesting big-endian u32
            let mut v = *s.pick(&U32S);
            if s.chance(40) {
                v = (buf.len().saturating_sub(at + 4) + 1) as u32; // remaining + 1
            }
            for (i, b) in v.to_be_bytes().into_iter().enumerate() {
                if at + i < buf.len() {
                    buf[at + i] = b;
                }
            }
        }
        7 => {
            // splice a chunk of another valid encoding
            if !other.is_empty() {
                let from = s.below(other.len());
                let n = (1 + s.below(64)).min(other.len() - from);
                let end = (at + n).min(buf.len());
                buf.splice(at..end, other[from..from + n].iter().copied());
            }
        }
        _ => {
            let n = (1 + s.below(16)).min(buf.len() - at);
            let fill = *s.pick(&[0u8, 0xff, 1]);
            for b in &mut buf[at..at + n] {
                *b = fill;
            }
        }
    }
    at
}

pub fn case_mutated(bytes: &[u8], ctx: &mut Ctx) -> CaseResult {
    ensure_hook();
    let mut s = Src::new(bytes);
    let e = pick_type(&mut s);
    let mut ctl = s.sub(48);
    let mut g1 = s.sub(800);
    let Some((_, enc, _)) = valid(e, &mut g1) else {
        ctx.discard();
        return Ok(());
    };
    let other = valid(e, &mut s).map(|x| x.1).unwrap_or_default();
    let mut buf = enc.clone();
    let n = 1 + ctl.weighted(&[6, 3, 2, 1]);
    let mut first = usize::MAX;
    for _ in 0..n {
        let at = mutate(&mut buf, &other, &mut ctl);
        first = first.min(at);
    }
    let o = probe(e, &buf, ctx)?;
    if o.ok_untrusted || o.ok_trusted {
        // then the valid encoding it was derived from, on the same thread (same
        // keys, challenge, plot ... as the mutant): the order mutant -> original
        let _ = probe(e, &enc, ctx)?;
        ctx.label("mutant-accepted-then-original-probed");
    }
    ctx.label(format!("type:{}", e.name));
    // everything before the first mutated offset parses as in the valid
    // encoding, so the decoder consumed at least that much before its verdict
    if o.ok_untrusted || o.ok_trusted || first >= 16 {
        ctx.nontrivial(fp(e, &buf));
    }
    ctx.render(|| format!("{} <- mutated valid encoding ({} mutations, first at {first}) {}", e.name, n, hx(&buf)));
    ctx.ran_dry(g1.ran_dry());
    Ok(())
}

// ---------------------------------------------------------------------------
// 3. valid, valid + trailing byte(s), valid − 1 byte

pub fn case_plus_minus(bytes: &[u8], ctx: &mut Ctx) -> CaseResult {
    ensure_hook();
    let mut s = Src::new(bytes);
    let e = pick_type(&mut s);
    let tail = s.u8();
    let Some((_, enc, _)) = valid(e, &mut s) else {
        ctx.discard();
        return Ok(());
    };
    let o = probe(e, &enc, ctx)?;
    if !(o.ok_untrusted && o.ok_trusted) {
        ctx.label("valid-encoding-rejected(see-C13)");
    }
    let mut inner = 1;
    for t in [&[tail][..], &[0], &[1], &[0xff], &[0, 0, 0, 0]] {
        let mut ext = enc.clone();
        ext.extend_from_slice(t);
        must_reject(e, &ext, "followed by trailing bytes", "trailing-bytes-accepted", ctx)?;
        inner += 1;
    }
    if !enc.is_empty() {
        must_reject(e, &enc[..enc.len() - 1], "with its last byte missing", "missing-byte-accepted", ctx)?;
        inner += 1;
    }
    ctx.add_inner(inner);
    ctx.label(format!("type:{}", e.name));
    if enc.len() >= 16 || o.ok_untrusted {
        ctx.nontrivial(fp(e, &enc));
    }
    ctx.render(|| format!("{} valid encoding ±1 byte: {}", e.name, hx(&enc)));
    ctx.ran_dry(s.ran_dry());
    Ok(())
}

// ---------------------------------------------------------------------------
// 4. adversarial length prefixes

pub fn case_lengths(bytes: &[u8], ctx: &mut Ctx) -> CaseResult {
    ensure_hook();
    let mut s = Src::new(bytes);
    let e = pick_type(&mut s);
    let seed = s.u64();
    let Some((_, enc, cost)) = valid(e, &mut s) else {
        ctx.discard();
        return Ok(());
    };
    let len = enc.len();
    // every 4-byte window that parses as a length: value ≤ bytes remaining after it
    let mut windows: Vec<usize> = (0..len.saturating_sub(3))
        .filter(|i| {
            let v = u32::from_be_bytes([enc[*i], enc[i + 1], enc[i + 2], enc[i + 3]]) as usize;
            v <= len - (i + 4)
        })
        .collect();
    let max_windows = (budget_us(ctx) / cost / 8).clamp(2, 400);
    if windows.len() > max_windows {
        let mut rng = Lcg(seed | 1);
        for i in (1..windows.len()).rev() {
            let j = rng.below(i + 1);
            windows.swap(i, j);
        }
        windows.truncate(max_windows);
        ctx.label("length-windows:sampled");
    }
    let mut buf = enc.clone();
    let mut inner = 0;
    let mut any_ok = false;
    for w in &windows {
        let remaining = (len - (w + 4)) as u32;
        for v in [u32::MAX, 1 << 31, 1 << 24, remaining + 1] {
            buf[*w..*w + 4].copy_from_slice(&v.to_be_bytes());
            let o = probe(e, &buf, ctx)?;
            any_ok |= o.ok_untrusted;
            inner += 1;
        }
        buf[*w..*w + 4].copy_from_slice(&enc[*w..*w + 4]);
    }
    ctx.add_inner(inner);
    ctx.label(format!("type:{}", e.name));
    if !windows.is_empty() {
        ctx.label("huge-length-prefix");
    }
    if !windows.is_empty() && (len >= 16 || any_ok) {
        ctx.nontrivial(fp(e, &enc));
    }
    ctx.render(|| format!("{}: {} length-like windows of a valid encoding set to 2^32-1, 2^31, 2^24, remaining+1: {}", e.name, windows.len(), hx(&enc)));
    ctx.ran_dry(s.ran_dry());
    Ok(())
}

// ---------------------------------------------------------------------------
// 5. nested vectors of length prefixes (synthesised)

pub fn case_nested(bytes: &[u8], ctx: &mut Ctx) -> CaseResult {
    ensure_hook();
    let mut s = Src::new(bytes);
    // prefer the combinator instantiations (nested Vec/Option), but cover all
    let reg = registry();
    let vecs = nested_types();
    let e = if s.chance(160) { &reg[vecs[s.below(vecs.len())]] } else { pick_type(&mut s) };
    let tokens = 1 + s.below(48);
    let mut input = Vec::new();
    for _ in 0..tokens {
        match s.weighted(&[6, 3, 3, 2, 1]) {
            0 => {
                let v: u32 = match s.below(10) {
                    0 => 0,
                    1 => 1,
                    2 => 2,
                    3 => s.below(16) as u32,
                    4 => 0x1_0000,
                    5 => 1 << 24,
                    6 => 1 << 31,
                    7 => u32::MAX,
                    8 => 0x00ff_ffff,
                    _ => s.u32(),
                };
                input.extend_from_slice(&v.to_be_bytes());
            }
            1 => input.push(*s.pick(&[0u8, 1, 1, 1, 2, 3])),
            2 => input.push(s.u8()),
            3 => {
                let n = s.below(40);
                let fill = *s.pick(&[0u8, 1, 0xff]);
                input.extend(std::iter::repeat(fill).take(n));
            }
            _ => {
                let n = s.below(64);
                input.extend(s.bytes(n));
            }
        }
    }
    let o = probe(e, &input, ctx)?;
    let (_, pos) = (e.parse_prefix)(&input, false);
    ctx.label(format!("type:{}", e.name));
    ctx.label("nested-length-prefixes");
    if o.ok_untrusted || o.ok_trusted || pos >= 16 {
        ctx.nontrivial(fp(e, &input));
    }
    ctx.render(|| format!("{} <- synthesised length prefixes {}", e.name, hx(&input)));
    Ok(())
}

fn nested_types() -> &'static Vec<usize> {
    static N: OnceLock<Vec<usize>> = OnceLock::new();
    N.get_or_init(|| {
        registry()
            .iter()
            .enumerate()
            .filter(|(_, e)| e.name.matches("Vec<").count() + e.name.matches("Option<").count() >= 1)
            .map(|(i, _)| i)
            .collect()
    })
}

// ---------------------------------------------------------------------------
// 6. Program fields: deep nesting, huge atom length prefixes

struct CountPrograms(usize);
impl Walker for CountPrograms {
    fn program(&mut self, _p: &mut Program) {
        self.0 += 1;
    }
}

struct MarkProgram {
    target: usize,
    seen: usize,
}

const MARK_LEN: usize = 37;
fn marker() -> Vec<u8> {
    // one atom of 36 bytes: size prefix 0x80|36, then a recognisable pattern
    let mut m = vec![0x80 | 36];
    m.extend((0..36u8).map(|i| 0xa5 ^ i.wrapping_mul(7)));
    m
}

impl Walker for MarkProgram {
    fn program(&mut self, p: &mut Program) {
        if self.seen == self.target {
            *p = Program::from(marker());
        }
        self.seen += 1;
    }
}

fn program_types() -> &'static Vec<usize> {
    static P: OnceLock<Vec<usize>> = OnceLock::new();
    P.get_or_init(|| {
        let mut out = vec![];
        for (i, e) in registry().iter().enumerate() {
            if !e.has_fix {
                continue;
            }
            for seed in 1..=8u64 {
                let bytes = vstream::gen::expand(seed * 31, 1200);
                let mut v = (e.generate)(&mut Src::new(&bytes));
                let mut c = CountPrograms(0);
                v.walk(&mut c);
                if c.0 > 0 {
                    out.push(i);
                    break;
                }
            }
            let _ = take_gen_labels();
        }
        out
    })
}

fn adversarial_program(s: &mut Src<'_>, ctx: &mut Ctx) -> Vec<u8> {
    let depth = |s: &mut Src<'_>| match s.weighted(&[5, 3, 2, 1]) {
        0 => s.below(64),
        1 => s.range(64, 2_000),
        2 => s.range(2_000, 20_000),
        _ => s.range(20_000, 200_000),
    };
    let mut out = Vec::new();
    match s.below(8) {
        0 => {
            // complete, left-nested: 0xff × n then n+1 atoms
            let n = depth(s);
            out.extend(std::iter::repeat(0xffu8).take(n));
            let atom = *s.pick(&[0x80u8, 0x01, 0x7f]);
            out.extend(std::iter::repeat(atom).take(n + 1));
            ctx.label("deep-program:complete-left-nested");
        }
        1 => {
            // incomplete: only the pair markers (and a few atoms)
            let n = depth(s);
            out.extend(std::iter::repeat(0xffu8).take(n));
            let k = s.below(4).min(n);
            out.extend(std::iter::repeat(0x80u8).take(k));
            ctx.label("deep-program:truncated");
        }
        2 => {
            // right-nested list (ff a ff a … 80)
            let n = depth(s);
            for _ in 0..n {
                out.push(0xff);
                out.push(0x01);
            }
            out.push(0x80);
            ctx.label("deep-program:long-list");
        }
        3 => {
            // huge atom length prefixes with little data behind them
            let prefix: &[u8] = match s.below(7) {
                0 => &[0xbf],
                1 => &[0xdf, 0xff],
                2 => &[0xef, 0xff, 0xff],
                3 => &[0xf7, 0xff, 0xff, 0xff],
                4 => &[0xfb, 0xff, 0xff, 0xff, 0xff],
                5 => &[0xfc, 0x00, 0x00, 0x00, 0x00, 0x01],
                _ => &[0xfd, 0xff, 0xff, 0xff, 0xff, 0xff, 0xff],
            };
            if s.bool() {
                out.push(0xff);
            }
            out.extend_from_slice(prefix);
            let n = s.below(80);
            out.extend(s.bytes(n));
            ctx.label("deep-program:huge-atom-prefix");
        }
        4 => {
            // back-references with long / huge paths
            let n = 1 + s.below(40);
            out.extend(std::iter::repeat(0xffu8).take(n));
            for _ in 0..n {
                match s.below(4) {
                    0 => out.extend_from_slice(&[0xfe, 0x02]),
                    1 => {
                        out.push(0xfe);
                        let k = 1 + s.below(60);
                        out.push(0x80 | k as u8);
                        out.extend(std::iter::repeat(0xffu8).take(k));
                    }
                    2 => out.extend_from_slice(&[0xfe, 0xfb, 0xff, 0xff, 0xff, 0xff]),
                    _ => out.push(0x01),
                }
            }
            out.push(0x80);
            ctx.label("deep-program:back-references");
        }
        5 => {
            // deep nesting whose leaves are back-references to the whole stack
            let n = depth(s).min(50_000);
            out.extend(std::iter::repeat(0xffu8).take(n));
            out.push(0x01);
            for _ in 0..n {
                out.extend_from_slice(&[0xfe, 0x01]);
            }
            ctx.label("deep-program:deep-back-references");
        }
        _ => {
            // token soup
            const T: [u8; 10] = [0xff, 0xff, 0xff, 0xfe, 0x80, 0x01, 0xbf, 0xc0, 0x00, 0x81];
            let n = depth(s).min(4_000);
            out.extend((0..n).map(|_| *s.pick(&T)));
            ctx.label("deep-program:token-soup");
        }
    }
    out
}

pub fn case_program(bytes: &[u8], ctx: &mut Ctx) -> CaseResult {
    ensure_hook();
    let mut s = Src::new(bytes);
    let pt = program_types();
    let e = &registry()[pt[(usize::from(s.u16()) * pt.len()) >> 16]];
    let mut ctl = s.sub(24);
    // up to three attempts to obtain a value that embeds a Program
    let share = 280;
    let mut v = (e.generate)(&mut s.sub(share));
    let mut c = CountPrograms(0);
    v.walk(&mut c);
    for _ in 0..2 {
        if c.0 > 0 {
            break;
        }
        v = (e.generate)(&mut s.sub(share));
        v.walk(&mut c);
    }
    let _ = take_gen_labels();
    ctx.label(format!("type:{}", e.name));
    if c.0 == 0 {
        ctx.label("deep-program:value-without-program");
        return Ok(());
    }
    let target = ctl.below(c.0);
    v.walk(&mut MarkProgram { target, seen: 0 });
    let Ok(enc) = v.to_bytes() else {
        ctx.discard();
        return Ok(());
    };
    let m = marker();
    let Some(off) = enc.windows(MARK_LEN).position(|w| w == m.as_slice()) else {
        ctx.label("deep-program:marker-not-found");
        return Ok(());
    };
    let adv = adversarial_program(&mut ctl, ctx);
    let mut input = Vec::with_capacity(enc.len() + adv.len());
    input.extend_from_slice(&enc[..off]);
    input.extend_from_slice(&adv);
    input.extend_from_slice(&enc[off + MARK_LEN..]);
    let o = probe(e, &input, ctx)?;
    ctx.label("deep-program");
    if o.ok_untrusted || o.ok_trusted || off + adv.len() >= 16 {
        ctx.nontrivial(fp(e, &input));
    }
    ctx.render(|| format!("{}: program #{target} at offset {off} replaced by {} adversarial bytes; input {} bytes: {}", e.name, adv.len(), input.len(), hx(&input)));
    ctx.ran_dry(s.ran_dry());
    Ok(())
}

// ---------------------------------------------------------------------------
// 7. version / prefix bytes swept over 0..=255

pub fn case_sweep(bytes: &[u8], ctx: &mut Ctx) -> CaseResult {
    ensure_hook();
    let mut s = Src::new(bytes);
    let e = pick_type(&mut s);
    let seed = s.u64();
    let Some((v, enc, cost)) = valid(e, &mut s) else {
        ctx.discard();
        return Ok(());
    };
    let len = enc.len();
    ctx.label(format!("type:{}", e.name));
    if len == 0 {
        return Ok(());
    }
    // the version-packed prefix bytes (ProofOfSpace / FullBlock /
    // UnfinishedBlock) are always swept
    let packed: Vec<usize> = if e.has_fix { vstream::version_prefix_positions(&*v, &enc) } else { vec![] };
    // prefix-like bytes (0..=3: bool / Option / version prefixes, high length
    // bytes) first; then any other position
    let mut rng = Lcg(seed | 1);
    let mut cand: Vec<usize> = (0..len).filter(|i| enc[*i] <= 3).collect();
    let mut other: Vec<usize> = (0..len).filter(|i| enc[*i] > 3).collect();
    for v in [&mut cand, &mut other] {
        for i in (1..v.len()).rev() {
            let j = rng.below(i + 1);
            v.swap(i, j);
        }
    }
    let max_pos = (budget_us(ctx) / cost / 500).clamp(1, 12);
    let n_cand = cand.len().min((max_pos * 3).div_ceil(4));
    cand.truncate(n_cand);
    other.truncate(max_pos - n_cand.min(max_pos));
    cand.extend(other);
    if !packed.is_empty() {
        // one of them (all if affordable), in front
        let take = packed.len().min(max_pos.max(1));
        let start = rng.below(packed.len());
        for k in 0..take {
            let p = packed[(start + k) % packed.len()];
            cand.retain(|x| *x != p);
            cand.insert(0, p);
        }
        cand.truncate(max_pos.max(take));
        ctx.label("sweep:version-prefix-byte");
    }
    let mut buf = enc.clone();
    let mut inner = 0;
    let mut oks = 0;
    for p in &cand {
        for b in 0..=255u8 {
            if b == enc[*p] {
                continue;
            }
            buf[*p] = b;
            let o = probe(e, &buf, ctx)?;
            if o.ok_untrusted {
                oks += 1;
            }
            inner += 1;
        }
        buf[*p] = enc[*p];
        // back to the valid encoding after every position: what the thread has
        // decoded in between must not matter for it
        if oks > 0 {
            let _ = probe(e, &enc, ctx)?;
            inner += 1;
        }
    }
    ctx.add_inner(inner);
    if cand.iter().any(|p| *p >= 16) || oks > 0 {
        ctx.nontrivial(fp(e, &enc) ^ seed);
    }
    ctx.render(|| format!("{}: positions {:?} of a valid encoding swept over 0..=255 ({oks} accepted): {}", e.name, cand, hx(&enc)));
    ctx.ran_dry(s.ran_dry());
    Ok(())
}

// ---------------------------------------------------------------------------
// 8. long lists (see vstream::biglist): the list decoder pre-allocates at most
// 2 MiB worth of elements; lists longer than that are decoded in whatever way
// the implementation chooses, and the length prefix still has to be honoured
// exactly. The inputs are *derived from the valid encoding of a long list*:
// further well-formed elements behind the last one, the prefix off by one, the
// last element missing.

fn big() -> &'static Vec<vstream::biglist::BigList> {
    static B: OnceLock<Vec<vstream::biglist::BigList>> = OnceLock::new();
    B.get_or_init(vstream::biglist::big_lists)
}

fn big_lengths(b: &vstream::biglist::BigList, tier: Tier) -> Vec<usize> {
    let wire = (b.more)(0, 1, 0).len();
    // element types whose decoding involves a BLS subgroup check stay at the
    // short table in both tiers (a 130 000-element list costs 8 s per decode)
    let heavy = tier == Tier::Thorough && !b.slow;
    let mut l = vstream::biglist::lengths(b.elem_size_of, wire, heavy);
    if !heavy && !b.slow && b.elem_size_of > 0 {
        let t = vstream::biglist::PREALLOC_BYTES / b.elem_size_of;
        l.extend_from_slice(&[t + t / 2, 2 * t + 1]);
        l.sort_unstable();
        l.dedup();
    }
    l
}

fn enum_big(tier: Tier, shard: usize, n: usize, emit: &mut dyn FnMut(&[u8]) -> bool) {
    let seeds: u8 = match tier {
        Tier::Quick => 1,
        Tier::Thorough => 4,
    };
    let mut idx = 0usize;
    for (li, b) in big().iter().enumerate() {
        for ni in 0..big_lengths(b, tier).len() as u8 {
            for seed in 0..seeds {
                let mine = idx % n == shard;
                idx += 1;
                if mine && !emit(&[li as u8, ni, seed, u8::from(tier == Tier::Thorough)]) {
                    return;
                }
            }
        }
    }
}

/// bytes = [list type, length index, seed, tier of the length table]
pub fn case_big(bytes: &[u8], ctx: &mut Ctx) -> CaseResult {
    use vstream::biglist::Shape;
    ensure_hook();
    let mut s = Src::new(bytes);
    let (li, ni, seed, th) = (s.u8() as usize, s.u8() as usize, u64::from(s.u8()), s.u8());
    let b = &big()[li % big().len()];
    let lens = big_lengths(b, if th & 1 == 1 { Tier::Thorough } else { Tier::Quick });
    let n = lens[ni % lens.len()];
    let e = &b.entry;
    let thr = if b.elem_size_of > 0 { vstream::biglist::PREALLOC_BYTES / b.elem_size_of } else { usize::MAX };
    let enc = (b.make)(n, seed).to_bytes().expect("a list of generated elements encodes");
    let list_bytes = (b.more)(0, n, seed);
    let at = b.prefix_at;
    assert_eq!(&enc[at..at + 4], &(n as u32).to_be_bytes(), "length prefix of {} where expected", b.name);
    let end = at + 4 + list_bytes.len();
    assert_eq!(&enc[at + 4..end], &list_bytes[..], "elements of {} where expected", b.name);
    let what = format!("{} with {n} elements (pre-allocation limit {thr} elements)", b.name);

    let o = probe(e, &enc, ctx)?;
    if !(o.ok_untrusted && o.ok_trusted) {
        ctx.label("valid-encoding-rejected(see-C13)");
    }
    let mut inner = 1u64;
    // splice position behind the last element: certain rejection needs the list
    // to be followed by nothing or by a fixed-size field
    let splice_ok = matches!(b.shape, Shape::Bare | Shape::ThenU32 | Shape::PhUpdatesStates);
    let wire1 = (b.more)(n, 1, seed).len();
    if splice_ok && wire1 > 0 {
        let mut ms = vec![1usize];
        if thr != usize::MAX && thr > 0 {
            // up to the next multiple of the pre-allocation limit, and one more
            let fill = thr - (n % thr);
            ms.push(fill);
            ms.push(fill + 1);
        }
        if n > 0 && n <= 2 * thr.min(1 << 22) {
            ms.push(n);
        }
        ms.sort_unstable();
        ms.dedup();
        for m in ms {
            let extra = (b.more)(n, m, seed);
            let mut x = Vec::with_capacity(enc.len() + extra.len());
            x.extend_from_slice(&enc[..end]);
            x.extend_from_slice(&extra);
            x.extend_from_slice(&enc[end..]);
            must_reject(
                e,
                &x,
                &format!("({what}) with {m} further well-formed elements behind the last one, length prefix unchanged"),
                "big-list:elements-beyond-length-prefix-accepted",
                ctx,
            )?;
            inner += 1;
        }
        // prefix off by one, data unchanged
        let mut x = enc.clone();
        x[at..at + 4].copy_from_slice(&((n + 1) as u32).to_be_bytes());
        must_reject(e, &x, &format!("({what}) with its length prefix increased by one"), "big-list:missing-element-accepted", ctx)?;
        inner += 1;
        if n > 0 {
            let mut x = enc.clone();
            x[at..at + 4].copy_from_slice(&((n - 1) as u32).to_be_bytes());
            must_reject(e, &x, &format!("({what}) with its length prefix decreased by one"), "big-list:elements-beyond-length-prefix-accepted", ctx)?;
            inner += 1;
        }
    }
    // trailing / missing bytes at the very end
    let mut x = enc.clone();
    x.push(seed as u8);
    must_reject(e, &x, &format!("({what}) followed by one trailing byte"), "trailing-bytes-accepted", ctx)?;
    must_reject(e, &enc[..enc.len() - 1], &format!("({what}) with its last byte missing"), "missing-byte-accepted", ctx)?;
    inner += 2;
    ctx.add_inner(inner);
    ctx.label(format!("big:{}", b.name));
    ctx.label(if n > thr {
        "big-length:above-prealloc-limit"
    } else if n == thr {
        "big-length:at-prealloc-limit"
    } else {
        "big-length:below-prealloc-limit"
    });
    if n >= thr {
        let mut f = Fnv::new();
        f.write(b.name.as_bytes()).write_u64(n as u64).write_u64(seed);
        ctx.nontrivial(f.finish());
    }
    ctx.render(|| format!("{what}, seed {seed}: valid encoding of {} bytes {}", enc.len(), hx(&enc)));
    Ok(())
}

// ---------------------------------------------------------------------------
// 9. sequences of decoded values on one thread. Decoding and the receiver
// operations are functions of the bytes; an implementation that keeps any state
// between calls (memoised quality strings, caches keyed by a part of the value)
// can behave for every value taken alone and misbehave for a sequence. The
// adversarial neighbour of a value is the one that agrees with it in everything
// such a key could be made of: here the same version-2 proof of space (one of the
// 7 repository vectors: same challenge, keys, plot index, strength) with its proof
// one byte shorter / truncated / one byte longer, which makes it unusable. Orders bad→good→bad and
// good→bad→good, inside every container type.

struct SetProof<'a> {
    vector: &'a vstream::vectors::PosVector,
    seed: u64,
    spoil: Option<(usize, u8)>,
    n: u64,
}

impl Walker for SetProof<'_> {
    fn pos(&mut self, p: &mut chia_protocol::ProofOfSpace) {
        let ch: [u8; 32] = if self.seed == 0 { self.vector.challenge } else { vstream::gen::expand(self.seed.wrapping_add(self.n), 32).try_into().unwrap() };
        self.n += 1;
        let mut v = self.vector.clone_with_proof(None);
        if let Some((at, x)) = self.spoil {
            // (changing proof BYTES still yields a quality string: the routine is no
            // full validator. Changing the proof's LENGTH does not.)
            let mut proof = self.vector.proof.clone();
            match x % 3 {
                0 => {
                    proof.pop();
                }
                1 => proof.truncate(at % proof.len()),
                _ => proof.push(x),
            }
            v = self.vector.clone_with_proof(Some(proof));
        }
        *p = v.make(chia_protocol::Bytes32::new(ch));
    }
}

fn pos_containers() -> &'static Vec<usize> {
    static C: OnceLock<Vec<usize>> = OnceLock::new();
    C.get_or_init(|| {
        struct Count(usize);
        impl Walker for Count {
            fn pos(&mut self, _p: &mut chia_protocol::ProofOfSpace) {
                self.0 += 1;
            }
        }
        let mut out = vec![];
        for (i, e) in registry().iter().enumerate() {
            if !e.has_fix {
                continue;
            }
            for seed in 1..=6u64 {
                let bytes = vstream::gen::expand(seed, 1500);
                let mut v = (e.generate)(&mut Src::new(&bytes));
                let mut c = Count(0);
                v.walk(&mut c);
                if c.0 > 0 {
                    out.push(i);
                    break;
                }
            }
            let _ = take_gen_labels();
        }
        out
    })
}

fn enum_sequences(tier: Tier, shard: usize, n: usize, emit: &mut dyn FnMut(&[u8]) -> bool) {
    let seeds: u8 = if tier == Tier::Thorough { 24 } else { 3 };
    let mut idx = 0usize;
    for vi in 0..vstream::vectors::vectors().len() as u8 {
        for ci in 0..pos_containers().len() as u8 {
            for seed in 0..seeds {
                let mine = idx % n == shard;
                idx += 1;
                if mine && !emit(&[vi, ci, seed]) {
                    return;
                }
            }
        }
    }
}

/// bytes = [vector index, container index, seed]
pub fn case_sequences(bytes: &[u8], ctx: &mut Ctx) -> CaseResult {
    ensure_hook();
    let mut s = Src::new(bytes);
    let (vi, ci, seed) = (s.u8() as usize, s.u8() as usize, u64::from(s.u8()));
    let vs = vstream::vectors::vectors();
    let cs = pos_containers();
    if vs.is_empty() || cs.is_empty() {
        ctx.discard();
        return Ok(());
    }
    let vector = &vs[vi % vs.len()];
    let e = &registry()[cs[ci % cs.len()]];
    let choice = vstream::gen::expand(0x5eed_1400 + seed * 131 + ci as u64, 1400);
    let mut good = (e.generate)(&mut Src::new(&choice));
    let _ = take_gen_labels();
    let mut bad = good.clone_dyn();
    let mut f = SetProof { vector, seed: seed + 1, spoil: None, n: 0 };
    good.walk(&mut f);
    if f.n == 0 {
        ctx.label("sequence:no-proof-embedded");
        return Ok(());
    }
    let mut g = SetProof { vector, seed: seed + 1, spoil: Some((seed as usize * 37 + vi, (seed as u8).wrapping_mul(29))), n: 0 };
    bad.walk(&mut g);
    let (Ok(enc_good), Ok(enc_bad)) = (good.to_bytes(), bad.to_bytes()) else {
        ctx.label("sequence:does-not-encode");
        return Ok(());
    };
    assert_ne!(enc_good, enc_bad, "spoiled proof changes the encoding");
    let order: [&[u8]; 6] = if seed % 2 == 0 {
        [&enc_bad, &enc_good, &enc_bad, &enc_good, &enc_good, &enc_bad]
    } else {
        [&enc_good, &enc_bad, &enc_good, &enc_bad, &enc_bad, &enc_good]
    };
    for input in order {
        let o = probe(e, input, ctx)?;
        if !(o.ok_untrusted && o.ok_trusted) {
            ctx.label("sequence:a-version-rejected");
        }
    }
    ctx.add_inner(6);
    ctx.label(format!("sequence:{}", vector.name));
    ctx.label(format!("sequence-container:{}", e.name));
    let mut fp2 = Fnv::new();
    fp2.write(e.name.as_bytes()).write(&enc_good).write(&enc_bad);
    ctx.nontrivial(fp2.finish());
    ctx.render(|| format!("{} with vector {} ({} proofs): good encoding {} / proof length changed {}", e.name, vector.name, f.n, hx(&enc_good), hx(&enc_bad)));
    Ok(())
}

// ---------------------------------------------------------------------------

pub fn run_main() {
    let prop = Property {
        id: "C14",
        rule: "every case picks a registry type (every Streamable type of chia-protocol, chia-bls, chia-consensus, chia-datalayer + primitive/combinator instantiations) from the choice sequence and feeds byte strings to BOTH decoders (from_bytes, from_bytes_unchecked) under a per-thread allocation meter: random bytes (0..4 KiB, uniform or biased to prefix-like bytes); valid encodings with 1-4 mutations (byte set/flip/insert/delete/duplicate, 4-byte window := interesting u32 or remaining+1, splice of another valid encoding, fill); valid encodings ± trailing bytes / minus the last byte; every (sampled when too many) 4-byte window of a valid encoding that parses as a length set to 2^32-1, 2^31, 2^24, remaining+1; synthesised sequences of nested length prefixes; Program fields replaced in place by deep nesting (0xff×n, n ≤ 200k, complete or truncated), long lists, huge atom length prefixes, back-reference storms; prefix-like positions swept over 0..=255. NON-TRIVIAL = the decoder consumed ≥ 16 bytes before its verdict (cursor position of parse for synthesised inputs; first mutated offset for inputs derived from a valid encoding) or the input decoded successfully; DISTINCT by (type, input). labels: type:<T> per-type case counts, ok / err:<kind> verdict of the untrusted decoder per decode, huge-length-prefix, deep-program:*.",
        assumptions: &[
            "peak allocation is measured per thread by a counting #[global_allocator] in this binary; requests ≥ 1 GiB are served by a lazily committed MAP_NORESERVE mapping (capped at 4 TiB) so that an unbounded pre-allocation fails the bound as an ordinary replayable failure instead of aborting the run",
            "the 'never loops' clause is asserted per decode as: CPU time of the decoding thread (CLOCK_THREAD_CPUTIME_ID, independent of machine load) <= 0.5 s + 20 µs per input byte, two orders of magnitude above the slowest legitimate decode (BLS subgroup checks, ~1.3 µs/byte), and only reported when six consecutive decodes of the same input all exceed it (a single slow measurement can be hypervisor steal time charged to the thread; such events are counted under the label time:single-slow-measurement-not-reproduced(ignored)); a decode that never returns is caught by the engine's watchdog (exit 2, inconclusive), a process death (stack overflow, allocation abort) is reported through the in-flight recorder by ./check (death_is_violation)",
            "hash() runs under catch_unwind only to continue past known finding F3 (signature derived from the panic: file + message); every other panic is a violation",
            "receiver operations after a successful decode: to_bytes, clone, ==, hash; their results are not compared here (C13 does)",
            "cost-based sizing of per-case work uses a deterministic estimate (BLS elements counted in the Debug rendering of the generated valid value), never a clock",
        ],
        death_is_violation: true,
        subchecks: vec![
            SubCheck {
                name: "random-bytes",
                about: "uniform / prefix-biased random bytes (0..4 KiB) to both decoders of every type",
                source: Source::Random { len: 4200, quick: 500_000, thorough: 10_000_000 },
                run: case_random,
                inflight: true,
                min_nontrivial: 100_000,
                required_labels: &["ok", "err:EndOfBuffer", "err:InvalidBool", "err:InvalidOptional", "type:FullBlock"],
            },
            SubCheck {
                name: "mutated-valid",
                about: "valid encodings with 1-4 structural mutations",
                source: Source::Random { len: 1400, quick: 200_000, thorough: 4_000_000 },
                run: case_mutated,
                inflight: true,
                min_nontrivial: 50_000,
                required_labels: &["ok", "err:EndOfBuffer", "err:InputTooLarge", "err:InvalidString", "type:FullBlock"],
            },
            SubCheck {
                name: "valid-plus-minus-one",
                about: "valid encoding decodes; + trailing byte(s) ⇒ Err; − last byte ⇒ Err; receiver operations on the decoded value",
                source: Source::Random { len: 1100, quick: 90_000, thorough: 1_800_000 },
                run: case_plus_minus,
                inflight: true,
                min_nontrivial: 35_000,
                required_labels: &["ok", "err:InputTooLarge", "err:EndOfBuffer", "type:ProofOfSpace"],
            },
            SubCheck {
                name: "length-prefixes",
                about: "4-byte windows of valid encodings that parse as lengths set to 2^32-1, 2^31, 2^24, remaining+1",
                source: Source::Random { len: 1100, quick: 60_000, thorough: 1_200_000 },
                run: case_lengths,
                inflight: true,
                min_nontrivial: 10_000,
                required_labels: &["huge-length-prefix", "type:Vec<Vec<u8>>"],
            },
            SubCheck {
                name: "nested-length-prefixes",
                about: "synthesised sequences of length prefixes / option prefixes against nested Vec/Option types and all others",
                source: Source::Random { len: 400, quick: 500_000, thorough: 10_000_000 },
                run: case_nested,
                inflight: true,
                min_nontrivial: 100_000,
                required_labels: &["nested-length-prefixes", "ok", "type:Vec<Vec<Vec<u16>>>"],
            },
            SubCheck {
                name: "program-fields",
                about: "Program fields replaced by deep nesting (0xff×n up to 200k), long lists, huge atom prefixes, back-references",
                source: Source::Random { len: 900, quick: 60_000, thorough: 1_200_000 },
                run: case_program,
                inflight: true,
                min_nontrivial: 20_000,
                required_labels: &[
                    "deep-program",
                    "deep-program:complete-left-nested",
                    "deep-program:huge-atom-prefix",
                    "deep-program:back-references",
                    "type:Program",
                    "type:SpendBundle",
                ],
            },
            SubCheck {
                name: "prefix-sweep",
                about: "prefix-like positions of valid encodings swept over all 256 byte values",
                source: Source::Random { len: 1100, quick: 40_000, thorough: 800_000 },
                run: case_sweep,
                inflight: true,
                min_nontrivial: 15_000,
                required_labels: &["ok", "err:InvalidPoS", "err:InvalidFullBlock", "err:InvalidEnum"],
            },
            SubCheck {
                name: "big-lists",
                about: "valid encodings of lists around the decoder's 2 MiB pre-allocation limit of their element type (and multiples): further well-formed elements behind the last one (1, up to the next multiple of the limit, as many again), length prefix off by one, trailing / missing byte; 18 element types x {bare, followed by a field} + RespondToPhUpdates",
                source: Source::Enumerate { f: enum_big, exhaustive: false },
                run: case_big,
                inflight: true,
                min_nontrivial: 150,
                required_labels: &[
                    "big-length:above-prealloc-limit",
                    "big-length:at-prealloc-limit",
                    "big-length:below-prealloc-limit",
                    "big:Vec<u32>",
                    "big:(Vec<CoinState>,u32)",
                    "big:RespondToPhUpdates.coin_states",
                    "big:Vec<G1Element>",
                ],
            },
            SubCheck {
                name: "v2-proof-sequences",
                about: "on one thread: a container holding a valid version-2 proof of space (the 7 vectors) and the same container with the proof's length changed (unusable proof), decoded and used alternately (bad, good, bad, good, good, bad and the mirror image); a hash() panic that does not occur on a fresh thread is a violation",
                source: Source::Enumerate { f: enum_sequences, exhaustive: false },
                run: case_sequences,
                inflight: true,
                min_nontrivial: 100,
                required_labels: &["sequence:pool-2-0-0", "sequence:contract-3-0-0", "sequence-container:FullBlock"],
            },
        ],
    };
    engine::main(prop);
}
