fn main() {
    c14::run_main();
}
