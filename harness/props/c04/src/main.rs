fn main() {
    vcore::engine::main(c04::property());
}
