// stub: the check for this property is not built yet
fn main() {
    eprintln!("not implemented");
    std::process::exit(2);
}
