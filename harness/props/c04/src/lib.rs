//! C04 — cost charged equals the consensus cost table and the limit is exact.

use std::collections::HashMap;

use chia_bls::Signature;
use chia_consensus::conditions::{parse_spends, EmptyVisitor, MempoolVisitor};
use chia_consensus::consensus_constants::TEST_CONSTANTS;
use chia_consensus::flags::ConsensusFlags;
use chia_consensus::owned_conditions::OwnedSpendBundleConditions;
use chia_consensus::run_block_generator::{run_block_generator, run_block_generator2};
use chia_consensus::solution_generator::{solution_generator, solution_generator_backrefs};
use chia_consensus::spendbundle_conditions::run_spendbundle;
use chia_consensus::validation_error::{ErrorCode, ValidationErr};
use chia_protocol::SpendBundle;
use clvmr::chia_dialect::ChiaDialect;
use clvmr::reduction::Reduction;
use clvmr::run_program::run_program;
use clvmr::serde::node_from_bytes_backrefs;
use clvmr::Allocator;
use vcore::condgen::{self, GenCfg};
use vcore::engine::{CaseResult, Ctx, Property, Source, SubCheck, Tier};
use vcore::gentree::{self, BuildMode, TNode, Tid, Tree};
use vcore::model::conditions::{self as mc, Outcome};
use vcore::proglevel;
use vcore::{vensure, vensure_eq, vfail, Fnv, Src};

fn is_cost_exceeded(e: &ValidationErr) -> bool {
    matches!(e, ValidationErr::Err(ErrorCode::CostExceeded))
}

fn parse(a: &Allocator, root: clvmr::NodePtr, flags: ConsensusFlags, mempool: bool, max_cost: u64) -> Result<OwnedSpendBundleConditions, ValidationErr> {
    let sig = Signature::default();
    let r = if mempool {
        parse_spends::<MempoolVisitor>(a, root, max_cost, 0, flags, &sig, None, &TEST_CONSTANTS)
    } else {
        parse_spends::<EmptyVisitor>(a, root, max_cost, 0, flags, &sig, None, &TEST_CONSTANTS)
    };
    r.map(|c| proglevel::owned(a, c))
}

fn model_cost(t: &Tree, root: Tid, flags: ConsensusFlags, mempool: bool) -> Option<(u64, Vec<u64>)> {
    let constants = condgen::model_constants(&TEST_CONSTANTS);
    let params = mc::Params {
        flags: flags.bits(),
        mempool_visitor: mempool,
        constants: &constants,
        key_ok: &condgen::key_ok,
        max_cost: u64::MAX / 2,
    };
    match mc::evaluate(t, root, &params) {
        Outcome::Accept(m) => Some((m.condition_cost, m.spends.iter().map(|s| s.condition_cost).collect())),
        Outcome::Reject(..) => None,
    }
}

/// accumulator consistency on any accepted result
fn check_accumulators(o: &OwnedSpendBundleConditions, entry: &str, limit: u64) -> CaseResult {
    let sum_cond: u64 = o.spends.iter().map(|s| s.condition_cost).sum();
    vensure_eq!(sum_cond, o.condition_cost, format!("C04:{entry}:spend-condition-costs-do-not-add-up"), "Σ spends.condition_cost vs condition_cost");
    let sum_exec: u64 = o.spends.iter().map(|s| s.execution_cost).sum();
    vensure!(sum_exec <= o.execution_cost, format!("C04:{entry}:spend-execution-costs-exceed-total"), "Σ spends.execution_cost {sum_exec} > execution_cost {}", o.execution_cost);
    vensure!(o.cost <= limit, format!("C04:{entry}:cost-above-limit"), "accepted result reports cost {} above the limit {limit} it was given", o.cost);
    Ok(())
}

/// limit exactness for a runner: Ok with identical result at `total`, CostExceeded below
/// limits at which the running cost countdown reaches exactly zero part-way
/// through validation: `base` (byte/interned cost + the generator's own run)
/// plus the execution cost and then the condition cost of each spend in turn.
/// Every one of them that is below the total must fail with cost-exceeded.
fn check_prefix_sums<F>(run: F, o: &OwnedSpendBundleConditions, base: u64, entry: &str, ctx: &mut Ctx) -> CaseResult
where
    F: Fn(u64) -> Result<OwnedSpendBundleConditions, ValidationErr>,
{
    let total = o.cost;
    let mut acc = base;
    let mut limits = vec![base];
    for sp in &o.spends {
        acc += sp.execution_cost;
        limits.push(acc);
        acc += sp.condition_cost;
        limits.push(acc);
    }
    limits.sort_unstable();
    limits.dedup();
    let mut probed = 0;
    for l in limits {
        if l >= total {
            continue;
        }
        for lim in [l, l + 1, l.saturating_sub(1)] {
            if lim >= total {
                continue;
            }
            match run(lim) {
                Ok(r) => vfail!(format!("C04:{entry}:accepted-below-cost"), "accepted with max_cost {lim} (a prefix sum of the cost countdown) below the cost {total}; reports cost {}", r.cost),
                Err(e) => vensure!(is_cost_exceeded(&e), format!("C04:{entry}:wrong-error-below-cost"), "max_cost {lim} < cost {total} fails with {e:?}, not CostExceeded"),
            }
            probed += 1;
        }
        if probed > 40 {
            break;
        }
    }
    if probed > 0 {
        ctx.label("limit:prefix-sums-checked");
    }
    Ok(())
}

fn check_limit<F>(run: F, total_result: &OwnedSpendBundleConditions, entry: &str, s: &mut Src<'_>, ctx: &mut Ctx) -> CaseResult
where
    F: Fn(u64) -> Result<OwnedSpendBundleConditions, ValidationErr>,
{
    let total = total_result.cost;
    match run(total) {
        Err(e) => vfail!(format!("C04:{entry}:rejected-at-exact-limit"), "max_cost = reported cost {total} is rejected with {e:?}"),
        Ok(o) => {
            let mut x = o.clone();
            let mut y = total_result.clone();
            // allocator statistics may differ between runs of program-level paths
            x.num_atoms = 0;
            x.num_pairs = 0;
            x.heap_size = 0;
            y.num_atoms = 0;
            y.num_pairs = 0;
            y.heap_size = 0;
            vensure!(x == y, format!("C04:{entry}:result-changes-with-limit"), "result at max_cost = cost differs from the result at a generous limit");
            check_accumulators(&o, entry, total)?;
        }
    }
    if total > 0 {
        let mut below = vec![total - 1];
        if total > 2 {
            below.push(s.below(total.min(u32::MAX as u64) as usize) as u64);
            below.push(total - 1 - (s.below(1000) as u64).min(total - 1));
            below.push(total / 2);
        }
        below.push(0);
        for l in below {
            match run(l) {
                Ok(o) => vfail!(format!("C04:{entry}:accepted-below-cost"), "accepted with max_cost {l} below the cost {total} (reports cost {})", o.cost),
                Err(e) => vensure!(is_cost_exceeded(&e), format!("C04:{entry}:wrong-error-below-cost"), "max_cost {l} < cost {total} fails with {e:?}, not CostExceeded"),
            }
        }
        ctx.label("limit:below-checked");
    }
    // larger limits give the same cost
    let bigger = total.saturating_add(1 + s.below(1_000_000) as u64);
    match run(bigger) {
        Err(e) => vfail!(format!("C04:{entry}:rejected-above-cost"), "max_cost {bigger} > cost {total} is rejected with {e:?}"),
        Ok(o) => vensure_eq!(o.cost, total, format!("C04:{entry}:cost-depends-on-limit"), "cost at a larger limit"),
    }
    Ok(())
}

// ---------------------------------------------------------------------------
// (A) deterministic sweep over the rows of the cost table

const PARENT_A: [u8; 32] = [0xa1; 32];
const PARENT_B: [u8; 32] = [0xb2; 32];

/// a small accepted bundle whose conditions exercise table row `row`
fn row_bundle(row: usize) -> (Tree, Tid, String) {
    let mut t = Tree::new();
    let phs = condgen::tag_puzzle_hashes();
    let (ph_a, ph_b) = (phs[0], phs[1]);
    let amount_a = 1000u64;
    let amount_b = 7u64;
    let cid_a = mc::coin_id(&PARENT_A, &ph_a, amount_a);
    // B is ephemeral (created by A) only for the ASSERT_EPHEMERAL row
    let mut parent_b = PARENT_B;
    let mut conds_a: Vec<Tid> = vec![];
    let mut conds_b: Vec<Tid> = vec![];
    let mut n_spends = 2usize;
    let pk = condgen::key_pool().pks[0];
    let cond = |t: &mut Tree, op: &[u8], args: &[&[u8]]| -> Tid {
        let mut items = vec![t.atom(op)];
        for a in args {
            items.push(t.atom(a));
        }
        t.list(&items)
    };
    let name;
    let known: [u16; 35] = mc::KNOWN_OPCODES;
    if row < 35 {
        let op = known[row];
        name = format!("opcode {op}");
        let cid_b = mc::coin_id(&PARENT_B, &ph_b, amount_b);
        let opb = [op as u8];
        match op {
            43..=50 => conds_a.push(cond(&mut t, &opb, &[&pk, b"msg"])),
            51 => conds_a.push(cond(&mut t, &opb, &[&ph_b, &[1]])),
            52 => conds_a.push(cond(&mut t, &opb, &[&[1]])),
            60 | 62 => conds_a.push(cond(&mut t, &opb, &[b"m"])),
            61 => {
                conds_b.push(cond(&mut t, &[60], &[b"m"]));
                let id = condgen::sha(&[&cid_b, b"m"]);
                conds_a.push(cond(&mut t, &opb, &[&id]));
            }
            63 => {
                conds_b.push(cond(&mut t, &[62], &[b"m"]));
                let id = condgen::sha(&[&ph_b, b"m"]);
                conds_a.push(cond(&mut t, &opb, &[&id]));
            }
            64 => conds_a.push(cond(&mut t, &opb, &[&cid_b])),
            65 => conds_a.push(cond(&mut t, &opb, &[&ph_b])),
            66 => {
                // mode 0: no commitments either way
                conds_a.push(cond(&mut t, &opb, &[&[], b"m"]));
                conds_b.push(cond(&mut t, &[67], &[&[], b"m"]));
            }
            67 => {
                conds_a.push(cond(&mut t, &opb, &[&[], b"m"]));
                conds_b.push(cond(&mut t, &[66], &[&[], b"m"]));
            }
            70 => conds_a.push(cond(&mut t, &opb, &[&cid_a])),
            71 => conds_a.push(cond(&mut t, &opb, &[&PARENT_A])),
            72 => conds_a.push(cond(&mut t, &opb, &[&ph_a])),
            73 => conds_a.push(cond(&mut t, &opb, &[&vcore::model::int::enc_u64(amount_a)])),
            74 | 75 => conds_a.push(cond(&mut t, &opb, &[&[5]])),
            76 => {
                parent_b = cid_a;
                conds_a.push(cond(&mut t, &[51], &[&ph_b, &[7]]));
                conds_b.push(cond(&mut t, &opb, &[]));
            }
            80..=83 => conds_a.push(cond(&mut t, &opb, &[&[1]])),
            84..=87 => conds_a.push(cond(&mut t, &opb, &[&[100]])),
            1 => conds_a.push(cond(&mut t, &opb, &[b"remark", b"x"])),
            _ => conds_a.push(cond(&mut t, &opb, &[&[3]])), // SOFTFORK cost 3*10000
        }
    } else if row < 41 {
        let ops = [2u8, 42, 91, 255, 0x80, 0];
        let o = ops[row - 35];
        name = format!("unknown one-byte opcode {o}");
        conds_a.push(cond(&mut t, &[o], &[b"x"]));
    } else if row < 41 + 256 * 5 {
        let k = row - 41;
        let hi = [1u8, 2, 0x7f, 0x80, 0xff][k / 256];
        let lo = (k % 256) as u8;
        name = format!("two-byte opcode {hi:02x}{lo:02x}");
        conds_a.push(cond(&mut t, &[hi, lo], &[b"x"]));
    } else if row < 41 + 256 * 5 + 8 {
        let vals: [u64; 8] = [0, 1, 2, 100, 65535, 65536, 0x7fff_ffff, 0xffff_ffff];
        let v = vals[row - (41 + 256 * 5)];
        name = format!("SOFTFORK argument {v}");
        conds_a.push(cond(&mut t, &[90], &[&vcore::model::int::enc_u64(v)]));
    } else {
        n_spends = row - (41 + 256 * 5 + 8);
        name = format!("{n_spends} spends without conditions (per-spend cost)");
    }
    let mut spends = vec![];
    let all = [(PARENT_A, ph_a, amount_a, conds_a), (parent_b, ph_b, amount_b, conds_b)];
    for (i, (p, ph, am, conds)) in all.iter().enumerate() {
        if i >= n_spends {
            break;
        }
        let cl = t.list(conds);
        let pa = t.atom(p);
        let phn = t.atom(ph);
        let amn = t.int(u128::from(*am));
        spends.push(t.list(&[pa, phn, amn, cl]));
    }
    // more than two empty spends for the per-spend rows
    for i in 2..n_spends {
        let mut p = [0xc3u8; 32];
        p[31] = i as u8;
        let cl = t.nil();
        let pa = t.atom(&p);
        let phn = t.atom(&ph_a);
        let amn = t.int(1);
        spends.push(t.list(&[pa, phn, amn, cl]));
    }
    let sl = t.list(&spends);
    let nil = t.nil();
    let root = t.pair(sl, nil);
    (t, root, name)
}

const N_ROWS: usize = 41 + 256 * 5 + 8 + 6;

fn enum_rows(_tier: Tier, shard: usize, n: usize, emit: &mut dyn FnMut(&[u8]) -> bool) {
    let mut idx = 0usize;
    for row in 0..N_ROWS {
        for fork in 0..2u8 {
            for visitor in 0..2u8 {
                if idx % n == shard {
                    let b = [(row >> 8) as u8, row as u8, fork, visitor];
                    if !emit(&b) {
                        return;
                    }
                }
                idx += 1;
            }
        }
    }
}

pub fn case_row(bytes: &[u8], ctx: &mut Ctx) -> CaseResult {
    let mut s = Src::new(bytes);
    let row = (s.u16() as usize).min(N_ROWS - 1);
    let fork = s.u8() & 1 == 1;
    let mempool = s.u8() & 1 == 1;
    let (t, root, name) = row_bundle(row);
    let mut flags = ConsensusFlags::DONT_VALIDATE_SIGNATURE;
    if fork {
        flags |= ConsensusFlags::COST_CONDITIONS;
    }
    ctx.render(|| format!("row: {name}; COST_CONDITIONS={fork}; visitor={}; tree={}", if mempool { "mempool" } else { "block" }, t.render(root)));
    let Some((want, want_spends)) = model_cost(&t, root, flags, mempool) else {
        vfail!("harness-panic:c04-row-bundle-not-accepted-by-model", "row bundle '{name}' is rejected by the reference model (harness bug)");
    };
    let mut a = Allocator::new();
    let node = gentree::build(&mut a, &t, root, BuildMode::PLAIN);
    let generous = u64::MAX / 4;
    let got = match parse(&a, node, flags, mempool, generous) {
        Ok(o) => o,
        Err(e) => vfail!("C04:row:valid-row-bundle-rejected", "row '{name}': parse_spends rejects with {e:?}"),
    };
    vensure_eq!(got.condition_cost, want, "C04:row:condition-cost-differs-from-table", "row '{name}' (COST_CONDITIONS={fork}): condition_cost");
    vensure_eq!(got.cost, want, "C04:row:cost-differs-from-table", "row '{name}': cost at parse level (no byte / CLVM cost)");
    let got_spends: Vec<u64> = got.spends.iter().map(|s| s.condition_cost).collect();
    vensure_eq!(got_spends, want_spends, "C04:row:per-spend-condition-cost", "row '{name}': per-spend condition costs");
    check_accumulators(&got, "row", generous)?;
    check_limit(|l| parse(&a, node, flags, mempool, l), &got, "row", &mut s, ctx)?;
    ctx.label(if fork { "fork:post-hf2" } else { "fork:pre-hf2" });
    ctx.label(format!("row-class:{}", name.split(' ').next().unwrap_or("?")));
    if want > 0 {
        ctx.nontrivial((row as u64) << 2 | u64::from(fork) << 1 | u64::from(mempool));
    }
    Ok(())
}

// ---------------------------------------------------------------------------
// (B) random bundles at parse level: table + limit exactness

pub fn case_parse_random(bytes: &[u8], ctx: &mut Ctx) -> CaseResult {
    let mut s = Src::new(bytes);
    let mut flags = ConsensusFlags::DONT_VALIDATE_SIGNATURE;
    let bits = s.below(16);
    if bits & 1 != 0 {
        flags |= ConsensusFlags::NO_UNKNOWN_CONDS;
    }
    if bits & 2 != 0 {
        flags |= ConsensusFlags::STRICT_ARGS_COUNT;
    }
    if bits & 4 != 0 {
        flags |= ConsensusFlags::COST_CONDITIONS;
    }
    if bits & 8 != 0 {
        flags |= ConsensusFlags::LIMIT_SPENDS;
    }
    let mempool = s.bool();
    let mode = BuildMode::from_src(&mut s);
    let mut cfg = GenCfg::standard();
    cfg.careful_rate = 215;
    cfg.mutation_rate = 30;
    cfg.huge = false;
    let b = condgen::gen_bundle(&mut s, &cfg);
    let mut a = Allocator::new();
    let node = gentree::build(&mut a, &b.tree, b.root, mode);
    ctx.render(|| format!("flags={flags:?} visitor={} tree={}", if mempool { "mempool" } else { "block" }, b.tree.render(b.root)));
    let generous = u64::MAX / 4;
    let r = parse(&a, node, flags, mempool, generous);
    let want = model_cost(&b.tree, b.root, flags, mempool);
    match (r, want) {
        (Ok(got), Some((want, want_spends))) => {
            ctx.label("accepted");
            vensure_eq!(got.condition_cost, want, "C04:parse:condition-cost-differs-from-table", "condition_cost");
            vensure_eq!(got.cost, want, "C04:parse:cost-differs-from-table", "cost");
            let got_spends: Vec<u64> = got.spends.iter().map(|s| s.condition_cost).collect();
            vensure_eq!(got_spends, want_spends, "C04:parse:per-spend-condition-cost", "per-spend condition costs");
            check_accumulators(&got, "parse", generous)?;
            check_limit(|l| parse(&a, node, flags, mempool, l), &got, "parse", &mut s, ctx)?;
            check_prefix_sums(|l| parse(&a, node, flags, mempool, l), &got, 0, "parse", ctx)?;
            if want > 0 {
                let mut f = Fnv::new();
                f.write(&b.tree.serialize(b.root));
                f.write_u64(u64::from(flags.bits()));
                ctx.nontrivial(f.finish());
            }
        }
        (Err(_), None) => ctx.label("rejected"),
        // verdict disagreements are C01's subject; not asserted here
        _ => ctx.label("verdict-disagreement-left-to-C01"),
    }
    ctx.ran_dry(s.ran_dry());
    Ok(())
}

// ---------------------------------------------------------------------------
// (C) program level: byte/interned + execution + condition cost

/// interned size: Σ len(unique atoms) + 2·#unique atoms + 3·#unique pairs, with
/// the harness's own structural de-duplication
pub fn interned_vbytes(t: &Tree, root: Tid) -> u64 {
    let mut atom_ids: HashMap<Vec<u8>, u32> = HashMap::new();
    let mut pair_ids: HashMap<(u32, u32), u32> = HashMap::new();
    let mut id_of: Vec<u32> = vec![u32::MAX; root as usize + 1];
    let mut reach = vec![false; root as usize + 1];
    reach[root as usize] = true;
    for i in (0..=root as usize).rev() {
        if reach[i] {
            if let TNode::Pair(l, r) = &t.nodes[i] {
                reach[*l as usize] = true;
                reach[*r as usize] = true;
            }
        }
    }
    let mut next = 0u32;
    let mut atom_bytes = 0u64;
    for i in 0..=root as usize {
        if !reach[i] {
            continue;
        }
        id_of[i] = match &t.nodes[i] {
            TNode::Atom(b) => {
                if let Some(id) = atom_ids.get(b) {
                    *id
                } else {
                    atom_bytes += b.len() as u64;
                    atom_ids.insert(b.clone(), next);
                    next += 1;
                    next - 1
                }
            }
            TNode::Pair(l, r) => {
                let key = (id_of[*l as usize], id_of[*r as usize]);
                if let Some(id) = pair_ids.get(&key) {
                    *id
                } else {
                    pair_ids.insert(key, next);
                    next += 1;
                    next - 1
                }
            }
        };
    }
    atom_bytes + 2 * atom_ids.len() as u64 + 3 * pair_ids.len() as u64
}

fn clvm_cost(puzzle: &[u8], solution: &[u8], flags: ConsensusFlags) -> Option<u64> {
    let mut a = Allocator::new();
    let p = node_from_bytes_backrefs(&mut a, puzzle).ok()?;
    let s = node_from_bytes_backrefs(&mut a, solution).ok()?;
    let dialect = ChiaDialect::new(flags.to_clvm_flags());
    let Reduction(c, _) = run_program(&mut a, &dialect, p, s, u64::MAX / 8).ok()?;
    Some(c)
}

pub fn case_program(bytes: &[u8], ctx: &mut Ctx) -> CaseResult {
    let mut s = Src::new(bytes);
    let mut flags = proglevel::flag_set(s.below(proglevel::NUM_FLAG_SETS)) | ConsensusFlags::DONT_VALIDATE_SIGNATURE;
    let interned = s.chance(100);
    if interned {
        flags |= ConsensusFlags::INTERNED_GENERATOR;
    }
    let backrefs = s.bool();
    let mut cfg = GenCfg::standard();
    cfg.shape_mutations = false;
    cfg.huge = false;
    cfg.careful_rate = 225;
    cfg.mutation_rate = 25;
    let b = condgen::gen_bundle(&mut s, &cfg);
    let coin_spends = proglevel::coin_spends(&b);
    let cpb = TEST_CONSTANTS.cost_per_byte;
    ctx.render(|| format!("flags={flags:?} backrefs={backrefs} bundle tree={}", b.tree.render(b.root)));
    ctx.label(if interned { "pricing:interned" } else { "pricing:bytes" });

    // the conditions are the solutions (identity puzzles): the model reads the bundle tree
    let want_cond = model_cost(&b.tree, b.root, flags, false);
    // execution cost of every puzzle, run by the harness
    let mut puzzle_costs: Vec<u64> = vec![];
    for cs in &coin_spends {
        match clvm_cost(cs.puzzle_reveal.as_slice(), cs.solution.as_slice(), flags) {
            Some(c) => puzzle_costs.push(c),
            None => {
                ctx.label("puzzle-does-not-run");
                return Ok(());
            }
        }
    }
    let exec_puzzles: u64 = puzzle_costs.iter().sum();
    let it = || coin_spends.iter().map(|cs| (cs.coin, cs.puzzle_reveal.as_slice(), cs.solution.as_slice()));
    let program = if backrefs { solution_generator_backrefs(it()).unwrap() } else { solution_generator(it()).unwrap() };
    // the generator program's own run (a quote)
    let gen_cost = clvm_cost(&program, &[0x80], flags).unwrap_or(20);
    // the generator as a tree, for the interned size: (q . ((spend…))) with spends in generator order
    let gen_tree_vbytes = {
        let mut t = b.tree.clone();
        let mut nodes = vec![];
        for sp in b.spends.iter().rev() {
            let pa = t.atom(&sp.parent);
            let am = t.atom(&vcore::model::int::enc_u64(sp.amount));
            nodes.push(t.list(&[pa, sp.puzzle, am, sp.cond_list]));
        }
        let sl = t.list(&nodes);
        let nil = t.nil();
        let out = t.pair(sl, nil);
        let q = t.atom(&[1]);
        let prog = t.pair(q, out);
        interned_vbytes(&t, prog)
    };
    let refs: Vec<Vec<u8>> = vec![];
    let generous = u64::MAX / 4;
    let sig = Signature::default();
    let mut any = false;

    // ---- run_block_generator2
    let rbg2 = |l: u64| run_block_generator2(&program, &refs, l, flags, &sig, None, &TEST_CONSTANTS).map(|(a, c)| proglevel::owned(&a, c));
    match (rbg2(generous), &want_cond) {
        (Ok(o), Some((wc, _))) => {
            ctx.label("rbg2:accepted");
            let byte = if interned { gen_tree_vbytes * cpb } else { program.len() as u64 * cpb };
            vensure_eq!(o.condition_cost, *wc, "C04:rbg2:condition-cost-differs-from-table", "condition_cost");
            vensure_eq!(o.execution_cost, gen_cost + exec_puzzles, "C04:rbg2:execution-cost", "execution_cost vs Σ clvmr run_program costs (generator + puzzles)");
            vensure_eq!(o.cost, byte + o.execution_cost + o.condition_cost, "C04:rbg2:total-is-not-byte+execution+condition", "cost vs byte ({byte}) + execution + condition");
            let sum_exec: u64 = o.spends.iter().map(|s| s.execution_cost).sum();
            vensure_eq!(sum_exec, exec_puzzles, "C04:rbg2:per-spend-execution-cost", "Σ spends.execution_cost vs Σ puzzle run costs");
            check_accumulators(&o, "rbg2", generous)?;
            check_limit(rbg2, &o, "rbg2", &mut s, ctx)?;
            check_prefix_sums(rbg2, &o, byte + gen_cost, "rbg2", ctx)?;
            any = true;
        }
        (Err(_), None) => ctx.label("rbg2:rejected"),
        _ => ctx.label("verdict-disagreement-left-to-C01"),
    }
    // ---- run_block_generator (legacy): execution cost taken as reported
    if !interned && coin_spends.len() <= 8 {
        let rbg = |l: u64| run_block_generator(&program, &refs, l, flags, &sig, None, &TEST_CONSTANTS).map(|(a, c)| proglevel::owned(&a, c));
        if let (Ok(o), Some((wc, _))) = (rbg(generous), &want_cond) {
            ctx.label("rbg:accepted");
            let byte = program.len() as u64 * cpb;
            vensure_eq!(o.condition_cost, *wc, "C04:rbg:condition-cost-differs-from-table", "condition_cost");
            vensure_eq!(o.cost, byte + o.execution_cost + o.condition_cost, "C04:rbg:total-is-not-byte+execution+condition", "cost vs byte ({byte}) + execution + condition");
            check_accumulators(&o, "rbg", generous)?;
            check_limit(rbg, &o, "rbg", &mut s, ctx)?;
            any = true;
        }
    }
    // ---- run_spendbundle (mempool): the model with the mempool visitor and mempool cost rules
    {
        let bundle = SpendBundle::new(coin_spends.clone(), sig.clone());
        let rsb = |l: u64| {
            let mut a = Allocator::new();
            run_spendbundle(&mut a, &bundle, l, flags, &TEST_CONSTANTS).map(|(c, _)| proglevel::owned(&a, c))
        };
        if let (Ok(o), Some((wc, _))) = (rsb(generous), &want_cond) {
            ctx.label("run_spendbundle:accepted");
            let plain_len = solution_generator(it()).unwrap().len() as u64;
            let byte = if interned { gen_tree_vbytes * cpb } else { (plain_len - 2) * cpb };
            vensure_eq!(o.condition_cost, *wc, "C04:run_spendbundle:condition-cost-differs-from-table", "condition_cost");
            vensure_eq!(o.execution_cost, exec_puzzles, "C04:run_spendbundle:execution-cost", "execution_cost vs Σ puzzle run costs");
            vensure_eq!(o.cost, byte + o.execution_cost + o.condition_cost, "C04:run_spendbundle:total-is-not-byte+execution+condition", "cost vs byte ({byte}) + execution + condition");
            let sum_exec: u64 = o.spends.iter().map(|s| s.execution_cost).sum();
            vensure_eq!(sum_exec, o.execution_cost, "C04:run_spendbundle:per-spend-execution-cost", "Σ spends.execution_cost vs execution_cost");
            check_accumulators(&o, "run_spendbundle", generous)?;
            check_limit(rsb, &o, "run_spendbundle", &mut s, ctx)?;
            check_prefix_sums(rsb, &o, byte, "run_spendbundle", ctx)?;
            any = true;
        }
    }
    ctx.ran_dry(s.ran_dry());
    if any && b.n_conds > 0 {
        let mut f = Fnv::new();
        f.write(&program);
        f.write_u64(u64::from(flags.bits()));
        ctx.nontrivial(f.finish());
    }
    Ok(())
}

// ---------------------------------------------------------------------------
// "every fork configuration", reached the way the mempool reaches it: by height.
// `get_conditions_from_spendbundle(.., prev_tx_height, constants)` maps a height
// to flags. The constants document each fork height as "the first block where
// ... is valid", so a fork is active AT its height: the cost reported at height H
// has to be the cost under the flag set that is in force well above H, and at
// H - 1 the cost under the set in force well below. Checked for each of the three
// fork heights set to several values while the other two are out of reach.

const FORK_HEIGHTS: [u32; 5] = [1, 2, 1000, 5_496_000, 0x7fff_ffff];

fn enum_forks(_tier: Tier, shard: usize, n: usize, emit: &mut dyn FnMut(&[u8]) -> bool) {
    let mut idx = 0usize;
    for fork in 0..3u8 {
        for hi in 0..FORK_HEIGHTS.len() as u8 {
            for delta in 0..3u8 {
                for bundle in 0..3u8 {
                    let mine = idx % n == shard;
                    idx += 1;
                    if mine && !emit(&[fork, hi, delta, bundle]) {
                        return;
                    }
                }
            }
        }
    }
}

/// bytes = [fork, height index, 0: H-1 / 1: H / 2: H+1, bundle]
pub fn case_forks(bytes: &[u8], ctx: &mut Ctx) -> CaseResult {
    use chia_consensus::spendbundle_conditions::get_conditions_from_spendbundle;
    use chia_consensus::spendbundle_validation::get_flags_for_height_and_constants;
    let mut s = Src::new(bytes);
    let (fork, hi, delta, bundle) = (s.u8() % 3, s.u8() as usize % FORK_HEIGHTS.len(), s.u8() % 3, s.u8() % 3);
    let h0 = FORK_HEIGHTS[hi];
    let mut c = TEST_CONSTANTS.clone();
    c.hard_fork2_height = u32::MAX;
    c.soft_fork8_height = u32::MAX;
    c.soft_fork9_height = u32::MAX;
    let name = match fork {
        0 => {
            c.hard_fork2_height = h0;
            "hard_fork2_height"
        }
        1 => {
            c.soft_fork8_height = h0;
            "soft_fork8_height"
        }
        _ => {
            c.soft_fork9_height = h0;
            "soft_fork9_height"
        }
    };
    let h = match delta {
        0 => h0 - 1,
        1 => h0,
        _ => h0 + 1,
    };
    // reference configurations: far below (height 0 is below every H used) and
    // far above (H + 1000; the other two forks sit at u32::MAX, out of reach)
    let below = get_flags_for_height_and_constants(0, &c);
    let above = get_flags_for_height_and_constants(h0 + 1000, &c);
    vensure!(below != above, "C04:forks:harness", "fork {name} changes no flag");
    let got = get_flags_for_height_and_constants(h, &c);
    let want = if delta == 0 { below } else { above };
    vensure!(
        got == want,
        format!("C04:forks:{name}:flags-at-boundary"),
        "{name} = {h0}: flags at height {h} are {got:?}; the configuration in force {} the fork is {want:?} (the fork height is documented as the first height at which the fork is valid)",
        if delta == 0 { "before" } else { "from" }
    );
    // the cost reported through the height-based entry point
    let mut t = Tree::new();
    let ph = condgen::tag_puzzle_hashes()[0];
    let pz = condgen::tagged_identity(&mut t, 1);
    let mk = |t: &mut Tree, op: u8, args: &[&[u8]]| -> Tid {
        let mut items = vec![t.atom(&[op])];
        for a in args {
            items.push(t.atom(a));
        }
        t.list(&items)
    };
    let conds = match bundle {
        0 => vec![mk(&mut t, 73, &[&[0x03, 0xe8]])],
        1 => vec![mk(&mut t, 51, &[&[0x6c; 32], &[0x64]]), mk(&mut t, 60, &[b"x"]), mk(&mut t, 73, &[&[0x03, 0xe8]])],
        _ => vec![mk(&mut t, 1, &[b"remark"]), mk(&mut t, 52, &[&[1]]), mk(&mut t, 70 + 2, &[&ph])],
    };
    let sol = t.list(&conds);
    let cs = proglevel::coin_spend(&t, [0x44; 32], ph, 1000, pz, sol);
    let sb = SpendBundle::new(vec![cs], Signature::default());
    let mut a1 = Allocator::new();
    let by_height = get_conditions_from_spendbundle(&mut a1, &sb, u64::MAX / 4, h, &c).map(|x| (x.cost, x.condition_cost, x.execution_cost));
    let mut a2 = Allocator::new();
    let flags = want | chia_consensus::flags::MEMPOOL_MODE | ConsensusFlags::DONT_VALIDATE_SIGNATURE;
    let by_flags = run_spendbundle(&mut a2, &sb, u64::MAX / 4, flags, &c).map(|(x, _)| (x.cost, x.condition_cost, x.execution_cost));
    vensure!(
        format!("{by_height:?}") == format!("{by_flags:?}"),
        format!("C04:forks:{name}:cost-at-boundary"),
        "{name} = {h0}, bundle {bundle}: get_conditions_from_spendbundle at height {h} reports (cost, condition, execution) = {by_height:?}; under the fork configuration in force there run_spendbundle reports {by_flags:?}"
    );
    ctx.label(format!("forks:{name}"));
    ctx.label(["forks:height-below", "forks:height-at", "forks:height-above"][delta as usize]);
    let mut f = Fnv::new();
    f.write(bytes);
    ctx.nontrivial(f.finish());
    ctx.render(|| format!("{name} = {h0}, height {h}, bundle {bundle}: flags {got:?}, (cost, condition, execution) = {by_height:?}"));
    Ok(())
}

pub fn property() -> Property {
    Property {
        id: "C04",
        rule: "(A) a deterministic sweep over every row of the cost table — the 35 known opcodes, 6 unknown one-byte opcodes, all 256 low bytes of two-byte opcodes × 5 high bytes, 8 SOFTFORK arguments up to 2^32-1, 0..5 spends without conditions — × {pre, post hard-fork-2 rules} × both visitors, each as a small accepted bundle; (B) random bundles from the shared generator at parse_spends; (C) the same bundles as CoinSpends through run_block_generator2, run_block_generator and run_spendbundle with byte or INTERNED_GENERATOR pricing, plain or back-reference generators. Expected condition cost comes from the reference model's table (constants from the prose, two-byte costs in exact big-integer arithmetic), execution cost from the harness running every puzzle and the generator with clvmr, byte cost from the length / the harness's own interned size. Every accepted result is re-run at max_cost = cost (must give the identical result), at cost-1 and further smaller limits incl. 0 (must fail with cost-exceeded) and at a larger limit (same cost). Non-trivial = accepted with ≥1 costed condition; distinct by (row, fork, visitor) / (tree or program, flags).",
        assumptions: &[
            "for the legacy path (run_block_generator) the execution-cost term is taken from the report; only the identity cost = byte + execution + condition and the limit behaviour are checked there",
            "accept/reject disagreements with the model are C01's subject and are only labelled here",
        ],
        subchecks: vec![
            SubCheck {
                name: "cost-table-rows",
                about: "every row of the cost table in both fork modes, both visitors, with limit exactness",
                source: Source::Enumerate { f: enum_rows, exhaustive: true },
                run: case_row,
                inflight: false,
                min_nontrivial: 4000,
                required_labels: &["fork:post-hf2", "fork:pre-hf2", "row-class:two-byte", "row-class:SOFTFORK", "row-class:opcode", "limit:below-checked"],
            },
            SubCheck {
                name: "parse-random",
                about: "random bundles at parse_spends: table, accumulators, limit exactness",
                source: Source::Random { len: 1536, quick: 150_000, thorough: 4_000_000 },
                run: case_parse_random,
                inflight: false,
                min_nontrivial: 20_000,
                required_labels: &["accepted", "limit:below-checked"],
            },
            SubCheck {
                name: "program-entry-points",
                about: "run_block_generator2 / run_block_generator / run_spendbundle: byte|interned + execution + condition, accumulators, limit exactness",
                source: Source::Random { len: 1536, quick: 25_000, thorough: 800_000 },
                run: case_program,
                inflight: false,
                min_nontrivial: 5_000,
                required_labels: &["rbg2:accepted", "rbg:accepted", "run_spendbundle:accepted", "pricing:interned", "pricing:bytes", "limit:below-checked", "limit:prefix-sums-checked"],
            },
            SubCheck {
                name: "fork-heights",
                about: "the height-based entry point get_conditions_from_spendbundle at H-1, H, H+1 for each fork height H in {1, 2, 1000, 5496000, 2^31-1}: flags and reported cost equal those of the configuration in force before / from the fork",
                source: Source::Enumerate { f: enum_forks, exhaustive: true },
                run: case_forks,
                inflight: false,
                min_nontrivial: 100,
                required_labels: &["forks:hard_fork2_height", "forks:soft_fork8_height", "forks:soft_fork9_height", "forks:height-at"],
            },
        ],
        death_is_violation: false,
    }
}
