//! C07 — both block-generator execution paths agree (legacy ROM-in-CLVM
//! `run_block_generator` vs native `run_block_generator2`).

use chia_bls::Signature;
use chia_consensus::consensus_constants::TEST_CONSTANTS;
use chia_consensus::flags::{ConsensusFlags, MEMPOOL_MODE};
use chia_consensus::owned_conditions::OwnedSpendBundleConditions;
use chia_consensus::run_block_generator::{run_block_generator, run_block_generator2};
use chia_consensus::solution_generator::{solution_generator, solution_generator_backrefs};
use chia_consensus::validation_error::{ErrorCode, ValidationErr};
use clvmr::error::EvalErr;
use clvmr::serde::{node_to_bytes, node_to_bytes_backrefs};
use clvmr::Allocator;
use vcore::condgen::{self, GenCfg};
use vcore::engine::{CaseResult, Ctx, Property, Source, SubCheck};
use vcore::gentree::{self, BuildMode, Tid, Tree};
use vcore::model::int::enc_u64;
use vcore::proglevel;
use vcore::{Fnv, Src};

type RunResult = Result<OwnedSpendBundleConditions, ValidationErr>;

thread_local! {
    /// the aggregate signature handed to BOTH paths in the current case (set by
    /// `flag_choice`): the identity, except in the cases that validate signatures
    static CASE_SIG: std::cell::RefCell<Signature> = std::cell::RefCell::new(Signature::default());
}

fn run_legacy(program: &[u8], refs: &[Vec<u8>], max_cost: u64, flags: ConsensusFlags) -> RunResult {
    let sig = CASE_SIG.with(|s| s.borrow().clone());
    run_block_generator(program, refs, max_cost, flags, &sig, None, &TEST_CONSTANTS).map(|(a, c)| proglevel::owned(&a, c))
}
fn run_native(program: &[u8], refs: &[Vec<u8>], max_cost: u64, flags: ConsensusFlags) -> RunResult {
    let sig = CASE_SIG.with(|s| s.borrow().clone());
    run_block_generator2(program, refs, max_cost, flags, &sig, None, &TEST_CONSTANTS).map(|(a, c)| proglevel::owned(&a, c))
}

/// errors of the legacy path that are a permitted asymmetry: it exhausted cost
/// or an interpreter resource limit on a program the cheaper native path completes
fn legacy_resource_error(e: &ValidationErr) -> bool {
    matches!(
        e,
        ValidationErr::Err(ErrorCode::CostExceeded)
            | ValidationErr::Eval(
                EvalErr::CostExceeded
                    | EvalErr::OutOfMemory
                    | EvalErr::TooManyPairs
                    | EvalErr::TooManyAtoms
                    | EvalErr::ValueStackLimitReached(_)
                    | EvalErr::EnvironmentStackLimitReached(_)
            )
    )
}

/// the relation of the property between the two results
pub fn compare(legacy: &RunResult, native: &RunResult, what: &str) -> Result<&'static str, vcore::engine::Failure> {
    match (legacy, native) {
        (Err(_), Err(_)) => Ok("both-reject"),
        (Ok(_), Err(e2)) => vcore::engine::fail(
            "C07:legacy-accepts-native-rejects",
            format!("{what}: run_block_generator accepted but run_block_generator2 rejected with {e2:?}"),
        ),
        (Err(e1), Ok(_)) => {
            if legacy_resource_error(e1) {
                Ok("legacy-exhausted-resources")
            } else {
                vcore::engine::fail(
                    "C07:native-accepts-legacy-rejects",
                    format!("{what}: run_block_generator2 accepted but run_block_generator rejected with {e1:?} (not a cost/resource limit)"),
                )
            }
        }
        (Ok(l), Ok(n)) => {
            let f = |sig: &str, msg: String| -> Result<&'static str, vcore::engine::Failure> { vcore::engine::fail(sig, format!("{what}: {msg}")) };
            if l.spends.len() != n.spends.len() {
                return f("C07:both-accept:spends-differ", format!("{} vs {} spends", l.spends.len(), n.spends.len()));
            }
            for (i, (a, b)) in l.spends.iter().zip(n.spends.iter()).enumerate() {
                let mut a2 = a.clone();
                let mut b2 = b.clone();
                // the legacy path does not attribute execution cost per spend
                a2.execution_cost = 0;
                b2.execution_cost = 0;
                if a2 != b2 {
                    return f("C07:both-accept:spends-differ", format!("spend {i} differs:\n legacy {a2:?}\n native {b2:?}"));
                }
            }
            if l.reserve_fee != n.reserve_fee
                || l.height_absolute != n.height_absolute
                || l.seconds_absolute != n.seconds_absolute
                || l.before_height_absolute != n.before_height_absolute
                || l.before_seconds_absolute != n.before_seconds_absolute
                || l.agg_sig_unsafe != n.agg_sig_unsafe
                || l.removal_amount != n.removal_amount
                || l.addition_amount != n.addition_amount
                || l.validated_signature != n.validated_signature
            {
                return f("C07:both-accept:bundle-fields-differ", format!("legacy {l:?}\n native {n:?}"));
            }
            if l.condition_cost != n.condition_cost {
                return f("C07:both-accept:condition-cost-differs", format!("{} vs {}", l.condition_cost, n.condition_cost));
            }
            if l.cost < n.cost {
                return f("C07:native-costs-more", format!("legacy cost {} < native cost {}", l.cost, n.cost));
            }
            Ok("both-accept")
        }
    }
}

fn flag_choice(s: &mut Src<'_>) -> ConsensusFlags {
    let mut f = ConsensusFlags::DONT_VALIDATE_SIGNATURE;
    match s.below(6) {
        0 => {}
        1 => f |= ConsensusFlags::COST_CONDITIONS,
        2 => f |= MEMPOOL_MODE,
        3 => f |= MEMPOOL_MODE | ConsensusFlags::COST_CONDITIONS,
        4 => f |= ConsensusFlags::SIMPLE_GENERATOR | ConsensusFlags::COST_CONDITIONS | ConsensusFlags::LIMIT_SPENDS,
        _ => {
            let bits = s.u8();
            if bits & 1 != 0 {
                f |= ConsensusFlags::NO_UNKNOWN_CONDS;
            }
            if bits & 2 != 0 {
                f |= ConsensusFlags::STRICT_ARGS_COUNT;
            }
            if bits & 4 != 0 {
                f |= ConsensusFlags::LIMIT_SPENDS;
            }
            if bits & 8 != 0 {
                f |= ConsensusFlags::LIMIT_HEAP;
            }
            if bits & 16 != 0 {
                f |= ConsensusFlags::SIMPLE_GENERATOR;
            }
            if bits & 32 != 0 {
                f |= ConsensusFlags::COST_CONDITIONS;
            }
            if bits & 64 != 0 {
                f |= ConsensusFlags::NO_UNKNOWN_OPS;
            }
        }
    }
    // one case in 32 validates the aggregate signature: both paths get the same
    // signature argument — the identity (right for a block without AGG_SIG
    // conditions), the G2 generator, or a real signature by a pool key (both wrong
    // for almost every block) — and have to agree on the verdict as for any other
    // argument
    let sig = if s.chance(8) {
        f.remove(ConsensusFlags::DONT_VALIDATE_SIGNATURE);
        match s.below(3) {
            0 => Signature::default(),
            1 => Signature::generator(),
            _ => chia_bls::sign(&condgen::key_pool().sks[0], b"c07"),
        }
    } else {
        Signature::default()
    };
    CASE_SIG.with(|c| *c.borrow_mut() = sig);
    // operator flags (hard-fork activations): every subset
    f | proglevel::op_flag_subset(s.below(64))
}

struct Out {
    tree: Tree,
    /// the generator output value `((spend…) . tail)`
    output: Tid,
    labels: Vec<String>,
    /// unmutated well-formed coin spends (for the solution_generator forms)
    pristine: bool,
    n_conds: usize,
}

/// generator *output* in the native format `(parent puzzle amount solution . extra)` with shape mutations
fn gen_output(s: &mut Src<'_>) -> (Out, Vec<chia_protocol::CoinSpend>) {
    let mut cfg = GenCfg::standard();
    cfg.shape_mutations = false;
    cfg.huge = false;
    cfg.careful_rate = 215;
    cfg.mutation_rate = 40;
    cfg.max_spends = 4;
    let b = condgen::gen_bundle(s, &cfg);
    let coin_spends = proglevel::coin_spends(&b);
    let mut t = b.tree.clone();
    let mut labels = vec![];
    let mut pristine = true;
    let n_mut = if s.chance(90) { s.range(1, 2) } else { 0 };
    // per spend fields
    let mut spends: Vec<(Vec<Tid>, Tid)> = vec![]; // (fields, tail)
    for sp in &b.spends {
        let pa = t.atom(&sp.parent);
        let am = t.atom(&enc_u64(sp.amount));
        let nil = t.nil();
        spends.push((vec![pa, sp.puzzle, am, sp.cond_list], nil));
    }
    let mut spend_nodes_override: Vec<Option<Tid>> = vec![None; spends.len()];
    let mut list_tail = t.nil();
    let mut outer_tail = t.nil();
    let mut whole_override: Option<Tid> = None;
    for _ in 0..n_mut {
        pristine = false;
        let k = if spends.is_empty() { 0 } else { s.below(spends.len()) };
        let kind = s.below(23);
        // field mutations need an intact 4-field spend
        let intact = !spends.is_empty() && spends[k].0.len() >= 4;
        let kind = if ((10..=19).contains(&kind) || kind == 22) && !intact { 3 } else { kind };
        let name = match kind {
            0 => {
                if !spends.is_empty() {
                    spend_nodes_override[k] = Some(t.atom(b"spend"));
                }
                "spend-is-atom"
            }
            1 => {
                if !spends.is_empty() {
                    spends[k].0.truncate(3);
                }
                "spend-3-fields"
            }
            2 => {
                if !spends.is_empty() {
                    spends[k].0.truncate(2);
                }
                "spend-2-fields"
            }
            3 => {
                if !spends.is_empty() {
                    let x = t.atom(b"extra1");
                    spends[k].0.push(x);
                }
                "spend-5-fields"
            }
            4 => {
                if !spends.is_empty() {
                    let x = t.atom(b"extra1");
                    let y = t.nil();
                    let z = t.pair(x, y);
                    spends[k].0.push(x);
                    spends[k].0.push(z);
                }
                "spend-6-fields"
            }
            5 => {
                if !spends.is_empty() {
                    spends[k].1 = t.atom(&[9]);
                }
                "spend-improper-tail"
            }
            6 => {
                list_tail = t.atom(&[7]);
                "spend-list-bad-terminator"
            }
            7 => {
                outer_tail = t.atom(b"tail");
                "outer-improper-tail"
            }
            8 => {
                let x = t.atom(b"second");
                let n = t.nil();
                outer_tail = t.pair(x, n);
                "outer-extra-element"
            }
            9 => {
                whole_override = Some(t.atom(b"out"));
                "output-is-atom"
            }
            10 => {
                if !spends.is_empty() {
                    spends[k].0[0] = t.atom(&[0x11; 31]);
                }
                "parent-31-bytes"
            }
            11 => {
                if !spends.is_empty() {
                    let x = t.atom(&[1]);
                    spends[k].0[0] = t.pair(x, x);
                }
                "parent-is-pair"
            }
            12 => {
                if !spends.is_empty() {
                    spends[k].0[2] = t.atom(&[0x80, 1]);
                }
                "amount-negative"
            }
            13 => {
                if !spends.is_empty() {
                    spends[k].0[2] = t.atom(&[0, 1]);
                }
                "amount-redundant-zero"
            }
            14 => {
                if !spends.is_empty() {
                    spends[k].0[2] = t.atom(&[1, 0, 0, 0, 0, 0, 0, 0, 0]);
                }
                "amount-too-large"
            }
            15 => {
                if !spends.is_empty() {
                    spends[k].0[1] = t.atom(&[s.u8()]);
                }
                "puzzle-is-atom"
            }
            16 => {
                if !spends.is_empty() {
                    // (x) raises
                    let x = t.atom(&[8]);
                    spends[k].0[1] = t.list(&[x]);
                }
                "puzzle-raises"
            }
            17 => {
                if !spends.is_empty() {
                    // (q . 5): conditions are an atom
                    let q = t.atom(&[1]);
                    let five = t.atom(&[5]);
                    spends[k].0[1] = t.pair(q, five);
                }
                "puzzle-returns-atom"
            }
            18 => {
                if !spends.is_empty() {
                    // unknown operator with big cost
                    let op = t.atom(&[0xff, 0xff, 0x00, 0x40]);
                    let a1 = t.atom(&[1]);
                    spends[k].0[1] = t.list(&[op, a1]);
                }
                "puzzle-unknown-op"
            }
            19 => {
                if !spends.is_empty() {
                    spends[k].0[3] = t.atom(b"sol");
                }
                "solution-is-atom"
            }
            20 => {
                if !spends.is_empty() {
                    let big = vec![0x5au8; 70_000];
                    let x = t.atom(&big);
                    spends[k].0.push(x);
                }
                "huge-atom-extra"
            }
            22 => {
                if !spends.is_empty() {
                    // a puzzle reveal containing an atom of several KiB:
                    // (q . ((REMARK small) (REMARK <big atom>)))
                    let n = *s.pick(&[1025usize, 4095, 4096, 4097, 5000, 8192, 20_000]);
                    let big = vec![0x6bu8; n];
                    let q = t.atom(&[1]);
                    let r1 = t.atom(&[1]);
                    let five = t.atom(&[5]);
                    let c1 = t.list(&[r1, five]);
                    let r2 = t.atom(&[1]);
                    let b = t.atom(&big);
                    let c2 = t.list(&[r2, b]);
                    let conds = t.list(&[c1, c2]);
                    spends[k].0[1] = t.pair(q, conds);
                }
                "puzzle-with-big-atom"
            }
            _ => {
                if !spends.is_empty() {
                    // deep nesting in the extra field
                    let mut cur = t.nil();
                    let depth = 200 + s.below(3000);
                    for _ in 0..depth {
                        let n = t.nil();
                        cur = t.pair(cur, n);
                    }
                    spends[k].0.push(cur);
                }
                "deep-extra"
            }
        };
        labels.push(format!("shape:{name}"));
    }
    let mut nodes = vec![];
    for (i, (fields, tail)) in spends.iter().enumerate() {
        nodes.push(match spend_nodes_override[i] {
            Some(n) => n,
            None => t.list_with_tail(fields, *tail),
        });
    }
    let sl = t.list_with_tail(&nodes, list_tail);
    let output = match whole_override {
        Some(n) => n,
        None => t.pair(sl, outer_tail),
    };
    for l in &b.labels {
        if l.starts_with("plan:") || l.starts_with("spends:") {
            labels.push(l.clone());
        }
    }
    (
        Out {
            tree: t,
            output,
            labels,
            pristine,
            n_conds: b.n_conds,
        },
        coin_spends,
    )
}

/// a CLVM program that evaluates to the value `node`, computing some atoms at run time
fn computed_program(t: &mut Tree, node: Tid, s: &mut Src<'_>, budget: &mut usize, depth: usize) -> Tid {
    let q = t.atom(&[1]);
    let quote = |t: &mut Tree, n: Tid| -> Tid { t.pair(q, n) };
    match t.get(node).clone() {
        vcore::gentree::TNode::Atom(b) => {
            if !s.chance(150) {
                return quote(t, node);
            }
            if b.is_empty() {
                match s.below(3) {
                    0 => {
                        // (substr "hello!" k k): an empty atom that is not the nil node
                        let op = t.atom(&[12]);
                        let src = t.atom(b"hello!");
                        let qs = quote(t, src);
                        let k = 1 + s.below(5) as u8;
                        let ka = t.atom(&[k]);
                        let qk = quote(t, ka);
                        t.list(&[op, qs, qk, qk])
                    }
                    1 => {
                        // (concat () ())
                        let op = t.atom(&[14]);
                        let n = t.nil();
                        let qn = quote(t, n);
                        t.list(&[op, qn, qn])
                    }
                    _ => {
                        // (- 5 5)
                        let op = t.atom(&[17]);
                        let five = t.atom(&[5]);
                        let q5 = quote(t, five);
                        t.list(&[op, q5, q5])
                    }
                }
            } else if b.len() >= 2 {
                // (concat head tail)
                let op = t.atom(&[14]);
                let mid = 1 + s.below(b.len() - 1);
                let h = t.atom(&b[..mid]);
                let tl = t.atom(&b[mid..]);
                let qh = quote(t, h);
                let qt = quote(t, tl);
                t.list(&[op, qh, qt])
            } else if b[0] >= 2 && b[0] < 0x80 {
                // (+ 1 (n-1))
                let op = t.atom(&[16]);
                let one = t.atom(&[1]);
                let rest = t.atom(&[b[0] - 1]);
                let q1 = quote(t, one);
                let qr = quote(t, rest);
                t.list(&[op, q1, qr])
            } else {
                quote(t, node)
            }
        }
        vcore::gentree::TNode::Pair(l, r) => {
            if *budget == 0 || depth > 40 {
                return quote(t, node);
            }
            *budget -= 1;
            // expand the right spine eagerly (that is where terminators live),
            // the left side less often
            let lp = if s.chance(110) { computed_program(t, l, s, budget, depth + 1) } else { quote(t, l) };
            let rp = computed_program(t, r, s, budget, depth + 1);
            let c = t.atom(&[4]);
            t.list(&[c, lp, rp])
        }
    }
}

fn serialize(a: &Allocator, n: clvmr::NodePtr, backrefs: bool) -> Vec<u8> {
    if backrefs {
        node_to_bytes_backrefs(a, n).expect("serialize")
    } else {
        node_to_bytes(a, n).expect("serialize")
    }
}

pub fn case_structured(bytes: &[u8], ctx: &mut Ctx) -> CaseResult {
    let mut s = Src::new(bytes);
    let flags = flag_choice(&mut s);
    let form = s.below(7);
    let backrefs = s.bool();
    let (mut out, coin_spends) = gen_output(&mut s);
    // ---- the generator program
    let mut refs: Vec<Vec<u8>> = vec![];
    let form_name;
    let mut labels_extra: Vec<&'static str> = vec![];
    let program: Vec<u8> = {
        let t = &mut out.tree;
        match form {
            // built by the library from the coin spends (only when unmutated)
            0 | 1 if out.pristine => {
                let it = coin_spends.iter().map(|cs| (cs.coin, cs.puzzle_reveal.as_slice(), cs.solution.as_slice()));
                if backrefs {
                    form_name = "solution_generator_backrefs";
                    solution_generator_backrefs(it).expect("solution_generator_backrefs")
                } else {
                    form_name = "solution_generator";
                    solution_generator(it).expect("solution_generator")
                }
            }
            // procedural: (c (q . first) (q . rest)) builds the output at run time
            2 => {
                form_name = "procedural-cons";
                let (l, r) = match t.pair_of(out.output) {
                    Some(p) => p,
                    None => {
                        let n = t.nil();
                        (out.output, n)
                    }
                };
                let q1 = t.atom(&[1]);
                let ql = t.pair(q1, l);
                let qr = t.pair(q1, r);
                let c = t.atom(&[4]);
                let prog = t.list(&[c, ql, qr]);
                let mut a = Allocator::new();
                let n = gentree::build(&mut a, t, prog, BuildMode::PLAIN);
                serialize(&a, n, backrefs)
            }
            // reads block reference 0 through the deserializer passed as first argument:
            // (a (a 2 (c 9 ())) ()) with env = (DESERIALIZER (block0 …))
            3 => {
                form_name = "procedural-deserialize-block-ref";
                let q1 = t.atom(&[1]);
                let quoted = t.pair(q1, out.output);
                let mut a = Allocator::new();
                let qn = gentree::build(&mut a, t, quoted, BuildMode::PLAIN);
                refs.push(serialize(&a, qn, false));
                if s.bool() {
                    refs.push(vec![0x80]);
                }
                let two = t.atom(&[2]);
                let eleven = t.atom(&[9]); // path 9 = (f (f (r env))) = first block reference
                let c = t.atom(&[4]);
                let nil = t.nil();
                let inner_args = t.list(&[c, eleven, nil]);
                let inner = t.list(&[two, two, inner_args]);
                let prog = t.list(&[two, inner, nil]);
                let mut a2 = Allocator::new();
                let n = gentree::build(&mut a2, t, prog, BuildMode::PLAIN);
                serialize(&a2, n, backrefs)
            }
            // procedural: the output is rebuilt with `c`, and some atoms — list
            // terminators in particular — are *computed at run time* (substr /
            // concat / +), so they reach the consensus code as heap-allocated
            // atoms rather than as the canonical nil / small-integer nodes
            4 => {
                form_name = "procedural-computed-atoms";
                let mut budget = 48usize;
                let mut prog = computed_program(t, out.output, &mut s, &mut budget, 0);
                if s.chance(80) {
                    // an operator probe in front: its outcome depends on the operator
                    // flags, which both paths receive alike
                    let (p, name) = proglevel::with_probe(t, prog, &mut s);
                    prog = p;
                    labels_extra.push(name);
                }
                let mut a = Allocator::new();
                let n = gentree::build(&mut a, t, prog, BuildMode::PLAIN);
                serialize(&a, n, backrefs)
            }
            // quoted output
            _ => {
                form_name = if backrefs { "quoted-backrefs" } else { "quoted-plain" };
                let q1 = t.atom(&[1]);
                let quoted = t.pair(q1, out.output);
                let mut a = Allocator::new();
                let n = gentree::build(&mut a, t, quoted, BuildMode { share: true, atoms: 0 });
                serialize(&a, n, backrefs)
            }
        }
    };
    let limit_kind = s.below(8);
    ctx.ran_dry(s.ran_dry());
    ctx.label(format!("form:{form_name}"));
    for l in &labels_extra {
        ctx.label(*l);
    }
    for l in &out.labels {
        ctx.label(l.clone());
    }
    ctx.render(|| {
        format!(
            "flags={flags:?} form={form_name} refs={} output={} program={}…",
            refs.len(),
            out.tree.render(out.output),
            hex_prefix(&program, 80)
        )
    });
    let generous = 11_000_000_000u64;
    let l = run_legacy(&program, &refs, generous, flags);
    let n = run_native(&program, &refs, generous, flags);
    let verdict = compare(&l, &n, "generous limit")?;
    ctx.label(format!("verdict:{verdict}"));
    ctx.label(format!("{verdict}:{form_name}"));
    let mut nontrivial = false;
    if let (Ok(lo), Ok(no)) = (&l, &n) {
        if !no.spends.is_empty() && out.n_conds > 0 {
            nontrivial = true;
        }
        // cost limits between and at the two totals
        let (c1, c2) = (lo.cost, no.cost);
        let limit = match limit_kind {
            0 => Some(c2),
            1 => Some(c1),
            2 => Some(c2 + (c1 - c2) / 2),
            3 => c1.checked_sub(1),
            4 => c2.checked_sub(1),
            _ => None,
        };
        if let Some(limit) = limit {
            let l2 = run_legacy(&program, &refs, limit, flags);
            let n2 = run_native(&program, &refs, limit, flags);
            let v2 = compare(&l2, &n2, &format!("limit {limit} (legacy total {c1}, native total {c2})"))?;
            ctx.label(format!("limited:{v2}"));
        }
    } else if let (Err(e1), Err(_)) = (&l, &n) {
        if let ValidationErr::Err(code) = e1 {
            ctx.label(format!("both-reject:{code:?}"));
        }
        if out.n_conds > 0 {
            nontrivial = true;
        }
    }
    if nontrivial {
        let mut f = Fnv::new();
        f.write(&program);
        for r in &refs {
            f.write(r);
        }
        f.write_u64(u64::from(flags.bits()));
        ctx.nontrivial(f.finish());
    }
    Ok(())
}

fn hex_prefix(b: &[u8], n: usize) -> String {
    b.iter().take(n).map(|x| format!("{x:02x}")).collect()
}

/// raw / mutated program bytes: a valid generator with byte-level mutations
pub fn case_bytes(bytes: &[u8], ctx: &mut Ctx) -> CaseResult {
    let mut s = Src::new(bytes);
    let flags = flag_choice(&mut s);
    let (out, _) = gen_output(&mut s);
    let mut t = out.tree;
    let q1 = t.atom(&[1]);
    let quoted = t.pair(q1, out.output);
    let mut a = Allocator::new();
    let n = gentree::build(&mut a, &t, quoted, BuildMode::PLAIN);
    let mut program = serialize(&a, n, s.bool());
    let n_mut = s.range(1, 4);
    for _ in 0..n_mut {
        if program.is_empty() {
            break;
        }
        let pos = s.below(program.len());
        match s.below(5) {
            0 => program[pos] = s.u8(),
            1 => program[pos] ^= 1 << s.below(8),
            2 => {
                program.insert(pos, s.u8());
            }
            3 => {
                program.remove(pos);
            }
            _ => program.truncate(pos.max(1)),
        }
    }
    ctx.ran_dry(s.ran_dry());
    ctx.render(|| format!("flags={flags:?} mutated program bytes={}", hex_prefix(&program, 200)));
    let refs: Vec<Vec<u8>> = vec![];
    let l = run_legacy(&program, &refs, 11_000_000_000, flags);
    let nn = run_native(&program, &refs, 11_000_000_000, flags);
    let verdict = compare(&l, &nn, "mutated bytes")?;
    ctx.label(format!("verdict:{verdict}"));
    if matches!((&l, &nn), (Ok(_), Ok(_))) {
        let mut f = Fnv::new();
        f.write(&program);
        f.write_u64(u64::from(flags.bits()));
        ctx.nontrivial(f.finish());
    }
    Ok(())
}

pub fn property() -> Property {
    Property {
        id: "C07",
        rule: "a case is (generator program, block references, flags, cost limit): bundles from the shared generator turned into the native output shape ((parent puzzle amount solution . extra)…) with 0-2 labelled shape mutations (atoms for lists, 2/3/5/6-field spends, improper tails at every level, bad parent/amount encodings, garbage/raising/unknown-op puzzles, huge atoms, deep nesting), delivered as solution_generator(_backrefs) output, a quoted program (plain / back-references), a procedural program consing the output, or a program deserializing block reference 0 through the passed deserializer; flags from {∅, COST_CONDITIONS, MEMPOOL_MODE, SIMPLE_GENERATOR+…, random subsets incl. LIMIT_HEAP, NO_UNKNOWN_OPS} (INTERNED_GENERATOR excluded: the legacy path has no interned pricing); limits: generous, native total, legacy total, midpoint, each total − 1. Non-trivial = both accepted with ≥1 spend and ≥1 condition, or both rejected on a bundle with conditions; distinct by (program bytes, refs, flags).",
        assumptions: &[
            "INTERNED_GENERATOR is excluded from this comparison (the two paths deliberately price bytes differently there)",
            "error codes of (reject, reject) pairs are not compared",
            "per-spend execution_cost is not compared (the legacy path cannot attribute it)",
        ],
        subchecks: vec![
            SubCheck {
                name: "structured-generators",
                about: "structured generators with output shape mutations, several program forms, flag sets and cost limits",
                source: Source::Random { len: 1536, quick: 400_000, thorough: 4_000_000 },
                run: case_structured,
                inflight: true,
                min_nontrivial: 8_000,
                required_labels: &[
                    "verdict:both-accept",
                    "verdict:both-reject",
                    "form:solution_generator",
                    "form:solution_generator_backrefs",
                    "form:procedural-cons",
                    "form:procedural-deserialize-block-ref",
                    "form:procedural-computed-atoms",
                    "both-accept:procedural-computed-atoms",
                    "both-accept:procedural-deserialize-block-ref",
                    "limited:legacy-exhausted-resources",
                    "limited:both-accept",
                ],
            },
            SubCheck {
                name: "mutated-bytes",
                about: "byte-level mutations of serialized generators",
                source: Source::Random { len: 1536, quick: 200_000, thorough: 2_000_000 },
                run: case_bytes,
                inflight: true,
                min_nontrivial: 300,
                required_labels: &["verdict:both-accept", "verdict:both-reject"],
            },
        ],
        death_is_violation: false,
    }
}
