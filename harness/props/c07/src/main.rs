fn main() {
    vcore::engine::main(c07::property());
}
