//! C11 — all integer encoders agree on the canonical CLVM integer form.
//!
//! Subjects (code under test): Coin::coin_id, u64_to_bytes, clvm_bytes_len (via
//! calculate_generator_length and the real serializer), clvm-traits
//! ToClvm/FromClvm for every integer width, compute_coin_id + the
//! AGG_SIG_AMOUNT suffix (via parse_spends / make_aggsig_final_message),
//! sanitize_uint (widths 4 and 8), decode_number.
//! Oracles: model::int (arithmetic / num-bigint) and clvmr's own
//! Allocator::new_number / number (the interpreter's form).

use std::sync::OnceLock;

use chia_bls::{SecretKey, Signature};
use chia_consensus::conditions::{parse_spends, EmptyVisitor};
use chia_consensus::consensus_constants::TEST_CONSTANTS;
use chia_consensus::flags::ConsensusFlags;
use chia_consensus::make_aggsig_final_message::{make_aggsig_final_message, u64_to_bytes};
use chia_consensus::opcodes::AGG_SIG_AMOUNT;
use chia_consensus::owned_conditions::OwnedSpendBundleConditions;
use chia_consensus::sanitize_int::{sanitize_uint, SanitizedUint};
use chia_consensus::solution_generator::{calculate_generator_length, solution_generator};
use chia_consensus::validation_error::{ErrorCode, ValidationErr};
use chia_protocol::{Bytes32, Coin, CoinSpend, Program};
use clvm_traits::{ClvmEncoder, FromClvm, ToClvm, ToClvmError};
use clvm_utils::ToTreeHash;
use clvmr::Allocator;
use num_bigint::BigInt;
use sha2::{Digest, Sha256};
use vcore::engine::{self, CaseResult, Ctx, Property, Source, SubCheck, Tier};
use vcore::model::int::{self as mint, UintClass};
use vcore::{fnv, vensure, vensure_eq, vfail, Src};

fn pk_bytes() -> &'static [u8; 48] {
    static PK: OnceLock<[u8; 48]> = OnceLock::new();
    PK.get_or_init(|| SecretKey::from_seed(&[7u8; 32]).public_key().to_bytes())
}

const PARENT: [u8; 32] = [0x11; 32];
const PH: [u8; 32] = [0x22; 32];

// --------------------------------------------------------------------------
// cheap u64 subjects (used by the exhaustive sweeps)

fn check_u64_cheap(v: u64, a: &mut Allocator) -> CaseResult {
    let want = mint::enc_u64(v);
    // 1. u64_to_bytes
    let got = u64_to_bytes(v);
    vensure_eq!(got, want, "C11:u64_to_bytes:not-canonical", "u64_to_bytes({v:#x})");
    // 2. Coin::coin_id
    let coin = Coin::new(PARENT.into(), PH.into(), v);
    let mut h = Sha256::new();
    h.update(PARENT);
    h.update(PH);
    h.update(&want);
    let expect: [u8; 32] = h.finalize().into();
    vensure!(
        coin.coin_id() == Bytes32::from(expect),
        "C11:coin_id:not-canonical-amount",
        "Coin::coin_id for amount {v:#x} is not sha256(parent|ph|{})",
        hex(&want)
    );
    // 3. interpreter form
    let cp = a.checkpoint();
    let n = a.new_number(BigInt::from(v)).expect("new_number");
    let interp = a.atom(n).as_ref().to_vec();
    vensure_eq!(interp, want, "C11:model-vs-interpreter", "Allocator::new_number({v:#x})");
    // 4. clvm-traits
    let node = v.to_clvm(a).expect("to_clvm u64");
    let t = a.atom(node).as_ref().to_vec();
    vensure_eq!(t, want, "C11:clvm-traits:encode-u64", "u64::to_clvm({v:#x})");
    let rec = v.to_clvm(&mut Recorder).expect("to_clvm recorder").0;
    vensure_eq!(rec, want, "C11:clvm-traits:encode-other-encoder-u64", "u64::to_clvm({v:#x}) through a non-allocator encoder");
    let back = u64::from_clvm(a, n);
    vensure!(
        back.as_ref().ok() == Some(&v),
        "C11:clvm-traits:decode-u64",
        "u64::from_clvm of canonical {} gives {back:?}",
        hex(&want)
    );
    a.restore_checkpoint(&cp);
    Ok(())
}

fn hex(b: &[u8]) -> String {
    let mut s = String::new();
    for x in b {
        s.push_str(&format!("{x:02x}"));
    }
    if s.is_empty() {
        s.push_str("<empty>");
    }
    s
}

fn check_u64_len(v: u64) -> CaseResult {
    // clvm_bytes_len, observed through calculate_generator_length, against the
    // model's serialized length and against the real serializer
    let cs = CoinSpend::new(
        Coin::new(PARENT.into(), PH.into(), v),
        Program::from(vec![0x01u8]),
        Program::from(vec![0x80u8]),
    );
    let predicted = calculate_generator_length([cs.clone()]);
    let want_amount_len = mint::serialized_atom_len(&mint::enc_u64(v));
    vensure_eq!(
        predicted,
        5 + 39 + 1 + 1 + want_amount_len,
        "C11:clvm_bytes_len:wrong-length",
        "calculate_generator_length for amount {v:#x}"
    );
    let actual = solution_generator([(cs.coin, cs.puzzle_reveal.as_ref(), cs.solution.as_ref())])
        .expect("solution_generator")
        .len();
    vensure_eq!(
        predicted,
        actual,
        "C11:clvm_bytes_len:differs-from-serializer",
        "predicted vs serialized generator length for amount {v:#x}"
    );
    Ok(())
}

fn check_u64_consensus(v: u64) -> CaseResult {
    // compute_coin_id + AGG_SIG_AMOUNT suffix as consensus sees them
    let mut a = Allocator::new();
    let amount_atom = mint::enc_u64(v);
    let parent = a.new_atom(&PARENT).unwrap();
    let ph = a.new_atom(&PH).unwrap();
    let amount = a.new_atom(&amount_atom).unwrap();
    let op = a.new_atom(&[AGG_SIG_AMOUNT as u8]).unwrap();
    let pk = a.new_atom(pk_bytes()).unwrap();
    let msg = a.new_atom(b"msg").unwrap();
    let nil = a.nil();
    let c = a.new_pair(msg, nil).unwrap();
    let c = a.new_pair(pk, c).unwrap();
    let cond = a.new_pair(op, c).unwrap();
    let conds = a.new_pair(cond, nil).unwrap();
    let s = a.new_pair(conds, nil).unwrap();
    let s = a.new_pair(amount, s).unwrap();
    let s = a.new_pair(ph, s).unwrap();
    let spend = a.new_pair(parent, s).unwrap();
    let spends = a.new_pair(spend, nil).unwrap();
    // generator output is ((spend ...))
    let spends = a.new_pair(spends, nil).unwrap();
    let r = parse_spends::<EmptyVisitor>(
        &a,
        spends,
        11_000_000_000,
        0,
        ConsensusFlags::DONT_VALIDATE_SIGNATURE,
        &Signature::default(),
        None,
        &TEST_CONSTANTS,
    );
    let conds = match r {
        Ok(c) => c,
        Err(e) => vfail!(
            "C11:consensus:canonical-amount-rejected",
            "parse_spends rejected a spend whose amount atom is the canonical form of {v:#x}: {e:?}"
        ),
    };
    let owned = OwnedSpendBundleConditions::from(&a, conds);
    let sp = &owned.spends[0];
    vensure_eq!(sp.coin_amount, v, "C11:consensus:amount-decoded-wrong", "coin_amount");
    let mut h = Sha256::new();
    h.update(PARENT);
    h.update(PH);
    h.update(&amount_atom);
    let expect: [u8; 32] = h.finalize().into();
    vensure!(
        sp.coin_id == Bytes32::from(expect),
        "C11:consensus:coin-id",
        "consensus coin id for amount {v:#x} differs from sha256(parent|ph|canonical amount)"
    );
    vensure!(
        sp.coin_id == Coin::new(PARENT.into(), PH.into(), v).coin_id(),
        "C11:consensus:coin-id-vs-Coin",
        "consensus coin id differs from Coin::coin_id for amount {v:#x}"
    );
    let mut m = b"msg".to_vec();
    make_aggsig_final_message(AGG_SIG_AMOUNT, &mut m, sp, &TEST_CONSTANTS);
    let mut want = b"msg".to_vec();
    want.extend_from_slice(&amount_atom);
    want.extend_from_slice(TEST_CONSTANTS.agg_sig_amount_additional_data.as_slice());
    vensure_eq!(m, want, "C11:aggsig-amount-suffix", "AGG_SIG_AMOUNT final message for amount {v:#x}");
    Ok(())
}

// --------------------------------------------------------------------------
// clvm-traits widths

/// an encoder that is *not* the allocator: it records the atom bytes exactly
/// as `Atom::as_ref()` presents them (this is what every non-allocator
/// encoder, e.g. the tree hasher, sees)
struct Recorder;
#[derive(Clone)]
struct RecNode(Vec<u8>);
impl ToClvm<Recorder> for RecNode {
    fn to_clvm(&self, _e: &mut Recorder) -> Result<RecNode, ToClvmError> {
        Ok(self.clone())
    }
}
impl ClvmEncoder for Recorder {
    type Node = RecNode;
    fn encode_atom(&mut self, atom: clvmr::Atom<'_>) -> Result<RecNode, ToClvmError> {
        Ok(RecNode(atom.as_ref().to_vec()))
    }
    fn encode_pair(&mut self, first: RecNode, rest: RecNode) -> Result<RecNode, ToClvmError> {
        let mut v = vec![0xff];
        v.extend(first.0);
        v.extend(rest.0);
        Ok(RecNode(v))
    }
}

fn atom_tree_hash(b: &[u8]) -> [u8; 32] {
    let mut h = Sha256::new();
    h.update([1u8]);
    h.update(b);
    h.finalize().into()
}

macro_rules! check_width {
    ($t:ty, $v:expr, $a:expr, $name:literal) => {{
        let v: $t = $v;
        let want = mint::enc_i128_or_u128(v as i128, (v as u128), <$t>::MIN != 0);
        let node = v.to_clvm($a).expect("to_clvm");
        let got = $a.atom(node).as_ref().to_vec();
        vensure_eq!(got, want, concat!("C11:clvm-traits:encode-", $name), "{}::to_clvm({v})", $name);
        // the same conversion through encoders other than the allocator
        let rec = v.to_clvm(&mut Recorder).expect("to_clvm recorder").0;
        vensure_eq!(rec, want, concat!("C11:clvm-traits:encode-other-encoder-", $name), "{}::to_clvm({v}) through a non-allocator encoder", $name);
        vensure!(
            v.tree_hash().to_bytes() == atom_tree_hash(&want),
            concat!("C11:clvm-traits:tree-hash-of-integer-", $name),
            "{}::tree_hash({v}) is not the hash of the canonical atom {}",
            $name,
            hex(&want)
        );
        // interpreter form of the same value
        let n2 = $a.new_number(BigInt::from(v)).expect("new_number");
        let interp = $a.atom(n2).as_ref().to_vec();
        vensure_eq!(interp, want, "C11:model-vs-interpreter", "new_number({v})");
        let back = <$t>::from_clvm($a, n2);
        vensure!(
            back.as_ref().ok() == Some(&v),
            concat!("C11:clvm-traits:decode-", $name),
            "{}::from_clvm(canonical {}) = {back:?}, want {v}",
            $name,
            hex(&want)
        );
    }};
}

/// every integer type: value `raw` truncated to the type
fn check_all_widths(raw: u128, a: &mut Allocator) -> CaseResult {
    let cp = a.checkpoint();
    check_width!(u8, raw as u8, a, "u8");
    check_width!(i8, raw as i8, a, "i8");
    check_width!(u16, raw as u16, a, "u16");
    check_width!(i16, raw as i16, a, "i16");
    check_width!(u32, raw as u32, a, "u32");
    check_width!(i32, raw as i32, a, "i32");
    check_width!(u64, raw as u64, a, "u64");
    check_width!(i64, raw as i64, a, "i64");
    check_width!(usize, raw as usize, a, "usize");
    check_width!(isize, raw as isize, a, "isize");
    check_width!(i128, raw as i128, a, "i128");
    // u128 does not fit `as i128`: handled apart
    {
        let v = raw;
        let want = mint::enc_u128(v);
        let node = v.to_clvm(a).expect("to_clvm");
        let got = a.atom(node).as_ref().to_vec();
        vensure_eq!(got, want, "C11:clvm-traits:encode-u128", "u128::to_clvm({v})");
        let rec = v.to_clvm(&mut Recorder).expect("to_clvm recorder").0;
        vensure_eq!(rec, want, "C11:clvm-traits:encode-other-encoder-u128", "u128::to_clvm({v}) through a non-allocator encoder");
        vensure!(v.tree_hash().to_bytes() == atom_tree_hash(&want), "C11:clvm-traits:tree-hash-of-integer-u128", "u128::tree_hash({v})");
        let n2 = a.new_number(BigInt::from(v)).expect("new_number");
        let interp = a.atom(n2).as_ref().to_vec();
        vensure_eq!(interp, want, "C11:model-vs-interpreter", "new_number({v})");
        let back = u128::from_clvm(a, n2);
        vensure!(
            back.as_ref().ok() == Some(&v),
            "C11:clvm-traits:decode-u128",
            "u128::from_clvm(canonical {}) = {back:?}",
            hex(&want)
        );
    }
    a.restore_checkpoint(&cp);
    Ok(())
}

// --------------------------------------------------------------------------
// decoders on arbitrary atoms

fn check_atom(atom: &[u8], a: &mut Allocator) -> CaseResult {
    let cp = a.checkpoint();
    let node = a.new_atom(atom).unwrap();
    // the same VALUE in the allocator's other storage classes: a slice of a longer
    // heap atom (what `substr` yields at run time; also for the empty atom and for
    // values that `new_atom` would store inline) and a concatenation
    let mut padded = vec![0xa5u8; 3];
    padded.extend_from_slice(atom);
    padded.extend_from_slice(&[0x5a; 2]);
    let host = a.new_atom(&padded).unwrap();
    let sliced = a.new_substr(host, 3, 3 + atom.len() as u32).unwrap();
    let mid = atom.len() / 2;
    let (h1, h2) = (a.new_atom(&atom[..mid]).unwrap(), a.new_atom(&atom[mid..]).unwrap());
    let joined = a.new_concat(atom.len(), &[h1, h2]).unwrap();
    for (node, repr) in [(node, "new_atom"), (sliced, "new_substr"), (joined, "new_concat")] {
        for width in [4usize, 8] {
            let got = sanitize_uint(a, node, width, ValidationErr::Err(ErrorCode::InvalidCoinAmount));
            let want = mint::classify_uint(atom, width);
            let ok = match (&got, &want) {
                (Ok(SanitizedUint::Ok(g)), UintClass::Ok(w)) => g == w,
                (Ok(SanitizedUint::NegativeOverflow), UintClass::Negative) => true,
                (Ok(SanitizedUint::PositiveOverflow), UintClass::TooLarge) => true,
                (Err(_), UintClass::NonCanonical) => true,
                _ => false,
            };
            vensure!(
                ok,
                "C11:sanitize_uint:wrong-class",
                "sanitize_uint(atom {} made with {repr}, width {width}) = {got:?}, rule says {want:?}",
                hex(atom)
            );
        }
    }
    for width in [4usize, 8] {
        let got = sanitize_uint(a, node, width, ValidationErr::Err(ErrorCode::InvalidCoinAmount));
        let want = mint::classify_uint(atom, width);
        let ok = match (&got, &want) {
            (Ok(SanitizedUint::Ok(g)), UintClass::Ok(w)) => g == w,
            (Ok(SanitizedUint::NegativeOverflow), UintClass::Negative) => true,
            (Ok(SanitizedUint::PositiveOverflow), UintClass::TooLarge) => true,
            (Err(_), UintClass::NonCanonical) => true,
            _ => false,
        };
        vensure!(
            ok,
            "C11:sanitize_uint:wrong-class",
            "sanitize_uint(atom {}, width {width}) = {got:?}, rule says {want:?}",
            hex(atom)
        );
    }
    // clvm-traits decoders: from the *canonical* form they must return the value;
    // a value outside the type must never be returned truncated.
    let val = mint::atom_value(atom);
    let canonical = mint::enc_bigint(&val) == atom;
    macro_rules! dec {
        ($t:ty, $name:literal) => {{
            let got = <$t>::from_clvm(a, node);
            let fits = val >= BigInt::from(<$t>::MIN) && val <= BigInt::from(<$t>::MAX);
            match got {
                Ok(g) => {
                    vensure!(
                        fits && BigInt::from(g) == val,
                        concat!("C11:clvm-traits:decode-", $name, "-truncated"),
                        "{}::from_clvm(atom {}) = {g}, but the atom's value is {val}",
                        $name,
                        hex(atom)
                    );
                }
                Err(_) => {
                    vensure!(
                        !(fits && canonical),
                        concat!("C11:clvm-traits:decode-", $name, "-rejected"),
                        "{}::from_clvm rejected canonical atom {} (value {val})",
                        $name,
                        hex(atom)
                    );
                }
            }
        }};
    }
    dec!(u8, "u8");
    dec!(i8, "i8");
    dec!(u16, "u16");
    dec!(i16, "i16");
    dec!(u32, "u32");
    dec!(i32, "i32");
    dec!(u64, "u64");
    dec!(i64, "i64");
    dec!(u128, "u128");
    dec!(i128, "i128");
    // interpreter's own reading of the atom agrees with the model's value
    let n = a.number(node);
    vensure!(n == val, "C11:model-vs-interpreter", "Allocator::number({}) = {n}, model {val}", hex(atom));
    a.restore_checkpoint(&cp);
    Ok(())
}

// --------------------------------------------------------------------------
// case functions

/// bytes = 8-byte big-endian u64
fn case_u64(bytes: &[u8], ctx: &mut Ctx) -> CaseResult {
    let mut s = Src::new(bytes);
    let v = s.u64();
    let mut a = Allocator::new();
    check_u64_cheap(v, &mut a)?;
    check_u64_len(v)?;
    check_u64_consensus(v)?;
    check_all_widths(u128::from(v), &mut a)?;
    let n = mint::enc_u64(v).len();
    ctx.label(format!("u64-bytes:{n}"));
    if v >= 0x80 {
        ctx.nontrivial(fnv(&v.to_be_bytes()));
    }
    ctx.render(|| format!("u64 {v:#x} -> canonical {}", hex(&mint::enc_u64(v))));
    Ok(())
}

/// random: pick a bit length, then random bits: spreads over every length class
fn case_random(bytes: &[u8], ctx: &mut Ctx) -> CaseResult {
    let mut s = Src::new(bytes);
    let bits = s.below(129);
    let raw = s.u128();
    let v: u128 = if bits == 0 {
        0
    } else if bits == 128 {
        raw
    } else {
        (raw & ((1u128 << bits) - 1)) | (1u128 << (bits - 1))
    };
    // ± small offsets around the power of two
    let off = s.below(5) as u128;
    let v = if s.bool() { v.wrapping_add(off) } else { v.wrapping_sub(off) };
    let mut a = Allocator::new();
    check_all_widths(v, &mut a)?;
    let v64 = v as u64;
    check_u64_cheap(v64, &mut a)?;
    check_u64_len(v64)?;
    if s.chance(64) {
        check_u64_consensus(v64)?;
    }
    ctx.label(format!("u128-bytes:{}", mint::enc_u128(v).len()));
    if v >= 0x80 {
        ctx.nontrivial(fnv(&v.to_be_bytes()));
    }
    ctx.render(|| format!("u128 {v:#x} (and its truncations to every width)"));
    ctx.ran_dry(s.ran_dry());
    Ok(())
}

/// bytes = the atom itself
fn case_atom(bytes: &[u8], ctx: &mut Ctx) -> CaseResult {
    let mut a = Allocator::new();
    check_atom(bytes, &mut a)?;
    let cls = mint::classify_uint(bytes, 8);
    ctx.label(match cls {
        UintClass::Ok(_) => "atom:ok",
        UintClass::NonCanonical => "atom:non-canonical",
        UintClass::Negative => "atom:negative",
        UintClass::TooLarge => "atom:too-large",
    });
    if bytes.len() >= 2 {
        ctx.nontrivial(fnv(bytes));
    }
    ctx.render(|| format!("atom {} -> width-8 class {:?}, width-4 class {:?}", hex(bytes), cls, mint::classify_uint(bytes, 4)));
    Ok(())
}

/// random atoms: length 0..=20 (rarely up to 64 KiB), bytes biased to the interesting alphabet
fn case_atom_random(bytes: &[u8], ctx: &mut Ctx) -> CaseResult {
    let mut s = Src::new(bytes);
    // mostly 0..=20 bytes; sometimes an oversized atom whose length lies around a
    // power of two up to 64 KiB (1 KiB is the limit of announcement messages,
    // 8 KiB and 64 KiB are serialization / caching thresholds) — every integer
    // slot of a condition can be handed such an atom
    let len = if s.chance(8) {
        let k = 5 + s.below(12);
        ((1usize << k) + s.below(5)).saturating_sub(2)
    } else {
        s.below(21)
    };
    if len > 20 {
        ctx.label(if len > 1024 { "atom-random:longer-than-1024" } else { "atom-random:21..1024" });
    }
    let mut atom = Vec::with_capacity(len);
    for _ in 0..len {
        let b = match s.below(8) {
            0 => 0x00,
            1 => 0x01,
            2 => 0x7f,
            3 => 0x80,
            4 => 0xff,
            _ => s.u8(),
        };
        atom.push(b);
    }
    ctx.ran_dry(s.ran_dry());
    case_atom(&atom, ctx)
}

/// thorough: bytes = 2-byte block index; the block is 65536 consecutive values
fn case_block(bytes: &[u8], ctx: &mut Ctx) -> CaseResult {
    let mut s = Src::new(bytes);
    let blk = u64::from(s.u16());
    let mut a = Allocator::new();
    for lo in 0..65536u64 {
        let v = (blk << 16) | lo;
        check_u64_cheap(v, &mut a)?;
    }
    ctx.add_inner(65536);
    if blk > 0 {
        ctx.nontrivial(blk);
    }
    ctx.label("block-of-65536");
    ctx.render(|| format!("all u64 values {:#x}..={:#x}", blk << 16, (blk << 16) | 0xffff));
    Ok(())
}

// --------------------------------------------------------------------------
// enumerators

fn boundary_values() -> Vec<u64> {
    let mut v: Vec<u64> = vec![];
    for d in 0..=4u64 {
        v.push(d);
        v.push(u64::MAX - d);
    }
    for k in 1..=64u32 {
        let p: u128 = 1u128 << k;
        for d in -3i128..=3 {
            let x = p as i128 + d;
            if x >= 0 && x <= i128::from(u64::MAX) {
                v.push(x as u64);
            }
        }
    }
    // all one- and two-bit patterns
    for i in 0..64 {
        for j in i..64 {
            v.push((1u64 << i) | (1u64 << j));
        }
    }
    // all 16-bit values
    for x in 0..=0xffffu64 {
        v.push(x);
    }
    // all 16-bit values shifted into each byte position's top (sign-bit neighbourhoods)
    for sh in [8u32, 16, 24, 32, 40, 48] {
        for x in (0..=0xffffu64).step_by(257) {
            v.push(x << sh);
            v.push((x << sh) | ((1u64 << sh) - 1));
        }
    }
    v.sort_unstable();
    v.dedup();
    v
}

fn enum_u64(_tier: Tier, shard: usize, n: usize, emit: &mut dyn FnMut(&[u8]) -> bool) {
    for (i, v) in boundary_values().into_iter().enumerate() {
        if i % n != shard {
            continue;
        }
        if !emit(&v.to_be_bytes()) {
            return;
        }
    }
}

const ALPHABET: [u8; 5] = [0x00, 0x01, 0x7f, 0x80, 0xff];

fn enum_atoms(tier: Tier, shard: usize, n: usize, emit: &mut dyn FnMut(&[u8]) -> bool) {
    let mut idx = 0usize;
    let mut go = |atom: &[u8]| -> bool {
        let mine = idx % n == shard;
        idx += 1;
        if mine {
            emit(atom)
        } else {
            true
        }
    };
    // all atoms of length <= 2
    if !go(&[]) {
        return;
    }
    for b in 0..=255u8 {
        if !go(&[b]) {
            return;
        }
    }
    for b0 in 0..=255u8 {
        for b1 in 0..=255u8 {
            if !go(&[b0, b1]) {
                return;
            }
        }
    }
    let maxlen = match tier {
        Tier::Quick => 10,
        Tier::Thorough => 11,
    };
    for len in 3..=maxlen {
        let total = 5usize.pow(len as u32);
        let mut atom = vec![0u8; len];
        for mut k in 0..total {
            for slot in atom.iter_mut().rev() {
                *slot = ALPHABET[k % 5];
                k /= 5;
            }
            if !go(&atom) {
                return;
            }
        }
    }
}

fn enum_blocks(tier: Tier, shard: usize, n: usize, emit: &mut dyn FnMut(&[u8]) -> bool) {
    // quick: the first 2^27 values (2048 blocks); thorough: all values < 2^32
    let blocks: u32 = match tier {
        Tier::Quick => 2048,
        Tier::Thorough => 65536,
    };
    for b in 0..blocks {
        if b as usize % n != shard {
            continue;
        }
        if !emit(&(b as u16).to_be_bytes()) {
            return;
        }
    }
}

fn main() {
    let prop = Property {
        id: "C11",
        rule: "cases are integer values (enumerated boundaries: every 2^k±3, all 1- and 2-bit patterns, all 16-bit values, shifted 16-bit patterns; random u128 with uniformly chosen bit length; blocks of 65536 consecutive values) run through every encoder and decoder, and atoms (all of length ≤2, all of length 3..10 (11 thorough) over {00,01,7f,80,ff}, random ≤20 bytes) run through every decoder. Non-trivial = value ≥ 0x80 or atom length ≥ 2 (past the single-byte class); distinct by value / atom bytes / block index.",
        assumptions: &[
            "reference = arithmetic model (num-bigint two's complement) cross-checked against clvmr Allocator::new_number/number in every case",
            "clvm_bytes_len is private and observed through calculate_generator_length and the real serializer",
            "compute_coin_id is private and observed through parse_spends",
        ],
        subchecks: vec![
            SubCheck {
                name: "u64-boundaries",
                about: "enumerated boundary u64 values through every encoder/decoder incl. consensus coin id and AGG_SIG_AMOUNT suffix",
                source: Source::Enumerate { f: enum_u64, exhaustive: true },
                run: case_u64,
                inflight: false,
                min_nontrivial: 60_000,
                required_labels: &["u64-bytes:9", "u64-bytes:1", "u64-bytes:5"],
            },
            SubCheck {
                name: "atoms-enumerated",
                about: "all short atoms / all atoms over {00,01,7f,80,ff} through sanitize_uint(4,8) and clvm-traits decoders",
                source: Source::Enumerate { f: enum_atoms, exhaustive: true },
                run: case_atom,
                inflight: false,
                min_nontrivial: 1_000_000,
                required_labels: &["atom:ok", "atom:non-canonical", "atom:negative", "atom:too-large"],
            },
            SubCheck {
                name: "values-random",
                about: "random u128 with random bit length ± small offsets, truncated to every width",
                source: Source::Random { len: 24, quick: 4_000_000, thorough: 60_000_000 },
                run: case_random,
                inflight: false,
                min_nontrivial: 100_000,
                required_labels: &[],
            },
            SubCheck {
                name: "atoms-random",
                about: "random atoms up to 20 bytes (3% oversized: 30 bytes .. 64 KiB around powers of two) biased to {00,01,7f,80,ff}",
                source: Source::Random { len: 48, quick: 6_000_000, thorough: 100_000_000 },
                run: case_atom_random,
                inflight: false,
                min_nontrivial: 100_000,
                required_labels: &["atom-random:longer-than-1024", "atom-random:21..1024"],
            },
            SubCheck {
                name: "u64-dense",
                about: "every value below 2^27 (quick) / 2^32 (thorough) through u64_to_bytes, Coin::coin_id, clvm-traits and the interpreter form",
                source: Source::Enumerate { f: enum_blocks, exhaustive: true },
                run: case_block,
                inflight: false,
                min_nontrivial: 2000,
                required_labels: &[],
            },
        ],
        death_is_violation: false,
    };
    engine::main(prop);
}
