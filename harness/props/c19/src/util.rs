//! Small tree helpers private to C19: an owned s-expression type for
//! generators, a plain CLVM deserializer into the arena, path access /
//! replacement, incremental reference tree hashing, and the bundle runner.

use chia_bls::Signature;
use chia_consensus::consensus_constants::TEST_CONSTANTS;
use chia_consensus::flags::ConsensusFlags;
use chia_consensus::owned_conditions::OwnedSpendBundleConditions;
use chia_consensus::spendbundle_conditions::run_spendbundle;
use chia_protocol::{Coin, CoinSpend, Program, SpendBundle};
use clvmr::Allocator;
use vcore::gentree::{TNode, Tid, Tree};
use vcore::model::int::enc_u64;
use vcore::model::treehash::{hash_atom, hash_pair};
use vcore::proglevel;

/// owned s-expression used by the generators
#[derive(Clone, Debug, PartialEq, Eq)]
pub enum N {
    A(Vec<u8>),
    /// proper list
    L(Vec<N>),
    /// improper list: items . tail
    I(Vec<N>, Box<N>),
}

pub fn a(b: &[u8]) -> N {
    N::A(b.to_vec())
}
pub fn int(v: u64) -> N {
    N::A(enc_u64(v))
}
pub fn nil() -> N {
    N::A(vec![])
}
pub fn pair(l: N, r: N) -> N {
    N::I(vec![l], Box::new(r))
}

impl N {
    pub fn to_tree(&self, t: &mut Tree) -> Tid {
        match self {
            N::A(b) => t.atom(b),
            N::L(items) => {
                let ids: Vec<Tid> = items.iter().map(|x| x.to_tree(t)).collect();
                t.list(&ids)
            }
            N::I(items, tail) => {
                let ids: Vec<Tid> = items.iter().map(|x| x.to_tree(t)).collect();
                let tl = tail.to_tree(t);
                t.list_with_tail(&ids, tl)
            }
        }
    }
    pub fn atom(&self) -> Option<&Vec<u8>> {
        match self {
            N::A(b) => Some(b),
            _ => None,
        }
    }
    /// mutable references to every atom below (pre-order)
    pub fn atoms_mut<'a>(&'a mut self, out: &mut Vec<&'a mut Vec<u8>>) {
        match self {
            N::A(b) => out.push(b),
            N::L(items) => {
                for i in items {
                    i.atoms_mut(out);
                }
            }
            N::I(items, tail) => {
                for i in items {
                    i.atoms_mut(out);
                }
                tail.atoms_mut(out);
            }
        }
    }
}

/// plain CLVM deserialization (no back-references) into the arena, written
/// from the format definition; panics on malformed input (only used on the
/// repository's constants and recorded spends)
pub fn parse_clvm(bytes: &[u8], t: &mut Tree) -> Tid {
    enum Op {
        Parse,
        Cons,
    }
    let mut ops = vec![Op::Parse];
    let mut vals: Vec<Tid> = vec![];
    let mut pos = 0usize;
    while let Some(op) = ops.pop() {
        match op {
            Op::Parse => {
                let b = bytes[pos];
                pos += 1;
                if b == 0xff {
                    ops.push(Op::Cons);
                    ops.push(Op::Parse);
                    ops.push(Op::Parse);
                } else if b == 0xfe {
                    panic!("back-reference in plain serialization");
                } else if b == 0x80 {
                    vals.push(t.atom(&[]));
                } else if b < 0x80 {
                    vals.push(t.atom(&[b]));
                } else {
                    let (extra, first) = if b & 0xc0 == 0x80 {
                        (0, usize::from(b & 0x3f))
                    } else if b & 0xe0 == 0xc0 {
                        (1, usize::from(b & 0x1f))
                    } else if b & 0xf0 == 0xe0 {
                        (2, usize::from(b & 0x0f))
                    } else if b & 0xf8 == 0xf0 {
                        (3, usize::from(b & 0x07))
                    } else {
                        (4, usize::from(b & 0x03))
                    };
                    let mut len = first;
                    for _ in 0..extra {
                        len = (len << 8) | usize::from(bytes[pos]);
                        pos += 1;
                    }
                    vals.push(t.atom(&bytes[pos..pos + len]));
                    pos += len;
                }
            }
            Op::Cons => {
                let r = vals.pop().unwrap();
                let l = vals.pop().unwrap();
                vals.push(t.pair(l, r));
            }
        }
    }
    assert_eq!(pos, bytes.len(), "trailing bytes after CLVM value");
    vals.pop().unwrap()
}

pub const L: u8 = 0;
pub const R: u8 = 1;

pub fn get_at(t: &Tree, mut id: Tid, path: &[u8]) -> Option<Tid> {
    for d in path {
        let (l, r) = t.pair_of(id)?;
        id = if *d == L { l } else { r };
    }
    Some(id)
}

/// a new root equal to `root` with the node at `path` replaced by `new`
pub fn replace_at(t: &mut Tree, root: Tid, path: &[u8], new: Tid) -> Option<Tid> {
    let mut spine: Vec<(Tid, Tid, u8)> = vec![];
    let mut id = root;
    for d in path {
        let (l, r) = t.pair_of(id)?;
        spine.push((l, r, *d));
        id = if *d == L { l } else { r };
    }
    let mut cur = new;
    for (l, r, d) in spine.into_iter().rev() {
        cur = if d == L { t.pair(cur, r) } else { t.pair(l, cur) };
    }
    Some(cur)
}

/// arena + incrementally maintained reference tree hashes
#[derive(Clone)]
pub struct HT {
    pub t: Tree,
    pub h: Vec<[u8; 32]>,
}

impl HT {
    pub fn new() -> Self {
        HT { t: Tree::new(), h: vec![] }
    }
    pub fn hash(&mut self, id: Tid) -> [u8; 32] {
        while self.h.len() <= id as usize {
            let i = self.h.len();
            let v = match &self.t.nodes[i] {
                TNode::Atom(b) => hash_atom(b),
                TNode::Pair(l, r) => hash_pair(&self.h[*l as usize], &self.h[*r as usize]),
            };
            self.h.push(v);
        }
        self.h[id as usize]
    }
}

/// tree hash of `(a (q . MOD) (c (q . A1) (c (q . A2) … 1)))` from the hashes
/// of its parts, written from the definition of the curried form
pub fn curry_hash(mod_hash: &[u8; 32], arg_hashes: &[[u8; 32]]) -> [u8; 32] {
    let nil = hash_atom(&[]);
    let q = hash_atom(&[1]);
    let mut acc = hash_atom(&[1]);
    for ah in arg_hashes.iter().rev() {
        let quoted = hash_pair(&q, ah);
        // (c quoted acc) = (4 . (quoted . (acc . ())))
        acc = hash_pair(&hash_atom(&[4]), &hash_pair(&quoted, &hash_pair(&acc, &nil)));
    }
    let quoted_mod = hash_pair(&q, mod_hash);
    hash_pair(&hash_atom(&[2]), &hash_pair(&quoted_mod, &hash_pair(&acc, &nil)))
}

pub type Coin3 = ([u8; 32], [u8; 32], u64);

pub fn coin_of(c: &Coin3) -> Coin {
    Coin::new(c.0.into(), c.1.into(), c.2)
}

pub fn hex(b: &[u8]) -> String {
    let mut s = String::new();
    for x in b.iter().take(40) {
        s.push_str(&format!("{x:02x}"));
    }
    if b.len() > 40 {
        s.push('…');
    }
    s
}

pub fn coin_str(c: &Coin3) -> String {
    format!("(parent={} ph={} amount={})", hex(&c.0), hex(&c.1), c.2)
}

/// run a bundle of (coin, puzzle bytes, solution bytes) through
/// `run_spendbundle`; the summary has `create_coin` sorted
pub fn run_bundle(spends: &[(Coin3, Vec<u8>, Vec<u8>)], flags: ConsensusFlags) -> Result<OwnedSpendBundleConditions, String> {
    let css: Vec<CoinSpend> = spends
        .iter()
        .map(|(c, p, s)| CoinSpend::new(coin_of(c), Program::from(p.clone()), Program::from(s.clone())))
        .collect();
    let bundle = SpendBundle::new(css, Signature::default());
    let mut a = Allocator::new();
    match run_spendbundle(&mut a, &bundle, 11_000_000_000, flags, &TEST_CONSTANTS) {
        Ok((c, _)) => Ok(proglevel::owned(&a, c)),
        Err(e) => Err(format!("{:?}", e.error_code())),
    }
}
