//! C19 — mempool rewrites (fast-forward, dedup) preserve spend validity and
//! meaning.

pub mod dedup;
pub mod ff;
mod util;

use vcore::engine::{Property, Source, SubCheck};

pub fn property() -> Property {
    Property {
        id: "C19",
        rule: "(1) fast-forward: a case is a genuine singleton spend — the real singleton_top_layer_v1_1 program curried with a random singleton struct and an inner puzzle (q . conditions) holding exactly one odd CREATE_COIN plus 0-8 other conditions (even outputs, announcements, assertions of a helper spend's announcements, locks, hints of every shape, REMARKs, AGG_SIGs, messages), a consistent lineage proof and coin, or one of the two recorded ff-tests spends — together with a rebase target (new parent's parent, odd new-parent and new-coin amounts of every encoding length 1..9 bytes), an allocator representation mode, and ONE of 27 corruptions that provably make the input non-genuine (23 single-field ones; 4 in which the three coins carry the puzzle hash of a sibling singleton that differs from the reveal in one curried component). Non-trivial = fast_forward_singleton returned Ok on the genuine input, the original spend runs through run_spendbundle, and the rewritten spend was re-run and compared; distinct by (puzzle, rewritten solution, coin). (2) dedup pairs: (L, L') for the same coin (tagged-identity puzzle, the list is the solution), L valid by construction next to a helper spend, L' = L under one of 15 mutations (atom changed, bytes moved across an atom or condition boundary, hint shape, memo added, REMARK argument, swap, integer re-encoded, ...). Non-trivial = both accepted in MEMPOOL_MODE|COMPUTE_FINGERPRINT and both ELIGIBLE_FOR_DEDUP (the premise could be examined); distinct by (L, L', coin). (3) eligibility: bundles of the shared generator and targeted one-coin lists with AGG_SIG / message / created-value features; non-trivial = accepted bundle with at least one condition.",
        assumptions: &[
            "clvmr executes the singleton program correctly; run_spendbundle's verdict on the helper-accompanied bundle is taken as 'the spend runs' (condition rules themselves are decided by C01)",
            "puzzle hashes, coin ids and curried hashes are computed by the harness (reference tree hash, sha256), never by the code under test",
            "that genuine inputs are rewritten at all is a non-vacuity floor (required label ff:rewritten), not an assertion about chia_rs",
            "parsed conditions = known opcodes with the arguments the rules consume, integers by value, hint = first memo iff atom of 1..=32 bytes; REMARK and always-true absolute locks have no meaning; execution/byte cost is not part of the comparison",
        ],
        subchecks: vec![
            SubCheck {
                name: "fast-forward",
                about: "fast_forward_singleton: Ok => raw-tree diff limited to three atoms, re-run as spend of new_coin succeeds with identical created coins; every corruption refused",
                source: Source::Random { len: 1024, quick: 350_000, thorough: 7_000_000 },
                run: ff::case_ff,
                inflight: false,
                min_nontrivial: 150_000,
                required_labels: &[
                    "ff:original-runs",
                    "ff:rewritten",
                    "ff:rerun-ok",
                    "ff:source:generated",
                    "ff:source:e3c0",
                    "ff:source:bb13",
                    "ff:new-amount-bytes:1",
                    "ff:new-amount-bytes:9",
                    "corrupt:coin-amount-even",
                    "corrupt:new-coin-amount-even",
                    "corrupt:all-coins-other-puzzle-hash",
                    "corrupt:parent-inner-puzzle-differs",
                    "corrupt:lineage-amount-wrong",
                    "corrupt:new-coin-parent-not-new-parent-id",
                    "corrupt:struct-mod-hash-wrong-consistent",
                    "corrupt:outer-program-not-singleton-consistent",
                    "corrupt:eve-proof-genuine",
                    "corrupt:coins-carry-hash-of-sibling-puzzle:other-launcher-puzzle-hash",
                    "corrupt:coins-carry-hash-of-sibling-puzzle:other-launcher-id",
                    "corrupt:coins-carry-hash-of-sibling-puzzle:other-inner-puzzle",
                    "corrupt:coins-and-lineage-follow-sibling-puzzle:other-launcher-puzzle-hash",
                ],
            },
            SubCheck {
                name: "dedup-fingerprint",
                about: "equal fingerprints of two accepted, eligible spends of the same coin => equal parsed condition sequences and summaries",
                source: Source::Random { len: 512, quick: 3_000_000, thorough: 30_000_000 },
                run: dedup::case_pairs,
                inflight: false,
                min_nontrivial: 1_000_000,
                required_labels: &[
                    "pair:both-eligible",
                    "ff-like:recreates-itself-and-asserts-parent-second",
                    "fingerprints-equal",
                    "fingerprints-equal:lists-differ",
                    "fingerprints-equal:lists-differ:hint-shape",
                    "fingerprints-equal:lists-differ:memo-added",
                    "fingerprints-equal:lists-differ:remark-arg-changed",
                    "fingerprints-equal:hint-empty-computed",
                    "puzzle:apply-first-of-solution",
                    "fingerprints-differ:bytes-moved:absorb-next-condition",
                    "fingerprints-differ:bytes-moved:amount-hint",
                    "fingerprints-differ:bytes-moved:arg-absorbs-remark",
                    "fingerprints-differ:bytes-moved:two-announcements",
                    "fingerprints-differ:atom-changed-valid",
                    "fingerprints-differ:conditions-swapped",
                    "fingerprints-differ:hint-shape",
                ],
            },
            SubCheck {
                name: "dedup-eligibility",
                about: "ELIGIBLE_FOR_DEDUP set => no AGG_SIG_*, no SEND/RECEIVE_MESSAGE, created value >= coin amount (independent scan of the emitted list)",
                source: Source::Random { len: 1536, quick: 2_000_000, thorough: 20_000_000 },
                run: dedup::case_eligibility,
                inflight: false,
                min_nontrivial: 800_000,
                required_labels: &[
                    "source:shared-bundle",
                    "source:targeted",
                    "flags:compute-fingerprint",
                    "flags:no-fingerprint",
                    "elig:set:created-equals-amount",
                    "elig:set:created-exceeds-amount",
                    "elig:clear:agg-sig",
                    "elig:clear:message",
                    "elig:clear:created-one-less",
                ],
            },
        ],
        death_is_violation: false,
    }
}
