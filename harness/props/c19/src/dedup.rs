//! C19 (2) dedup fingerprint injectivity and (3) dedup eligibility.
//!
//! A case is a pair of condition lists (L, L′) for the *same coin* (a
//! tagged-identity puzzle whose solution is the list), L′ derived from L by
//! one labelled mutation. A fixed helper spend accompanies the coin in both
//! bundles: it supplies value, makes the announcements L may assert and is
//! the target of concurrent-spend assertions, so that most lists are valid.

use crate::util::{a, hex, int, nil, pair, run_bundle, Coin3, N};
use chia_consensus::flags::{ConsensusFlags, MEMPOOL_MODE};
use chia_consensus::owned_conditions::{OwnedSpendBundleConditions, OwnedSpendConditions};
use vcore::condgen::{self, GenCfg};
use vcore::engine::{CaseResult, Ctx};
use vcore::gentree::{Tid, Tree};
use vcore::model::conditions as mc;
use vcore::model::int::{classify_uint, UintClass};
use vcore::{vensure, Fnv, Src};

pub struct Env {
    /// the main coin's puzzle is `(a 2 3)` (run the first solution element as a
    /// program) instead of a tagged identity
    pub apply_puzzle: bool,
    pub main: Coin3,
    pub main_id: [u8; 32],
    pub main_tag: u8,
    pub helper: Coin3,
    pub helper_id: [u8; 32],
    pub helper_tag: u8,
}

const MSGS: [&[u8]; 4] = [b"", b"hello", &[0x42; 32], &[1]];

/// `(a 2 3)`: runs the first element of the solution with the rest as its
/// environment — lets a condition list contain *computed* atoms
fn apply_puzzle() -> &'static (Vec<u8>, [u8; 32]) {
    static P: std::sync::OnceLock<(Vec<u8>, [u8; 32])> = std::sync::OnceLock::new();
    P.get_or_init(|| {
        let mut t = Tree::new();
        let p = N::L(vec![a(&[2]), a(&[2]), a(&[3])]).to_tree(&mut t);
        (t.serialize(p), vcore::model::treehash::tree_hash(&t, p))
    })
}

fn gen_env(s: &mut Src<'_>, apply: bool) -> Env {
    let phs = condgen::tag_puzzle_hashes();
    let main_tag = s.below(3) as u8 + 1;
    let helper_tag = s.below(3) as u8 + 4;
    let mut parent = [0x31u8; 32];
    parent[31] = s.below(4) as u8;
    let amount = match s.weighted(&[6, 4, 3, 2]) {
        0 => *s.pick(&[1u64, 0, 2, 100, 0x7f, 0x80, 0xff, 0x100, 0xffff, 0x1_0000, 1_000_000_000_000]),
        1 => s.below(1000) as u64,
        2 => condgen::interesting_u64(s) >> 2,
        _ => s.u64() >> 4,
    };
    let main: Coin3 = (parent, if apply { apply_puzzle().1 } else { phs[(main_tag - 1) as usize] }, amount);
    let helper: Coin3 = ([0xee; 32], phs[(helper_tag - 1) as usize], u64::MAX);
    Env {
        apply_puzzle: apply,
        main,
        main_id: mc::coin_id(&main.0, &main.1, main.2),
        main_tag,
        helper,
        helper_id: mc::coin_id(&helper.0, &helper.1, helper.2),
        helper_tag,
    }
}

fn pool_ph(k: usize) -> [u8; 32] {
    let mut ph = [0x60u8; 32];
    ph[31] = k as u8;
    ph
}

fn hint32(x: u8) -> Vec<u8> {
    let mut h = vec![0x77u8; 32];
    h[0] = x;
    h
}

pub const MEMO_SHAPES: [&str; 11] = ["absent", "nil-list", "hint32", "hint-short", "hint33", "empty-first", "pair-first", "improper", "several", "atom-memos", "hint31"];

fn memo_shape(k: usize, x: u8) -> Option<N> {
    match k {
        0 => None,
        1 => Some(nil()),
        2 => Some(N::L(vec![N::A(hint32(x))])),
        3 => Some(N::L(vec![a(&[0x99, x][..1 + usize::from(x & 1)])])),
        4 => Some(N::L(vec![a(&[0x55; 33])])),
        5 => Some(N::L(vec![nil()])),
        6 => Some(N::L(vec![pair(a(&[1]), a(&[2]))])),
        7 => Some(N::I(vec![N::A(hint32(x))], Box::new(a(&[8])))),
        8 => Some(N::L(vec![N::A(hint32(x)), a(b"memo2"), a(&[0x11; 40])])),
        9 => Some(N::A(hint32(x))),
        _ => Some(N::L(vec![N::A(hint32(x)[..31].to_vec())])),
    }
}

fn create_coin(ph: &[u8; 32], amount: u64, memos: Option<N>) -> N {
    let mut v = vec![a(&[51]), a(ph), int(amount)];
    if let Some(m) = memos {
        v.push(m);
    }
    N::L(v)
}

fn after_value(s: &mut Src<'_>) -> N {
    if s.chance(50) {
        let n = s.range(1, 3);
        let mut b = s.bytes(n);
        b[0] |= 0x80;
        N::A(b)
    } else {
        int(s.below(100) as u64)
    }
}

fn before_value(s: &mut Src<'_>) -> N {
    if s.chance(50) {
        N::A(vec![1, 0, 0, 0, 0, 0, 0, 0, s.u8()])
    } else {
        int(1000 + s.below(60000) as u64)
    }
}

fn remark(s: &mut Src<'_>) -> N {
    let k = s.below(3);
    let mut v = vec![a(&[1])];
    for _ in 0..k {
        if s.chance(40) {
            v.push(N::L(vec![a(b"x"), a(&[s.u8()])]));
        } else {
            let len = s.below(6);
            v.push(N::A(s.bytes(len)));
        }
    }
    N::L(v)
}

fn rand_msg(s: &mut Src<'_>) -> Vec<u8> {
    match s.below(4) {
        0 => MSGS[s.below(MSGS.len())].to_vec(),
        1 => vec![s.u8()],
        _ => {
            let len = s.below(12);
            s.bytes(len)
        }
    }
}

/// a condition list for the main coin that is valid (given the helper spend)
/// by construction. Returns the list and the extra helper conditions needed
/// (message counterparts; only with `allow_ineligible`).
fn gen_list(s: &mut Src<'_>, env: &Env, allow_ineligible: bool, labels: &mut Vec<String>) -> (Vec<N>, Vec<N>) {
    let mut conds: Vec<N> = vec![];
    let mut helper_extra: Vec<N> = vec![];
    let amt = env.main.2;
    // ---- outputs
    let mode = if allow_ineligible { s.weighted(&[6, 4, 4, 6, 2, 4]) } else { s.weighted(&[10, 5, 4, 1, 1, 0]) };
    let mut outs: Vec<u64> = match mode {
        0 => vec![amt],
        1 => {
            let x = ((u128::from(s.u64()) * u128::from(amt)) >> 64) as u64;
            vec![x, amt - x]
        }
        2 => vec![amt.saturating_add(1 + s.below(1000) as u64)],
        3 => {
            if amt == 0 {
                vec![]
            } else {
                vec![amt - 1]
            }
        }
        4 => vec![],
        _ => vec![amt / 2, amt / 2 + (amt & 1) + if s.bool() { 0 } else { 1 }],
    };
    labels.push(format!("outputs-plan:{}", ["equal", "split-equal", "more", "one-less", "none", "split-near"][mode]));
    if s.chance(60) {
        outs.push(s.below(500) as u64);
    }
    let mut used: Vec<([u8; 32], u64)> = vec![];
    // singleton-like spends: an odd coin that recreates ITSELF (same puzzle hash,
    // same amount) and asserts its own parent id as its second condition — what
    // makes a spend eligible for fast-forward as well as for dedup
    let ff_like = amt & 1 == 1 && s.chance(70);
    if ff_like {
        labels.push("ff-like:recreates-itself-and-asserts-parent-second".into());
        used.push((env.main.1, amt));
        let shape = s.below(MEMO_SHAPES.len());
        conds.push(create_coin(&env.main.1, amt, memo_shape(shape, s.u8())));
        outs.retain(|o| *o == 0 || *o < 500);
        outs.truncate(1);
        if outs.first() == Some(&amt) {
            outs.clear();
        }
    }
    for o in outs {
        let mut k = s.below(4);
        while used.contains(&(pool_ph(k), o)) {
            k += 1;
        }
        used.push((pool_ph(k), o));
        let shape = s.below(MEMO_SHAPES.len());
        conds.push(create_coin(&pool_ph(k), o, memo_shape(shape, s.u8())));
    }
    // ---- other conditions
    let n = match s.weighted(&[4, 6, 6, 3]) {
        0 => 0,
        1 => s.range(1, 2),
        2 => s.range(2, 4),
        _ => s.range(4, 7),
    };
    for _ in 0..n {
        let w_inel = if allow_ineligible { 3 } else { 0 };
        let c = match s.weighted(&[3, 8, 6, 4, 4, 2, 2, 4, 8, 8, 3, 6, w_inel, w_inel, w_inel]) {
            0 => N::L(vec![a(&[52]), int(s.below(1000) as u64)]),
            1 => N::L(vec![a(&[60]), N::A(rand_msg(s))]),
            2 => N::L(vec![a(&[62]), N::A(rand_msg(s))]),
            3 => N::L(vec![a(&[61]), a(&condgen::sha(&[&env.helper_id, MSGS[s.below(MSGS.len())]]))]),
            4 => N::L(vec![a(&[63]), a(&condgen::sha(&[&env.helper.1, MSGS[s.below(MSGS.len())]]))]),
            5 => N::L(vec![a(&[64]), a(if s.bool() { &env.helper_id } else { &env.main_id })]),
            6 => N::L(vec![a(&[65]), a(if s.bool() { &env.helper.1 } else { &env.main.1 })]),
            7 => match s.below(4) {
                0 => N::L(vec![a(&[70]), a(&env.main_id)]),
                1 => N::L(vec![a(&[71]), a(&env.main.0)]),
                2 => N::L(vec![a(&[72]), a(&env.main.1)]),
                _ => N::L(vec![a(&[73]), int(env.main.2)]),
            },
            8 => {
                let op = *s.pick(&[80u8, 81, 82, 83]);
                N::L(vec![a(&[op]), after_value(s)])
            }
            9 => {
                let op = *s.pick(&[84u8, 85, 86, 87]);
                N::L(vec![a(&[op]), before_value(s)])
            }
            10 => {
                if s.bool() {
                    N::L(vec![a(&[74]), int(1_700_000_000)])
                } else {
                    N::L(vec![a(&[75]), int(4_000_000)])
                }
            }
            11 => remark(s),
            12 => {
                let op = *s.pick(&[43u8, 44, 45, 46, 47, 48, 49, 50]);
                let key = condgen::key_pool().pks[s.below(condgen::NUM_KEYS)];
                N::L(vec![a(&[op]), a(&key), N::A(rand_msg(s))])
            }
            13 => {
                // SEND_MESSAGE main -> helper (sender by puzzle hash, receiver by coin id)
                let m = rand_msg(s);
                helper_extra.push(N::L(vec![a(&[67]), a(&[0x17]), N::A(m.clone()), a(&env.main.1)]));
                N::L(vec![a(&[66]), a(&[0x17]), N::A(m), a(&env.helper_id)])
            }
            _ => {
                // RECEIVE_MESSAGE helper -> main (sender by coin id, receiver by parent+amount)
                let m = rand_msg(s);
                helper_extra.push(N::L(vec![a(&[66]), a(&[0x3d]), N::A(m.clone()), a(&env.main.0), int(env.main.2)]));
                N::L(vec![a(&[67]), a(&[0x3d]), N::A(m), a(&env.helper_id)])
            }
        };
        conds.push(c);
    }
    if conds.len() > 1 {
        let r = s.below(conds.len());
        conds.rotate_left(r);
    }
    if ff_like {
        conds.retain(|c| op_of(c) != Some(71));
        let at = conds.len().min(1);
        conds.insert(at, N::L(vec![a(&[71]), a(&env.main.0)]));
    }
    (conds, helper_extra)
}

fn helper_solution(extra: &[N]) -> Vec<u8> {
    let mut conds: Vec<N> = vec![];
    for m in MSGS {
        conds.push(N::L(vec![a(&[60]), a(m)]));
        conds.push(N::L(vec![a(&[62]), a(m)]));
    }
    conds.extend_from_slice(extra);
    let mut t = Tree::new();
    let root = N::L(conds).to_tree(&mut t);
    t.serialize(root)
}

fn puzzle_bytes(tag: u8) -> Vec<u8> {
    let mut t = Tree::new();
    let p = condgen::tagged_identity(&mut t, tag);
    t.serialize(p)
}

// ---------------------------------------------------------------------------
// independent reading of a condition list

/// one parsed condition as the rules read it (meaning, not bytes)
#[derive(Clone, Debug, PartialEq, Eq)]
pub enum NC {
    CreateCoin([u8; 32], u64, Option<Vec<u8>>),
    /// opcode, value (RESERVE_FEE, ASSERT_MY_AMOUNT, birth, locks with a real value)
    Int(u8, u64),
    /// a relative lock that is always true (negative "after" / too large "before")
    AlwaysTrueRelative(u8),
    /// opcode and its byte-string argument (announcements, assertions of ids)
    Bytes(u8, Vec<u8>),
    Ephemeral,
    AggSig(u8, Vec<u8>, Vec<u8>),
    Message(u8, Vec<Vec<u8>>),
    /// something the reader cannot interpret (never expected on accepted lists)
    Unreadable(Vec<u8>),
}

pub struct Scan {
    pub seq: Vec<NC>,
    pub has_agg_sig: bool,
    pub has_message: bool,
    pub created: u128,
    pub n_conditions: usize,
}

/// read a condition list by the rules: known opcodes with the arguments they
/// consume, canonical integer values, the hint per the value rule (first memo
/// iff it is an atom of 1..=32 bytes), REMARK and always-true absolute locks
/// dropped, everything beyond the consumed arguments ignored
pub fn scan(t: &Tree, list: Tid) -> Scan {
    let (items, _) = t.list_items(list);
    let mut out = Scan { seq: vec![], has_agg_sig: false, has_message: false, created: 0, n_conditions: items.len() };
    for c in items {
        let (fields, _) = t.list_items(c);
        let unreadable = |out: &mut Scan| out.seq.push(NC::Unreadable(t.serialize(c)));
        let Some(op) = fields.first().and_then(|o| t.atom_bytes(*o)) else {
            unreadable(&mut out);
            continue;
        };
        if op.len() != 1 {
            unreadable(&mut out);
            continue;
        }
        let op = op[0];
        let arg = |k: usize| fields.get(k).and_then(|x| t.atom_bytes(*x));
        match op {
            1 => {}
            43..=50 => {
                out.has_agg_sig = true;
                match (arg(1), arg(2)) {
                    (Some(k), Some(m)) => out.seq.push(NC::AggSig(op, k.to_vec(), m.to_vec())),
                    _ => unreadable(&mut out),
                }
            }
            66 | 67 => {
                out.has_message = true;
                out.seq.push(NC::Message(op, fields[1..].iter().map(|x| t.atom_bytes(*x).map_or_else(|| t.serialize(*x), <[u8]>::to_vec)).collect()));
            }
            51 => {
                let (Some(ph), Some(am)) = (arg(1), arg(2)) else {
                    unreadable(&mut out);
                    continue;
                };
                let (Ok(ph), UintClass::Ok(v)) = (<[u8; 32]>::try_from(ph), classify_uint(am, 8)) else {
                    unreadable(&mut out);
                    continue;
                };
                let mut hint = None;
                if let Some(memos) = fields.get(3) {
                    if let Some((m0, _)) = t.pair_of(*memos) {
                        if let Some(b) = t.atom_bytes(m0) {
                            if !b.is_empty() && b.len() <= 32 {
                                hint = Some(b.to_vec());
                            }
                        }
                    }
                }
                out.created += u128::from(v);
                out.seq.push(NC::CreateCoin(ph, v, hint));
            }
            76 => out.seq.push(NC::Ephemeral),
            60..=65 | 70..=72 => match arg(1) {
                Some(b) => out.seq.push(NC::Bytes(op, b.to_vec())),
                None => unreadable(&mut out),
            },
            52 | 73 | 74 | 75 | 80..=87 => {
                let Some(b) = arg(1) else {
                    unreadable(&mut out);
                    continue;
                };
                let width = if matches!(op, 75 | 82 | 83 | 86 | 87) { 4 } else { 8 };
                match (classify_uint(b, width), op) {
                    (UintClass::Ok(v), _) => out.seq.push(NC::Int(op, v)),
                    // always true: no effect at all for absolute locks
                    (UintClass::Negative, 81 | 83) | (UintClass::TooLarge, 85 | 87) => {}
                    (UintClass::Negative, 80 | 82) | (UintClass::TooLarge, 84 | 86) => out.seq.push(NC::AlwaysTrueRelative(op)),
                    _ => unreadable(&mut out),
                }
            }
            _ => unreadable(&mut out),
        }
    }
    out
}

// ---------------------------------------------------------------------------
// mutations L -> L'

pub const MUTATIONS: [&str; 16] = [
    "identical",
    "atom-changed-valid",
    "atom-bytes-edited",
    "bytes-moved:absorb-next-condition",
    "bytes-moved:amount-hint",
    "bytes-moved:arg-absorbs-remark",
    "hint-shape",
    "memo-added",
    "remark-arg-changed",
    "conditions-swapped",
    "int-reencoded",
    "condition-removed",
    "condition-duplicated",
    "opcode-changed",
    "bytes-moved:two-announcements",
    "hint-empty-computed",
];

fn op_of(c: &N) -> Option<u8> {
    match c {
        N::L(v) | N::I(v, _) => v.first().and_then(N::atom).filter(|b| b.len() == 1).map(|b| b[0]),
        N::A(_) => None,
    }
}

fn items_mut(c: &mut N) -> Option<&mut Vec<N>> {
    match c {
        N::L(v) | N::I(v, _) => Some(v),
        N::A(_) => None,
    }
}

/// the bytes a fingerprint without framing would see for a condition: opcode
/// followed by the atoms the condition consumes
fn flat(c: &N) -> Option<Vec<u8>> {
    let op = op_of(c)?;
    let N::L(v) = c else { return None };
    let mut out = vec![op];
    let consumed = match op {
        1 | 76 => 0,
        51 => 2,
        52 | 60..=65 | 70..=75 | 80..=87 => 1,
        _ => return None,
    };
    for k in 1..=consumed {
        out.extend_from_slice(v.get(k)?.atom()?);
    }
    if op == 51 {
        if let Some(N::L(m)) = v.get(3) {
            if let Some(N::A(h)) = m.first() {
                if h.len() <= 32 {
                    out.extend_from_slice(h);
                }
            }
        }
    }
    Some(out)
}

fn alt_value(s: &mut Src<'_>, env: &Env, op: u8, k: usize, cur: &N) -> N {
    let flip = |cur: &N, s: &mut Src<'_>| -> N {
        let mut b = cur.atom().cloned().unwrap_or_default();
        if b.is_empty() {
            b.push(1);
        } else {
            let i = s.below(b.len());
            b[i] ^= 1 << s.below(7);
        }
        N::A(b)
    };
    match (op, k) {
        (51, 1) => {
            let mut ph = pool_ph(s.below(6));
            if Some(&ph.to_vec()) == cur.atom() {
                ph[30] ^= 1;
            }
            a(&ph)
        }
        (51, 2) | (52, 1) => {
            let v = cur.atom().map_or(0, |b| b.iter().fold(0u64, |acc, x| (acc << 8) | u64::from(*x)));
            int(match s.below(3) {
                0 => v.wrapping_add(2),
                1 => v ^ 1,
                _ => v.wrapping_add(1 + s.below(300) as u64),
            })
        }
        (51, 3) => memo_shape(s.below(MEMO_SHAPES.len()), s.u8()).unwrap_or_else(nil),
        (60 | 62, 1) => {
            let mut m = rand_msg(s);
            if Some(&m) == cur.atom() {
                m.push(7);
            }
            N::A(m)
        }
        (61, 1) => a(&condgen::sha(&[&env.helper_id, MSGS[s.below(MSGS.len())]])),
        (63, 1) => a(&condgen::sha(&[&env.helper.1, MSGS[s.below(MSGS.len())]])),
        (64, 1) => a(if cur.atom().map(Vec::as_slice) == Some(&env.helper_id[..]) { &env.main_id } else { &env.helper_id }),
        (65, 1) => a(if cur.atom().map(Vec::as_slice) == Some(&env.helper.1[..]) { &env.main.1 } else { &env.helper.1 }),
        (80..=83, 1) => after_value(s),
        (84..=87, 1) => before_value(s),
        (74 | 75, 1) => int(s.below(100_000) as u64),
        _ => flip(cur, s),
    }
}

/// apply mutation `m`; returns None when it does not apply to this list
fn mutate(m: usize, s: &mut Src<'_>, env: &Env, l: &[N]) -> Option<Vec<N>> {
    let mut out: Vec<N> = l.to_vec();
    let n = out.len();
    let pick_where = |s: &mut Src<'_>, out: &Vec<N>, f: &dyn Fn(&N) -> bool| -> Option<usize> {
        let idx: Vec<usize> = (0..out.len()).filter(|i| f(&out[*i])).collect();
        if idx.is_empty() {
            None
        } else {
            Some(idx[s.below(idx.len())])
        }
    };
    match m {
        0 => {}
        1 => {
            let i = pick_where(s, &out, &|c| op_of(c).is_some_and(|o| o != 76 && o != 1))?;
            let op = op_of(&out[i])?;
            let v = items_mut(&mut out[i])?;
            if v.len() < 2 {
                return None;
            }
            let k = 1 + s.below(v.len() - 1);
            v[k] = alt_value(s, env, op, k, &v[k].clone());
        }
        2 => {
            if n == 0 {
                return None;
            }
            let i = s.below(n);
            let mut atoms = vec![];
            out[i].atoms_mut(&mut atoms);
            if atoms.is_empty() {
                return None;
            }
            let k = s.below(atoms.len());
            let b = &mut *atoms[k];
            match s.below(4) {
                0 if !b.is_empty() => {
                    let j = s.below(b.len());
                    b[j] ^= 1 << s.below(8);
                }
                1 => b.push(s.u8()),
                2 if !b.is_empty() => {
                    b.pop();
                }
                _ => b.insert(0, s.u8()),
            }
        }
        3 => {
            // (60|62 x)(C) -> (60|62 x ‖ op(C) ‖ consumed atoms of C)
            let cand: Vec<usize> = (0..n.saturating_sub(1)).filter(|i| matches!(op_of(&out[*i]), Some(60 | 62)) && flat(&out[i + 1]).is_some()).collect();
            let i = if cand.is_empty() {
                // make room: insert an announcement followed by a REMARK
                let pos = s.below(n + 1);
                out.insert(pos, N::L(vec![a(&[1])]));
                out.insert(pos, N::L(vec![a(&[if s.bool() { 60 } else { 62 }]), N::A(rand_msg(s))]));
                // the base list changes too: report through the caller (it re-derives L)
                return Some(out);
            } else {
                cand[s.below(cand.len())]
            };
            let add = flat(&out[i + 1])?;
            let v = items_mut(&mut out[i])?;
            let N::A(x) = &mut v[1] else { return None };
            x.extend_from_slice(&add);
            out.remove(i + 1);
        }
        4 => {
            // CREATE_COIN: move bytes between the amount and the hint
            let i = pick_where(s, &out, &|c| {
                op_of(c) == Some(51) && matches!(c, N::L(v) if matches!(v.get(3), Some(N::L(m)) if matches!(m.first(), Some(N::A(h)) if !h.is_empty() && h.len() <= 32)))
            })?;
            let v = items_mut(&mut out[i])?;
            let am = v[2].atom()?.clone();
            let N::L(memos) = &mut v[3] else { return None };
            let N::A(h) = &mut memos[0] else { return None };
            let (am2, h2) = if s.bool() && h.len() >= 1 && am.len() < 8 {
                // amount takes the first byte(s) of the hint
                let k = s.range(1, (8 - am.len()).min(h.len()));
                let mut a2 = am.clone();
                a2.extend_from_slice(&h[..k]);
                (a2, h[k..].to_vec())
            } else if am.len() >= 2 && h.len() < 32 {
                let k = s.range(1, (am.len() - 1).min(32 - h.len()));
                let mut h2 = am[am.len() - k..].to_vec();
                h2.extend_from_slice(h);
                (am[..am.len() - k].to_vec(), h2)
            } else {
                return None;
            };
            *h = h2;
            v[2] = N::A(am2);
        }
        5 => {
            // (op v)(REMARK) -> (op v‖01): the argument absorbs the REMARK opcode
            // (for CREATE_COIN the absorbing atom is the hint: an absent hint
            // becomes the one-byte hint 0x01, a short hint grows by one byte)
            let hint_can_grow = |c: &N| -> bool {
                let N::L(v) = c else { return false };
                op_of(c) == Some(51) && (v.len() == 3 || matches!(&v[3], N::L(m) if m.len() == 1 && matches!(&m[0], N::A(h) if h.len() < 32)))
            };
            let cand: Vec<usize> = (0..n.saturating_sub(1))
                .filter(|i| (matches!(op_of(&out[*i]), Some(52 | 60 | 62 | 80..=87)) || hint_can_grow(&out[*i])) && op_of(&out[i + 1]) == Some(1))
                .collect();
            if cand.is_empty() {
                let i = pick_where(s, &out, &|c| matches!(op_of(c), Some(60 | 62 | 81 | 83 | 85 | 87)) || hint_can_grow(c))?;
                out.insert(i + 1, N::L(vec![a(&[1])]));
                return Some(out);
            }
            let i = cand[s.below(cand.len())];
            let is_cc = op_of(&out[i]) == Some(51);
            let v = items_mut(&mut out[i])?;
            if is_cc {
                if v.len() == 3 {
                    v.push(N::L(vec![a(&[1])]));
                } else {
                    let N::L(m) = &mut v[3] else { return None };
                    let N::A(h) = &mut m[0] else { return None };
                    h.push(1);
                }
            } else {
                let N::A(x) = &mut v[1] else { return None };
                x.push(1);
            }
            out.remove(i + 1);
        }
        6 => {
            let i = pick_where(s, &out, &|c| op_of(c) == Some(51))?;
            let v = items_mut(&mut out[i])?;
            v.truncate(3);
            if let Some(mm) = memo_shape(s.below(MEMO_SHAPES.len()), s.u8()) {
                v.push(mm);
            }
        }
        7 => {
            let i = pick_where(s, &out, &|c| op_of(c) == Some(51) && matches!(c, N::L(v) if matches!(v.get(3), Some(N::L(_)))))?;
            let v = items_mut(&mut out[i])?;
            let N::L(memos) = &mut v[3] else { return None };
            let len = s.below(40);
            let extra = N::A(s.bytes(len));
            if memos.is_empty() || s.bool() {
                memos.push(extra);
            } else {
                memos.insert(1, extra);
            }
        }
        8 => {
            let i = match pick_where(s, &out, &|c| op_of(c) == Some(1)) {
                Some(i) => i,
                None => {
                    let pos = s.below(n + 1);
                    out.insert(pos, remark(s));
                    return Some(out);
                }
            };
            let v = items_mut(&mut out[i])?;
            match s.below(3) {
                0 => v.push(N::A(s.bytes(3))),
                1 if v.len() > 1 => {
                    v.pop();
                }
                _ => {
                    if v.len() > 1 {
                        v[1] = N::A(s.bytes(4));
                    } else {
                        v.push(a(b"r"));
                    }
                }
            }
        }
        9 => {
            if n < 2 {
                return None;
            }
            let i = s.below(n);
            let j = if s.bool() { (i + 1) % n } else { s.below(n) };
            if i == j {
                return None;
            }
            out.swap(i, j);
        }
        10 => {
            let i = pick_where(s, &out, &|c| matches!(op_of(c), Some(51 | 52 | 73..=75 | 80..=87)))?;
            let k = if op_of(&out[i]) == Some(51) { 2 } else { 1 };
            let v = items_mut(&mut out[i])?;
            let N::A(b) = &mut v[k] else { return None };
            if !b.is_empty() && b[0] & 0x80 != 0 {
                // a negative value: sign-extend (same value, longer encoding)
                b.insert(0, 0xff);
            } else if b.len() >= 9 {
                // too large for the width: another length
                b.push(0);
            } else {
                // redundant leading zero
                b.insert(0, 0);
            }
        }
        11 => {
            if n == 0 {
                return None;
            }
            out.remove(s.below(n));
        }
        12 => {
            if n == 0 {
                return None;
            }
            let i = s.below(n);
            let c = out[i].clone();
            out.insert(s.below(n + 1), c);
        }
        13 => {
            let i = pick_where(s, &out, &|c| matches!(op_of(c), Some(60..=65 | 80..=87 | 70..=75)))?;
            let op = op_of(&out[i])?;
            let new = match op {
                60 => 62,
                62 => 60,
                61 => 63,
                63 => 61,
                64 => 65,
                65 => 64,
                80 => 81,
                81 => 80,
                82 => 83,
                83 => 82,
                84 => 85,
                85 => 84,
                86 => 87,
                87 => 86,
                74 => 81,
                75 => 83,
                o => o ^ 1,
            };
            items_mut(&mut out[i])?[0] = a(&[new]);
        }
        15 => {
            // handled by the caller (needs the computing puzzle): L' gets an
            // empty first memo, L a hint-less shape
            let i = pick_where(s, &out, &|c| op_of(c) == Some(51))?;
            let v = items_mut(&mut out[i])?;
            v.truncate(3);
            v.push(N::L(vec![nil()]));
        }
        _ => {
            // (op x)(op y) -> same concatenation, other boundary
            let cand: Vec<usize> = (0..n.saturating_sub(1)).filter(|i| matches!(op_of(&out[*i]), Some(60 | 62)) && matches!(op_of(&out[i + 1]), Some(60 | 62))).collect();
            if cand.is_empty() {
                let pos = s.below(n + 1);
                let op = if s.bool() { 60 } else { 62 };
                out.insert(pos, N::L(vec![a(&[op]), N::A(rand_msg(s))]));
                out.insert(pos, N::L(vec![a(&[op]), N::A(rand_msg(s))]));
                return Some(out);
            }
            let i = cand[s.below(cand.len())];
            let x = items_mut(&mut out[i])?[1].atom()?.clone();
            let y = items_mut(&mut out[i + 1])?[1].atom()?.clone();
            let mut all = x.clone();
            all.extend_from_slice(&y);
            if all.is_empty() {
                return None;
            }
            let mut cut = s.below(all.len() + 1);
            if cut == x.len() {
                cut = (cut + 1) % (all.len() + 1);
            }
            items_mut(&mut out[i])?[1] = N::A(all[..cut].to_vec());
            items_mut(&mut out[i + 1])?[1] = N::A(all[cut..].to_vec());
        }
    }
    Some(out)
}

// ---------------------------------------------------------------------------

const FLAGS: ConsensusFlags = MEMPOOL_MODE.union(ConsensusFlags::COMPUTE_FINGERPRINT).union(ConsensusFlags::DONT_VALIDATE_SIGNATURE);

fn render_list(l: &[N]) -> String {
    let mut t = Tree::new();
    let r = N::L(l.to_vec()).to_tree(&mut t);
    t.render(r)
}

struct Run {
    tree: Tree,
    list: Tid,
    result: Result<OwnedSpendBundleConditions, String>,
}

fn quote(n: N) -> N {
    pair(a(&[1]), n)
}
fn cons(x: N, y: N) -> N {
    N::L(vec![a(&[4]), x, y])
}

/// a program evaluating to the list `l`, in which the first memo of the
/// CREATE_COIN at index `i` (an empty atom) is *computed* as
/// `(substr "hello" 1 1)`: an empty atom that is not the allocator's nil node
fn computing_program(l: &[N], i: usize) -> N {
    let N::L(items) = &l[i] else { unreachable!() };
    let empty = N::L(vec![a(&[12]), quote(a(b"hello")), quote(a(&[1])), quote(a(&[1]))]);
    let memos = cons(empty, quote(nil()));
    let cond = cons(quote(items[0].clone()), cons(quote(items[1].clone()), cons(quote(items[2].clone()), cons(memos, quote(nil())))));
    let mut acc = cons(cond, quote(N::L(l[i + 1..].to_vec())));
    for c in l[..i].iter().rev() {
        acc = cons(quote(c.clone()), acc);
    }
    acc
}

fn run_list(env: &Env, l: &[N], helper_extra: &[N], flags: ConsensusFlags) -> Run {
    run_list_computed(env, l, helper_extra, flags, None)
}

fn run_list_computed(env: &Env, l: &[N], helper_extra: &[N], flags: ConsensusFlags, computed: Option<usize>) -> Run {
    let mut tree = Tree::new();
    let list = N::L(l.to_vec()).to_tree(&mut tree);
    let (puzzle, solution) = if env.apply_puzzle {
        let prog = match computed {
            Some(i) => computing_program(l, i),
            None => quote(N::L(l.to_vec())),
        };
        let mut t2 = Tree::new();
        let sol = N::L(vec![prog]).to_tree(&mut t2);
        (apply_puzzle().0.clone(), t2.serialize(sol))
    } else {
        (puzzle_bytes(env.main_tag), tree.serialize(list))
    };
    let result = run_bundle(
        &[
            (env.main, puzzle, solution),
            (env.helper, puzzle_bytes(env.helper_tag), helper_solution(helper_extra)),
        ],
        flags,
    );
    Run { tree, list, result }
}

/// (3) one direction, as stated: flagged eligible ⇒ no signature conditions,
/// no message conditions, created value ≥ coin amount — by the independent scan
pub fn check_eligibility(sp: &OwnedSpendConditions, sc: &Scan, what: &str, ctx: &mut Ctx) -> CaseResult {
    let eligible = sp.flags & mc::ELIGIBLE_FOR_DEDUP != 0;
    if eligible {
        vensure!(!sc.has_agg_sig, "C19:eligibility:flagged-with-agg-sig", "{what}: ELIGIBLE_FOR_DEDUP is set but the spend emits an AGG_SIG_* condition");
        vensure!(!sc.has_message, "C19:eligibility:flagged-with-message", "{what}: ELIGIBLE_FOR_DEDUP is set but the spend emits a SEND/RECEIVE_MESSAGE condition");
        vensure!(
            sc.created >= u128::from(sp.coin_amount),
            "C19:eligibility:flagged-with-excess-value",
            "{what}: ELIGIBLE_FOR_DEDUP is set but the spend creates {} < coin amount {}",
            sc.created,
            sp.coin_amount
        );
        ctx.label(if sc.created == u128::from(sp.coin_amount) { "elig:set:created-equals-amount" } else { "elig:set:created-exceeds-amount" });
    } else if sc.has_agg_sig {
        ctx.label("elig:clear:agg-sig");
    } else if sc.has_message {
        ctx.label("elig:clear:message");
    } else if sc.created < u128::from(sp.coin_amount) {
        ctx.label(if sc.created + 1 == u128::from(sp.coin_amount) { "elig:clear:created-one-less" } else { "elig:clear:created-less" });
    } else {
        // the converse is not part of the statement; recorded for the evidence only
        ctx.label("elig:clear:though-scan-finds-no-reason");
    }
    Ok(())
}

pub const SIG_EMPTY_HINT: &str = "C19:fingerprint:equal-but-empty-hint-reported-differently";

/// Err((only_empty_hint, description))
fn summary_eq(o1: &OwnedSpendBundleConditions, o2: &OwnedSpendBundleConditions) -> Result<(), (bool, String)> {
    let r = summary_eq_inner(o1, o2, false);
    match r {
        Ok(()) => Ok(()),
        Err(d) => Err((summary_eq_inner(o1, o2, true).is_ok(), d)),
    }
}

fn summary_eq_inner(o1: &OwnedSpendBundleConditions, o2: &OwnedSpendBundleConditions, empty_hint_is_none: bool) -> Result<(), String> {
    let norm = |sp: &OwnedSpendConditions| -> OwnedSpendConditions {
        let mut sp = sp.clone();
        if empty_hint_is_none {
            for c in &mut sp.create_coin {
                if c.2.as_ref().is_some_and(|h| h.is_empty()) {
                    c.2 = None;
                }
            }
            sp.create_coin.sort();
        }
        sp
    };
    let (a1, a2) = (&norm(&o1.spends[0]), &norm(&o2.spends[0]));
    macro_rules! same {
        ($($f:ident),*) => { $( if a1.$f != a2.$f { return Err(format!("spend.{}: {:?} vs {:?}", stringify!($f), a1.$f, a2.$f)); } )* };
    }
    same!(coin_id, parent_id, puzzle_hash, coin_amount, height_relative, seconds_relative, before_height_relative, before_seconds_relative, birth_height, birth_seconds, create_coin);
    same!(agg_sig_me, agg_sig_parent, agg_sig_puzzle, agg_sig_amount, agg_sig_puzzle_amount, agg_sig_parent_amount, agg_sig_parent_puzzle, flags, condition_cost);
    macro_rules! same_b {
        ($($f:ident),*) => { $( if o1.$f != o2.$f { return Err(format!("bundle.{}: {:?} vs {:?}", stringify!($f), o1.$f, o2.$f)); } )* };
    }
    same_b!(reserve_fee, height_absolute, seconds_absolute, before_height_absolute, before_seconds_absolute, agg_sig_unsafe, removal_amount, addition_amount, condition_cost);
    Ok(())
}

pub fn case_pairs(bytes: &[u8], ctx: &mut Ctx) -> CaseResult {
    let mut s = Src::new(bytes);
    let m = s.weighted(&[2, 14, 8, 10, 10, 8, 10, 8, 8, 8, 6, 4, 4, 4, 8, 3]);
    // a tenth of the ordinary pairs also go through the computing puzzle
    let apply = m == 15 || s.chance(26);
    let env = gen_env(&mut s, apply);
    let mut ms = s.sub(24);
    let mut labels = vec![];
    let (mut l1, _) = gen_list(&mut s, &env, false, &mut labels);
    for lb in &labels {
        if lb.starts_with("ff-like") {
            ctx.label(lb.clone());
        }
    }
    ctx.ran_dry(s.ran_dry() || ms.ran_dry());
    let mname = MUTATIONS[m];
    // some mutations first need a suitable pair of adjacent conditions: they
    // return a prepared L, and the mutation is applied to that
    let mut l2 = None;
    for _ in 0..2 {
        match mutate(m, &mut ms, &env, &l1) {
            None => break,
            Some(x) => {
                if matches!(m, 3 | 5 | 8 | 14) && x.len() > l1.len() {
                    l1 = x;
                    continue;
                }
                l2 = Some(x);
                break;
            }
        }
    }
    let Some(mut l2) = l2 else {
        ctx.label(format!("mutation-not-applicable:{mname}"));
        return Ok(());
    };
    if matches!(m, 3 | 5) && ms.bool() {
        // the other direction: L has the merged atom, L′ the separate conditions
        std::mem::swap(&mut l1, &mut l2);
    }
    let mut computed = None;
    if m == 15 {
        // L' has the (computed) empty first memo at index i; L gets a shape without hint
        let is_empty_first = |c: &N| matches!(c, N::L(v) if v.len() == 4 && v[3] == N::L(vec![nil()]) && v[0] == a(&[51]));
        let i = (0..l2.len())
            .find(|i| l1[*i] != l2[*i])
            .or_else(|| (0..l2.len()).find(|i| is_empty_first(&l2[*i])))
            .expect("mutated CREATE_COIN");
        assert!(is_empty_first(&l2[i]));
        computed = Some(i);
        let N::L(v) = &mut l1[i] else { unreachable!() };
        v.truncate(3);
        if let Some(mm) = memo_shape(*ms.pick(&[0usize, 1, 4, 6, 5]), 0) {
            v.push(mm);
        }
    }
    if env.apply_puzzle {
        ctx.label("puzzle:apply-first-of-solution");
    }
    ctx.label(format!("mutation:{mname}"));
    ctx.render(|| format!("coin={} mutation={mname}\n L  = {}\n L' = {}", crate::util::coin_str(&env.main), render_list(&l1), render_list(&l2)));

    let r1 = run_list(&env, &l1, &[], FLAGS);
    let r2 = run_list_computed(&env, &l2, &[], FLAGS, computed);
    let lists_differ = r1.tree.serialize(r1.list) != r2.tree.serialize(r2.list);
    let sc1 = scan(&r1.tree, r1.list);
    let sc2 = scan(&r2.tree, r2.list);
    for (r, sc, w) in [(&r1, &sc1, "L"), (&r2, &sc2, "L'")] {
        if let Ok(o) = &r.result {
            check_eligibility(&o.spends[0], sc, w, ctx)?;
        }
    }
    let (o1, o2) = match (&r1.result, &r2.result) {
        (Ok(o1), Ok(o2)) => (o1, o2),
        (Ok(_), Err(e)) => {
            ctx.label(format!("pair:only-L-accepted:{mname}"));
            ctx.label(format!("L'-rejected:{e}"));
            return Ok(());
        }
        (Err(e), _) => {
            ctx.label(format!("pair:L-rejected:{e}"));
            return Ok(());
        }
    };
    ctx.label("pair:both-accepted");
    let (s1, s2) = (&o1.spends[0], &o2.spends[0]);
    vensure!(s1.coin_id == s2.coin_id && s1.coin_id.as_slice() == env.main_id, "C19:harness:pair-not-same-coin", "the two runs did not spend the same coin");
    let e1 = s1.flags & mc::ELIGIBLE_FOR_DEDUP != 0;
    let e2 = s2.flags & mc::ELIGIBLE_FOR_DEDUP != 0;
    if !(e1 && e2) {
        ctx.label(format!("pair:not-both-eligible:{mname}"));
        return Ok(());
    }
    ctx.label("pair:both-eligible");
    vensure!(s1.fingerprint.len() == 32 && s2.fingerprint.len() == 32, "C19:fingerprint:missing", "eligible spend without a 32-byte fingerprint under COMPUTE_FINGERPRINT");
    let mut fp = Fnv::new();
    fp.write(&r1.tree.serialize(r1.list)).write(&r2.tree.serialize(r2.list)).write(&env.main_id);
    ctx.nontrivial(fp.finish());
    if s1.fingerprint != s2.fingerprint {
        ctx.label(format!("fingerprints-differ:{mname}"));
        if sc1.seq == sc2.seq {
            ctx.label(format!("fingerprints-differ-though-same-meaning:{mname}"));
        }
        return Ok(());
    }
    // ---- the premise holds: equal fingerprints
    ctx.label("fingerprints-equal");
    ctx.label(format!("fingerprints-equal:{mname}"));
    if lists_differ {
        ctx.label("fingerprints-equal:lists-differ");
        ctx.label(format!("fingerprints-equal:lists-differ:{mname}"));
    }
    vensure!(
        sc1.seq == sc2.seq,
        "C19:fingerprint:equal-for-different-parsed-conditions",
        "both spends of coin {} pass mempool validation, are ELIGIBLE_FOR_DEDUP and have fingerprint {}, but their parsed conditions differ:\n L  = {}\n L' = {}\n parsed L  = {:?}\n parsed L' = {:?}",
        hex(&env.main_id),
        hex(s1.fingerprint.as_slice()),
        render_list(&l1),
        render_list(&l2),
        sc1.seq,
        sc2.seq
    );
    match summary_eq(o1, o2) {
        Ok(()) => {}
        Err((true, d)) => {
            // same root cause as the C01 finding: an empty first memo that is
            // not the allocator's nil node is reported as hint Some(b"")
            ctx.known_or_fail(SIG_EMPTY_HINT, || {
                format!(
                    "two accepted, dedup-eligible spends of coin {} have equal fingerprints, equal parsed conditions by value, but their summaries differ in a hint that is None vs Some(empty) ({d}):\n L  = {}\n L' = {} (the empty first memo is computed by the puzzle as (substr \"hello\" 1 1))",
                    hex(&env.main_id),
                    render_list(&l1),
                    render_list(&l2)
                )
            })?;
        }
        Err((false, d)) => {
            return Err(vcore::engine::Failure {
                sig: "C19:fingerprint:equal-for-different-summaries".into(),
                msg: format!("equal fingerprints but different summaries ({d}):\n L  = {}\n L' = {}", render_list(&l1), render_list(&l2)),
            });
        }
    }
    Ok(())
}

// ---------------------------------------------------------------------------
// (3) eligibility

pub fn case_eligibility(bytes: &[u8], ctx: &mut Ctx) -> CaseResult {
    let mut s = Src::new(bytes);
    let cost_conditions = s.chance(60);
    // without COMPUTE_FINGERPRINT the flag is observable even for spends whose
    // conditions the fingerprint routine would refuse
    let mut flags = MEMPOOL_MODE | ConsensusFlags::DONT_VALIDATE_SIGNATURE;
    if s.chance(100) {
        flags |= ConsensusFlags::COMPUTE_FINGERPRINT;
        ctx.label("flags:compute-fingerprint");
    } else {
        ctx.label("flags:no-fingerprint");
    }
    if cost_conditions {
        flags |= ConsensusFlags::COST_CONDITIONS;
    }
    if s.weighted(&[3, 2]) == 0 {
        // ---- bundles of the shared generator
        let mut cfg = GenCfg::standard();
        cfg.huge = false;
        cfg.shape_mutations = false;
        cfg.careful_rate = 200;
        cfg.mutation_rate = 24;
        cfg.strict_friendly = s.chance(200);
        let b = condgen::gen_bundle(&mut s, &cfg);
        ctx.ran_dry(s.ran_dry());
        ctx.label("source:shared-bundle");
        ctx.render(|| format!("flags={flags:?} bundle={}", b.tree.render(b.root)));
        let spends: Vec<(Coin3, Vec<u8>, Vec<u8>)> = b
            .spends
            .iter()
            .map(|sp| ((sp.parent, sp.puzzle_hash, sp.amount), b.tree.serialize(sp.puzzle), b.tree.serialize(sp.cond_list)))
            .collect();
        match run_bundle(&spends, flags) {
            Err(e) => ctx.label(format!("bundle-rejected:{e}")),
            Ok(o) => {
                ctx.label("bundle-accepted");
                vensure!(o.spends.len() == b.spends.len(), "C19:harness:spend-count", "spend count");
                let mut fp = Fnv::new();
                let mut any = false;
                for (i, (sp, g)) in o.spends.iter().zip(b.spends.iter()).enumerate() {
                    vensure!(sp.coin_id.as_slice() == g.coin_id, "C19:harness:spend-order", "spend {i} is not the offered coin");
                    let sc = scan(&b.tree, g.cond_list);
                    check_eligibility(sp, &sc, &format!("spend {i}"), ctx)?;
                    if sc.n_conditions > 0 {
                        any = true;
                    }
                    fp.write(&b.tree.serialize(g.node));
                }
                if any {
                    fp.write_u64(u64::from(flags.bits()));
                    ctx.nontrivial(fp.finish());
                }
            }
        }
    } else {
        // ---- targeted: one coin + helper, with signature / message / value features
        let env = gen_env(&mut s, false);
        let mut labels = vec![];
        let (l, extra) = gen_list(&mut s, &env, true, &mut labels);
        ctx.ran_dry(s.ran_dry());
        ctx.label("source:targeted");
        ctx.render(|| format!("flags={flags:?} coin={} L={}", crate::util::coin_str(&env.main), render_list(&l)));
        let r = run_list(&env, &l, &extra, flags);
        match &r.result {
            Err(e) => ctx.label(format!("bundle-rejected:{e}")),
            Ok(o) => {
                ctx.label("bundle-accepted");
                for lb in labels {
                    ctx.label(lb);
                }
                let sc = scan(&r.tree, r.list);
                check_eligibility(&o.spends[0], &sc, "main spend", ctx)?;
                if sc.n_conditions > 0 {
                    let mut fp = Fnv::new();
                    fp.write(&r.tree.serialize(r.list)).write(&env.main_id).write_u64(u64::from(flags.bits()));
                    ctx.nontrivial(fp.finish());
                }
            }
        }
    }
    Ok(())
}
