fn main() {
    vcore::engine::main(c19::property());
}
