//! C19 (1): fast-forward of singleton spends.
//!
//! Genuine singleton spends are *constructed* (the real
//! `singleton_top_layer_v1_1` program curried with a random singleton struct
//! and a quoted condition list as inner puzzle, a consistent lineage proof and
//! coin) or taken from the two recorded spends in `/repo/ff-tests`. Whenever
//! `fast_forward_singleton` returns `Ok`, the rewritten solution is compared
//! with the original as a raw tree and re-run through `run_spendbundle` as a
//! spend of the new coin. Every single-field corruption that makes the input
//! provably non-genuine must be refused.

use crate::util::{a, coin_of, coin_str, curry_hash, get_at, hex, int, nil, pair, parse_clvm, replace_at, run_bundle, Coin3, HT, L, N, R};
use chia_consensus::fast_forward::fast_forward_singleton;
use chia_consensus::flags::{ConsensusFlags, MEMPOOL_MODE};
use chia_protocol::CoinSpend;
use chia_puzzles::{SINGLETON_TOP_LAYER_V1_1, SINGLETON_TOP_LAYER_V1_1_HASH};
use chia_traits::Streamable;
use clvmr::Allocator;
use std::sync::OnceLock;
use vcore::condgen;
use vcore::engine::{CaseResult, Ctx};
use vcore::gentree::{self, BuildMode, Tid, Tree};
use vcore::model::conditions as mc;
use vcore::model::treehash;
use vcore::{vensure, vfail, Fnv, Src};

pub const SIG_DROPS_EXTRA: &str = "C19:ff:rewrite-drops-extra-solution-elements";

// ---- paths into the curried puzzle `(a (q . MOD) (c (q . STRUCT) (c (q . INNER) 1)))`
const PUZ_MOD: &[u8] = &[R, L, R];
const PUZ_STRUCT: &[u8] = &[R, R, L, R, L, R];
const PUZ_STRUCT_MODHASH: &[u8] = &[R, R, L, R, L, R, L];
const PUZ_INNER: &[u8] = &[R, R, L, R, R, L, R, L, R];
// ---- paths into the solution `((pp inner_ph parent_amount) amount inner_solution)`
const SOL_LINEAGE: &[u8] = &[L];
const SOL_PP: &[u8] = &[L, L];
const SOL_INNER_PH: &[u8] = &[L, R, L];
const SOL_PAMT: &[u8] = &[L, R, R, L];
const SOL_AMOUNT: &[u8] = &[R, L];

struct ModInfo {
    ht: HT,
    root: Tid,
}

fn singleton_mod() -> &'static ModInfo {
    static M: OnceLock<ModInfo> = OnceLock::new();
    M.get_or_init(|| {
        let mut ht = HT::new();
        let root = parse_clvm(&SINGLETON_TOP_LAYER_V1_1, &mut ht.t);
        let h = ht.hash(root);
        assert_eq!(h, SINGLETON_TOP_LAYER_V1_1_HASH, "reference tree hash of the singleton mod");
        ModInfo { ht, root }
    })
}

struct Recorded {
    name: &'static str,
    ht: HT,
    puzzle: Tid,
    solution: Tid,
    coin: Coin3,
}

fn recorded() -> &'static Vec<Recorded> {
    static REC: OnceLock<Vec<Recorded>> = OnceLock::new();
    REC.get_or_init(|| {
        let files: [(&'static str, &'static [u8]); 2] = [
            ("e3c0", include_bytes!("/repo/ff-tests/e3c0.spend")),
            ("bb13", include_bytes!("/repo/ff-tests/bb13.spend")),
        ];
        files
            .iter()
            .map(|(name, bytes)| {
                let cs = CoinSpend::from_bytes(bytes).expect("recorded CoinSpend");
                let mut ht = HT::new();
                let puzzle = parse_clvm(cs.puzzle_reveal.as_slice(), &mut ht.t);
                let solution = parse_clvm(cs.solution.as_slice(), &mut ht.t);
                ht.hash(solution);
                let coin: Coin3 = (
                    cs.coin.parent_coin_info.as_slice().try_into().unwrap(),
                    cs.coin.puzzle_hash.as_slice().try_into().unwrap(),
                    cs.coin.amount,
                );
                Recorded { name, ht, puzzle, solution, coin }
            })
            .collect()
    })
}

/// the helper spend that accompanies the singleton in both runs: it supplies
/// value (so that any rebase amount is affordable), announces the pool
/// messages and receives the messages the inner puzzle sends
struct Helper {
    coin: Coin3,
    id: [u8; 32],
    puzzle: Vec<u8>,
}

const HELPER_MSGS: [&[u8]; 3] = [b"", b"hello", &[0x42; 32]];

fn helper() -> &'static Helper {
    static H: OnceLock<Helper> = OnceLock::new();
    H.get_or_init(|| {
        let mut t = Tree::new();
        let p = condgen::tagged_identity(&mut t, 6);
        let ph = treehash::tree_hash(&t, p);
        let coin: Coin3 = ([0xee; 32], ph, u64::MAX);
        Helper { coin, id: mc::coin_id(&coin.0, &coin.1, coin.2), puzzle: t.serialize(p) }
    })
}

fn helper_solution(sent: &[Vec<u8>], singleton_ph: &[u8; 32]) -> Vec<u8> {
    let mut conds: Vec<N> = vec![];
    for m in HELPER_MSGS {
        conds.push(N::L(vec![a(&[60]), a(m)]));
        conds.push(N::L(vec![a(&[62]), a(m)]));
    }
    for m in sent {
        // RECEIVE_MESSAGE, sender described by puzzle hash, receiver by coin id
        conds.push(N::L(vec![a(&[67]), a(&[0x17]), a(m), a(singleton_ph)]));
    }
    let mut t = Tree::new();
    let root = N::L(conds).to_tree(&mut t);
    t.serialize(root)
}

// ---------------------------------------------------------------------------
// generated singleton spends

#[derive(Clone)]
struct Spec {
    launcher_id: [u8; 32],
    launcher_ph: [u8; 32],
    conds: Vec<N>,
    inner_solution_budget: Vec<u8>,
    pp: [u8; 32],
    parent_amount: u64,
    amount: u64,
    /// Some(launcher amount): a genuine *eve* spend (parent is the launcher)
    eve: Option<u64>,
    /// 0: plain; 1: extra trailing element in the solution; 2: fourth element
    /// in the lineage proof
    sol_shape: u8,
    sent: Vec<Vec<u8>>,
}

struct Built {
    ht: HT,
    puzzle: Tid,
    solution: Tid,
    coin: Coin3,
}

fn memo_shape(s: &mut Src<'_>) -> Option<N> {
    let mut h32 = [0x77u8; 32];
    h32[0] = s.u8();
    match s.below(10) {
        0 => None,
        1 => Some(nil()),
        2 => Some(N::L(vec![a(&h32)])),
        3 => Some(N::L(vec![a(&[0x99])])),
        4 => Some(N::L(vec![a(&[0x55; 33])])),
        5 => Some(N::L(vec![nil()])),
        6 => Some(N::L(vec![pair(a(&[1]), a(&[2]))])),
        7 => Some(N::I(vec![a(&h32)], Box::new(a(&[8])))),
        8 => Some(N::L(vec![a(&h32), a(b"memo2"), a(&[0x11; 40])])),
        _ => Some(a(&h32)),
    }
}

fn create_coin(ph: &[u8; 32], amount: u64, memos: Option<N>) -> N {
    let mut v = vec![a(&[51]), a(ph), int(amount)];
    if let Some(m) = memos {
        v.push(m);
    }
    N::L(v)
}

/// odd amounts of every encoding length (1..9 bytes), boundary values first
pub fn odd_amount(s: &mut Src<'_>) -> u64 {
    const FIXED: [u64; 26] = [
        1,
        3,
        0x7f,
        0x81,
        0xff,
        0x101,
        0x7fff,
        0x8001,
        0xffff,
        0x1_0001,
        0x7f_ffff,
        0x80_0001,
        0xff_ffff,
        0x7fff_ffff,
        0x8000_0001,
        0xffff_ffff,
        0x1_0000_0001,
        0x7f_ffff_ffff,
        0x80_0000_0001,
        0x7fff_ffff_ffff,
        0x8000_0000_0001,
        0x7f_ffff_ffff_ffff,
        0x80_0000_0000_0001,
        0x7fff_ffff_ffff_ffff,
        0x8000_0000_0000_0001,
        0xffff_ffff_ffff_ffff,
    ];
    match s.weighted(&[10, 3, 4]) {
        0 => FIXED[s.below(FIXED.len())],
        1 => (s.below(500) as u64) * 2 + 1,
        _ => {
            let bits = s.range(1, 64);
            let raw = s.u64();
            let v = if bits == 64 { raw } else { (raw & ((1u64 << bits) - 1)) | (1u64 << (bits - 1)) };
            v | 1
        }
    }
}

fn lock_cond(s: &mut Src<'_>) -> N {
    match s.below(4) {
        0 => {
            // "after" locks: small values, or negative (always true)
            let op = *s.pick(&[80u8, 81, 82, 83]);
            if s.chance(50) {
                N::L(vec![a(&[op]), a(&[0xff, s.u8()])])
            } else {
                N::L(vec![a(&[op]), int(s.below(100) as u64)])
            }
        }
        1 => {
            // "before" locks: large values, or too large for the width (always true)
            let op = *s.pick(&[84u8, 85, 86, 87]);
            if s.chance(50) {
                N::L(vec![a(&[op]), a(&[1, 0, 0, 0, 0, 0, 0, 0, s.u8()])])
            } else {
                N::L(vec![a(&[op]), int(1000 + s.below(60000) as u64)])
            }
        }
        2 => N::L(vec![a(&[74]), int(1_700_000_000)]),
        _ => N::L(vec![a(&[75]), int(4_000_000)]),
    }
}

fn gen_inner_conds(s: &mut Src<'_>) -> (Vec<N>, Vec<Vec<u8>>) {
    let h = helper();
    let mut conds: Vec<N> = vec![];
    let mut sent: Vec<Vec<u8>> = vec![];
    let n = match s.weighted(&[3, 5, 6, 4]) {
        0 => 0,
        1 => s.range(1, 2),
        2 => s.range(2, 4),
        _ => s.range(4, 8),
    };
    let mut evens: Vec<([u8; 32], u64)> = vec![];
    for _ in 0..n {
        let c = match s.weighted(&[8, 3, 4, 3, 3, 3, 2, 2, 6, 4, 2, 2]) {
            0 => {
                let mut ph = [0x60u8; 32];
                ph[31] = s.below(4) as u8;
                let amount = match s.below(5) {
                    0 => 0,
                    1 => 2 * s.below(1000) as u64,
                    2 => 1 << 32,
                    3 => 0xfffe,
                    _ => (s.u64() >> 24) & !1,
                };
                if evens.contains(&(ph, amount)) {
                    continue;
                }
                evens.push((ph, amount));
                create_coin(&ph, amount, memo_shape(s))
            }
            1 => N::L(vec![a(&[52]), int(s.below(1000) as u64)]),
            2 | 3 => {
                let op = if s.bool() { 60u8 } else { 62 };
                let len = s.below(40);
                N::L(vec![a(&[op]), N::A(s.bytes(len))])
            }
            4 => N::L(vec![a(&[61]), a(&condgen::sha(&[&h.id, *s.pick(&HELPER_MSGS)]))]),
            5 => N::L(vec![a(&[63]), a(&condgen::sha(&[&h.coin.1, *s.pick(&HELPER_MSGS)]))]),
            6 => N::L(vec![a(&[64]), a(&h.id)]),
            7 => N::L(vec![a(&[65]), a(&h.coin.1)]),
            8 => lock_cond(s),
            9 => {
                let k = s.below(3);
                let mut v = vec![a(&[1])];
                for _ in 0..k {
                    let len = s.below(6);
                    v.push(N::A(s.bytes(len)));
                }
                N::L(v)
            }
            10 => {
                let op = *s.pick(&[49u8, 44, 45, 46]);
                let key = condgen::key_pool().pks[s.below(condgen::NUM_KEYS)];
                N::L(vec![a(&[op]), a(&key), a(b"sign me")])
            }
            _ => {
                let m = vec![0x6d, s.u8()];
                sent.push(m.clone());
                // SEND_MESSAGE: sender by puzzle hash (010), receiver by coin id (111)
                N::L(vec![a(&[66]), a(&[0x17]), a(&m), a(&h.id)])
            }
        };
        conds.push(c);
    }
    // exactly one odd output
    let mut ph = [0x61u8; 32];
    ph[31] = s.below(4) as u8;
    let odd = match s.below(3) {
        0 => 1,
        1 => (s.below(1000) as u64) * 2 + 1,
        _ => odd_amount(s) >> 2 | 1,
    };
    let oc = create_coin(&ph, odd, memo_shape(s));
    let pos = s.below(conds.len() + 1);
    conds.insert(pos, oc);
    (conds, sent)
}

fn gen_spec(s: &mut Src<'_>) -> Spec {
    let (conds, sent) = gen_inner_conds(s);
    let launcher_ph: [u8; 32] = if s.bool() { chia_puzzles::SINGLETON_LAUNCHER_HASH } else { s.array() };
    let amount = odd_amount(s);
    Spec {
        launcher_id: s.array(),
        launcher_ph,
        conds,
        inner_solution_budget: s.bytes(6),
        pp: s.array(),
        parent_amount: if s.chance(90) { amount } else { odd_amount(s) },
        amount,
        eve: None,
        sol_shape: s.weighted(&[40, 1, 1]) as u8,
        sent,
    }
}

fn build_spec(spec: &Spec) -> Built {
    let m = singleton_mod();
    let mut ht = m.ht.clone();
    let t = &mut ht.t;
    let st = pair(a(&SINGLETON_TOP_LAYER_V1_1_HASH), pair(a(&spec.launcher_id), a(&spec.launcher_ph))).to_tree(t);
    let cl = N::L(spec.conds.clone()).to_tree(t);
    let q = t.atom(&[1]);
    let inner = t.pair(q, cl);
    let puzzle = treehash::curry(t, m.root, &[st, inner]);
    let inner_hash = ht.hash(inner);
    let struct_hash = ht.hash(st);
    let full_ph = ht.hash(puzzle);
    // harness self-check: the curried-hash formula used for lineage agrees
    // with the reference tree hash of the real curried tree
    assert_eq!(curry_hash(&SINGLETON_TOP_LAYER_V1_1_HASH, &[struct_hash, inner_hash]), full_ph, "curry hash formula");
    let t = &mut ht.t;
    let inner_solution = {
        let mut ss = Src::new(&spec.inner_solution_budget);
        gentree::gen_tree(&mut ss, t, 6)
    };
    let (lineage, parent_id) = match spec.eve {
        Some(launcher_amount) => {
            let lin = N::L(vec![a(&spec.pp), int(launcher_amount)]).to_tree(t);
            (lin, mc::coin_id(&spec.pp, &spec.launcher_ph, launcher_amount))
        }
        None => {
            let mut items = vec![a(&spec.pp), a(&inner_hash), int(spec.parent_amount)];
            if spec.sol_shape == 2 {
                items.push(a(b"extra"));
            }
            let lin = N::L(items).to_tree(t);
            (lin, mc::coin_id(&spec.pp, &full_ph, spec.parent_amount))
        }
    };
    let am = t.int(u128::from(spec.amount));
    let mut items = vec![lineage, am, inner_solution];
    if spec.sol_shape == 1 {
        items.push(t.atom(b"extra"));
    }
    let solution = t.list(&items);
    Built { ht, puzzle, solution, coin: (parent_id, full_ph, spec.amount) }
}

// ---------------------------------------------------------------------------

#[derive(Clone)]
struct Inst {
    ht: HT,
    puzzle: Tid,
    solution: Tid,
    coin: Coin3,
    new_parent: Coin3,
    new_coin: Coin3,
}

#[derive(Clone, Copy)]
struct Target {
    npp: [u8; 32],
    np_amount: u64,
    nc_amount: u64,
}

fn with_target(ht: HT, puzzle: Tid, solution: Tid, coin: Coin3, ph: [u8; 32], tg: &Target) -> Inst {
    let new_parent: Coin3 = (tg.npp, ph, tg.np_amount);
    let new_coin: Coin3 = (mc::coin_id(&new_parent.0, &new_parent.1, new_parent.2), ph, tg.nc_amount);
    Inst { ht, puzzle, solution, coin, new_parent, new_coin }
}

/// what the harness knows about a genuine instance (read off the trees)
struct Facts {
    struct_hash: [u8; 32],
    struct_mod_hash: [u8; 32],
    inner_hash: [u8; 32],
    full_ph: [u8; 32],
    pp: [u8; 32],
    parent_amount: u64,
}

fn atom32(t: &Tree, root: Tid, path: &[u8]) -> [u8; 32] {
    let id = get_at(t, root, path).expect("path");
    t.atom_bytes(id).expect("atom").try_into().expect("32 bytes")
}

fn atom_u64(t: &Tree, root: Tid, path: &[u8]) -> u64 {
    let id = get_at(t, root, path).expect("path");
    let b = t.atom_bytes(id).expect("atom");
    let mut v = 0u64;
    for x in b {
        v = (v << 8) | u64::from(*x);
    }
    v
}

fn facts(inst: &mut Inst) -> Facts {
    let st = get_at(&inst.ht.t, inst.puzzle, PUZ_STRUCT).expect("struct");
    let inner = get_at(&inst.ht.t, inst.puzzle, PUZ_INNER).expect("inner");
    Facts {
        struct_hash: inst.ht.hash(st),
        struct_mod_hash: atom32(&inst.ht.t, inst.puzzle, PUZ_STRUCT_MODHASH),
        inner_hash: inst.ht.hash(inner),
        full_ph: inst.ht.hash(inst.puzzle),
        pp: atom32(&inst.ht.t, inst.solution, SOL_PP),
        parent_amount: atom_u64(&inst.ht.t, inst.solution, SOL_PAMT),
    }
}

fn recompute_new_coin(i: &mut Inst) {
    i.new_coin.0 = mc::coin_id(&i.new_parent.0, &i.new_parent.1, i.new_parent.2);
}

pub const KINDS: [&str; 27] = [
    "coin-amount-even",
    "coin-and-solution-amount-even",
    "new-parent-amount-even",
    "new-coin-amount-even",
    "coin-puzzle-hash-mismatch",
    "new-parent-puzzle-hash-mismatch",
    "new-coin-puzzle-hash-mismatch",
    "all-coins-other-puzzle-hash",
    "coin-amount-differs-from-solution",
    "solution-amount-differs-from-coin",
    "coin-parent-wrong",
    "lineage-parent-parent-wrong",
    "lineage-inner-hash-wrong",
    "lineage-amount-wrong",
    "parent-inner-puzzle-differs",
    "new-coin-parent-not-new-parent-id",
    "struct-mod-hash-wrong",
    "struct-mod-hash-wrong-consistent",
    "outer-program-not-singleton",
    "outer-program-not-singleton-consistent",
    "puzzle-not-curried",
    "eve-proof-shape",
    "eve-proof-genuine",
    "coins-carry-hash-of-sibling-puzzle:other-launcher-puzzle-hash",
    "coins-carry-hash-of-sibling-puzzle:other-launcher-id",
    "coins-carry-hash-of-sibling-puzzle:other-inner-puzzle",
    "coins-and-lineage-follow-sibling-puzzle:other-launcher-puzzle-hash",
];

fn set_all_ph(i: &mut Inst, ph: [u8; 32]) {
    i.coin.1 = ph;
    i.new_parent.1 = ph;
    i.new_coin.1 = ph;
    recompute_new_coin(i);
}

/// apply one corruption; every result is provably *not* a genuine singleton
/// spend of `coin` with a lineage matching its own puzzle
fn corrupt(kind: usize, s: &mut Src<'_>, g: &Inst, f: &Facts, spec: Option<&Spec>, tg: &Target) -> (Inst, usize) {
    let mut i = g.clone();
    let mut x32: [u8; 32] = s.array();
    x32[0] |= 1; // never all-zero, never equal to a hash by accident
    let mut kind = kind;
    if kind == 22 && spec.is_none() {
        kind = 21;
    }
    match kind {
        0 => i.coin.2 ^= 1,
        1 => {
            let ev = i.coin.2 ^ 1;
            i.coin.2 = ev;
            let n = i.ht.t.int(u128::from(ev));
            i.solution = replace_at(&mut i.ht.t, i.solution, SOL_AMOUNT, n).unwrap();
        }
        2 => {
            i.new_parent.2 ^= 1;
            recompute_new_coin(&mut i);
        }
        3 => i.new_coin.2 ^= 1,
        4 => i.coin.1[s.below(32)] ^= 0x10,
        5 => {
            i.new_parent.1[s.below(32)] ^= 0x10;
            recompute_new_coin(&mut i);
        }
        6 => i.new_coin.1[s.below(32)] ^= 0x10,
        7 => set_all_ph(&mut i, x32),
        8 => i.coin.2 ^= 2,
        9 => {
            let v = i.coin.2 ^ 2;
            let n = i.ht.t.int(u128::from(v));
            i.solution = replace_at(&mut i.ht.t, i.solution, SOL_AMOUNT, n).unwrap();
        }
        10 => i.coin.0[s.below(32)] ^= 0x10,
        11 => {
            let mut v = f.pp;
            v[s.below(32)] ^= 0x10;
            let n = i.ht.t.atom(&v);
            i.solution = replace_at(&mut i.ht.t, i.solution, SOL_PP, n).unwrap();
        }
        12 => {
            let n = i.ht.t.atom(&x32);
            i.solution = replace_at(&mut i.ht.t, i.solution, SOL_INNER_PH, n).unwrap();
        }
        13 => {
            let n = i.ht.t.int(u128::from(f.parent_amount ^ 2));
            i.solution = replace_at(&mut i.ht.t, i.solution, SOL_PAMT, n).unwrap();
        }
        14 => {
            // the parent singleton had another inner puzzle: the lineage proof
            // is consistent with coin.parent_coin_info, but the puzzle hash
            // changed between parent and this coin
            let n = i.ht.t.atom(&x32);
            i.solution = replace_at(&mut i.ht.t, i.solution, SOL_INNER_PH, n).unwrap();
            let parent_ph = curry_hash(&f.struct_mod_hash, &[f.struct_hash, x32]);
            i.coin.0 = mc::coin_id(&f.pp, &parent_ph, f.parent_amount);
        }
        15 => i.new_coin.0[s.below(32)] ^= 0x10,
        16 | 17 => {
            let n = i.ht.t.atom(&x32);
            i.puzzle = replace_at(&mut i.ht.t, i.puzzle, PUZ_STRUCT_MODHASH, n).unwrap();
            if kind == 17 {
                // everything else follows the corrupted puzzle
                let st = get_at(&i.ht.t, i.puzzle, PUZ_STRUCT).unwrap();
                let sh = i.ht.hash(st);
                let ph = i.ht.hash(i.puzzle);
                let parent_ph = curry_hash(&x32, &[sh, f.inner_hash]);
                i.coin.0 = mc::coin_id(&f.pp, &parent_ph, f.parent_amount);
                set_all_ph(&mut i, ph);
            }
        }
        18 | 19 => {
            // the singleton program with its first operator atom changed
            let md = get_at(&i.ht.t, i.puzzle, PUZ_MOD).unwrap();
            let n = i.ht.t.atom(&[2, s.u8()]);
            let md2 = replace_at(&mut i.ht.t, md, &[L], n).unwrap();
            i.puzzle = replace_at(&mut i.ht.t, i.puzzle, PUZ_MOD, md2).unwrap();
            if kind == 19 {
                let ph = i.ht.hash(i.puzzle);
                set_all_ph(&mut i, ph);
            }
        }
        20 => {
            i.puzzle = condgen::tagged_identity(&mut i.ht.t, 2);
            let ph = i.ht.hash(i.puzzle);
            set_all_ph(&mut i, ph);
        }
        23..=26 => {
            // the three coins carry the puzzle hash of a *sibling* singleton: the
            // same reveal with exactly one curried component replaced (the launcher
            // puzzle hash by the standard one or by another value, the launcher id,
            // the inner puzzle). The reveal itself is untouched, so it does not hash
            // to the stated coin's puzzle hash: not a spend of that coin.
            const STRUCT_LAUNCHER_ID: &[u8] = &[R, R, L, R, L, R, R, L];
            const STRUCT_LAUNCHER_PH: &[u8] = &[R, R, L, R, L, R, R, R];
            let sib = match kind {
                23 | 26 => {
                    let cur = atom32(&i.ht.t, i.puzzle, STRUCT_LAUNCHER_PH);
                    let other = if cur == chia_puzzles::SINGLETON_LAUNCHER_HASH { x32 } else { chia_puzzles::SINGLETON_LAUNCHER_HASH };
                    let n = i.ht.t.atom(&other);
                    replace_at(&mut i.ht.t, i.puzzle, STRUCT_LAUNCHER_PH, n).unwrap()
                }
                24 => {
                    let n = i.ht.t.atom(&x32);
                    replace_at(&mut i.ht.t, i.puzzle, STRUCT_LAUNCHER_ID, n).unwrap()
                }
                _ => {
                    let n = condgen::tagged_identity(&mut i.ht.t, 3);
                    replace_at(&mut i.ht.t, i.puzzle, PUZ_INNER, n).unwrap()
                }
            };
            let sib_ph = i.ht.hash(sib);
            assert_ne!(sib_ph, f.full_ph, "sibling puzzle must differ");
            if kind == 26 {
                let st = get_at(&i.ht.t, sib, PUZ_STRUCT).unwrap();
                let sh = i.ht.hash(st);
                let lineage_inner = get_at(&i.ht.t, i.solution, SOL_INNER_PH).and_then(|id| i.ht.t.atom_bytes(id).and_then(|b| <[u8; 32]>::try_from(b).ok()));
                if let Some(li) = lineage_inner {
                    let parent_ph = curry_hash(&f.struct_mod_hash, &[sh, li]);
                    i.coin.0 = mc::coin_id(&f.pp, &parent_ph, f.parent_amount);
                }
            }
            set_all_ph(&mut i, sib_ph);
        }
        21 => {
            let n = N::L(vec![a(&f.pp), int(f.parent_amount)]).to_tree(&mut i.ht.t);
            i.solution = replace_at(&mut i.ht.t, i.solution, SOL_LINEAGE, n).unwrap();
        }
        _ => {
            // a genuine eve spend: the parent is the launcher coin
            let mut sp = spec.unwrap().clone();
            let launcher_amount = sp.parent_amount;
            sp.launcher_id = mc::coin_id(&sp.pp, &sp.launcher_ph, launcher_amount);
            sp.eve = Some(launcher_amount);
            sp.sol_shape = 0;
            let b = build_spec(&sp);
            let ph = b.coin.1;
            i = with_target(b.ht, b.puzzle, b.solution, b.coin, ph, tg);
        }
    }
    (i, kind)
}

fn call_ff(i: &Inst, mode: BuildMode) -> Result<(Tree, Tid), String> {
    let mut al = Allocator::new();
    let pz = gentree::build(&mut al, &i.ht.t, i.puzzle, mode);
    let sl = gentree::build(&mut al, &i.ht.t, i.solution, mode);
    match fast_forward_singleton(&mut al, pz, sl, &coin_of(&i.coin), &coin_of(&i.new_coin), &coin_of(&i.new_parent)) {
        Ok(ns) => Ok(Tree::from_allocator(&al, ns, 1_000_000).expect("rewritten solution too large")),
        Err(e) => {
            let d = format!("{e:?}");
            Err(d.split('(').next().unwrap_or("?").to_string())
        }
    }
}

fn render_inst(i: &Inst) -> String {
    format!(
        "coin={} new_parent={} new_coin={} solution={} puzzle={}",
        coin_str(&i.coin),
        coin_str(&i.new_parent),
        coin_str(&i.new_coin),
        i.ht.t.render(i.solution),
        hex(&i.ht.t.serialize(i.puzzle))
    )
}

pub fn case_ff(bytes: &[u8], ctx: &mut Ctx) -> CaseResult {
    let mut s = Src::new(bytes);
    let which = s.weighted(&[24, 1, 1]);
    let mode = BuildMode::from_src(&mut s);
    let kind_choice = s.below(KINDS.len());
    let mut cs = s.sub(48);
    let tg_src_same_parent = s.chance(20);
    let mut tg = Target { npp: s.array(), np_amount: odd_amount(&mut s), nc_amount: odd_amount(&mut s) };
    if s.chance(40) {
        tg.npp = if s.bool() { [0; 32] } else { [0xff; 32] };
    }

    let (spec, mut g, source, sent) = if which == 0 {
        let spec = gen_spec(&mut s);
        let b = build_spec(&spec);
        let ph = b.coin.1;
        if tg_src_same_parent {
            // rebase onto the very same parent (identity rebase)
            tg.npp = spec.pp;
            tg.np_amount = spec.parent_amount;
        }
        let sent = spec.sent.clone();
        (Some(spec), with_target(b.ht, b.puzzle, b.solution, b.coin, ph, &tg), "generated", sent)
    } else {
        let r = &recorded()[which - 1];
        (None, with_target(r.ht.clone(), r.puzzle, r.solution, r.coin, r.coin.1, &tg), r.name, vec![])
    };
    ctx.ran_dry(s.ran_dry() || cs.ran_dry());
    ctx.label(format!("ff:source:{source}"));
    ctx.label(format!("ff:build-atoms-mode:{}", mode.atoms));
    let f = facts(&mut g);
    // harness self-check: the recorded / generated coin carries the reference
    // tree hash of its puzzle
    assert_eq!(f.full_ph, g.coin.1, "coin puzzle hash vs reference tree hash");
    let plain_shape = spec.as_ref().map_or(true, |sp| sp.sol_shape == 0);
    if let Some(sp) = &spec {
        if sp.sol_shape != 0 {
            ctx.label(format!("ff:solution-shape:{}", if sp.sol_shape == 1 { "extra-trailing-element" } else { "lineage-proof-fourth-element" }));
        }
    }

    let (corrupted, kind) = corrupt(kind_choice, &mut cs, &g, &f, spec.as_ref(), &tg);
    let kname = KINDS[kind];
    ctx.render(|| format!("source={source} build={mode:?}\n genuine: {}\n corruption {kname}: {}", render_inst(&g), render_inst(&corrupted)));

    // ---- the genuine input
    let flags = MEMPOOL_MODE | ConsensusFlags::DONT_VALIDATE_SIGNATURE;
    let h = helper();
    let hsol = helper_solution(&sent, &f.full_ph);
    let puzzle_bytes = g.ht.t.serialize(g.puzzle);
    let orig = run_bundle(
        &[(g.coin, puzzle_bytes.clone(), g.ht.t.serialize(g.solution)), (h.coin, h.puzzle.clone(), hsol.clone())],
        flags,
    );
    match &orig {
        Ok(_) => ctx.label("ff:original-runs"),
        Err(e) => ctx.label(format!("ff:original-fails:{source}:{e}")),
    }
    match call_ff(&g, mode) {
        Err(e) => ctx.label(format!("ff:genuine-refused:{e}")),
        Ok((t2, r2)) => {
            ctx.label("ff:rewritten");
            // (a) raw trees differ at most at the three positions
            let at = |p: &[u8]| get_at(&t2, r2, p).and_then(|id| t2.atom_bytes(id).map(<[u8]>::to_vec));
            let (Some(pp2), Some(pa2), Some(am2)) = (at(SOL_PP), at(SOL_PAMT), at(SOL_AMOUNT)) else {
                vfail!("C19:ff:rewritten-solution-shape", "rewritten solution {} has no atoms at the lineage parent / parent amount / amount positions", t2.render(r2));
            };
            let mut e = g.ht.clone();
            let mut exp = g.solution;
            for (p, v) in [(SOL_PP, &pp2), (SOL_PAMT, &pa2), (SOL_AMOUNT, &am2)] {
                let n = e.t.atom(v);
                exp = replace_at(&mut e.t, exp, p, n).expect("genuine solution has the three positions");
            }
            if e.t.serialize(exp) != t2.serialize(r2) {
                // is the only further difference that elements after the three
                // of the solution list / of the lineage proof were dropped?
                let (sol_items, _) = e.t.list_items(exp);
                let (lin_items, _) = e.t.list_items(sol_items[0]);
                let lin3 = e.t.list(&lin_items[..3.min(lin_items.len())]);
                let trunc = e.t.list(&[lin3, sol_items[1], sol_items[2]]);
                if e.t.serialize(trunc) == t2.serialize(r2) {
                    ctx.known_or_fail(SIG_DROPS_EXTRA, || {
                        format!(
                            "original solution {} vs rewritten {}: besides lineage parent, parent amount and coin amount, the rewrite drops the elements that follow the first three of the solution list / lineage proof (the original spend of coin runs: {})",
                            g.ht.t.render(g.solution),
                            t2.render(r2),
                            orig.is_ok()
                        )
                    })?;
                } else {
                    vfail!(
                        "C19:ff:rewrite-changes-more-than-lineage-and-amount",
                        "original solution {} vs rewritten {}: they differ outside lineage parent, parent amount and coin amount",
                        g.ht.t.render(g.solution),
                        t2.render(r2)
                    );
                }
            }
            if !plain_shape {
                ctx.label("ff:rewritten:unusual-solution-shape");
            }
            // (b) the rewritten spend runs as a spend of new_coin and (c) creates the same coins
            if let Ok(o1) = &orig {
                let re = run_bundle(&[(g.new_coin, puzzle_bytes.clone(), t2.serialize(r2)), (h.coin, h.puzzle.clone(), hsol.clone())], flags);
                match re {
                    Err(err) => vfail!(
                        "C19:ff:rewritten-spend-fails",
                        "fast_forward_singleton returned Ok, the original spend of coin runs, but the rewritten solution {} fails as a spend of new_coin {}: {err}",
                        t2.render(r2),
                        coin_str(&g.new_coin)
                    ),
                    Ok(o2) => {
                        ctx.label("ff:rerun-ok");
                        vensure!(o2.spends[0].coin_amount == g.new_coin.2 && o2.spends[0].parent_id.as_slice() == g.new_coin.0, "C19:ff:rerun-identity", "re-run spend is not new_coin");
                        vensure!(
                            o1.spends[0].create_coin == o2.spends[0].create_coin,
                            "C19:ff:rewritten-spend-creates-different-coins",
                            "created (puzzle hash, amount, hint): original {:?} vs rewritten {:?}",
                            o1.spends[0].create_coin,
                            o2.spends[0].create_coin
                        );
                        if !o1.spends[0].create_coin.is_empty() {
                            let mut fp = Fnv::new();
                            fp.write(&puzzle_bytes).write(&t2.serialize(r2)).write(&g.coin.0).write_u64(g.coin.2);
                            ctx.nontrivial(fp.finish());
                        }
                        ctx.label(format!("ff:new-amount-bytes:{}", vcore::model::int::enc_u64(g.new_coin.2).len()));
                    }
                }
            }
        }
    }

    // ---- the corruption: must be refused
    ctx.label(format!("corrupt:{kname}"));
    match call_ff(&corrupted, mode) {
        Err(e) => ctx.label(format!("corrupt:{kname}:refused:{e}")),
        Ok((t2, r2)) => vfail!(
            format!("C19:ff:corrupt-input-accepted:{kname}"),
            "fast_forward_singleton returned Ok({}) for an input that is not a genuine singleton spend of the stated coin with matching lineage ({kname}): {}",
            t2.render(r2),
            render_inst(&corrupted)
        ),
    }
    Ok(())
}
