//! The registry: every type with ToJsonDict/FromJsonDict.
//!
//!  * the ~110 `#[streamable]` structs of chia-protocol and chia-consensus's
//!    ConsensusConstants come from `build.rs`, which reads their field lists
//!    out of /repo's sources (`reg_struct!` then type-checks each against the
//!    real struct: the struct literal in `gen` has no `..`);
//!  * the classes that derive PyJsonDict by hand (SpendConditions,
//!    SpendBundleConditions, the DataLayer records) are listed here, checked
//!    by the compiler in the same way;
//!  * the hand-written impls (Bytes, BytesImpl<N>, Program, BLS elements),
//!    the primitives and the combinators are in `shape.rs`.

use std::any::Any;

use chia_bls::{G1Element, G2Element, GTElement, PublicKey, SecretKey, Signature};
use chia_consensus::consensus_constants::ConsensusConstants;
use chia_consensus::owned_conditions::{OwnedSpendBundleConditions, OwnedSpendConditions};
use chia_datalayer::{
    Hash, InternalNode, KeyId, LeafNode, Parent, ProofOfInclusion, ProofOfInclusionLayer, Side,
    TreeIndex, ValueId,
};
use chia_protocol::*;

use crate::shape::{enum_valid, Gen, Reg, Shape};

macro_rules! reg_struct {
    (@key upper $f:ident) => { stringify!($f).to_uppercase() };
    (@key lower $f:ident) => { stringify!($f).to_string() };
    ($name:ident { $($f:ident : $t:ty),* $(,)? }) => {
        reg_struct!{ @impl lower $name stringify!($name) ; $($f : $t),* }
    };
    (upper $name:ident { $($f:ident : $t:ty),* $(,)? }) => {
        reg_struct!{ @impl upper $name stringify!($name) ; $($f : $t),* }
    };
    ($name:ident as $py:literal { $($f:ident : $t:ty),* $(,)? }) => {
        reg_struct!{ @impl lower $name $py ; $($f : $t),* }
    };
    (@impl $case:ident $name:ident $py:expr ; $($f:ident : $t:ty),*) => {
        impl Reg for $name {
            fn shape() -> Shape {
                Shape::Struct {
                    name: $py,
                    fields: vec![$( (reg_struct!(@key $case $f), <$t as Reg>::shape()) ),*],
                }
            }
            #[allow(clippy::redundant_field_names)]
            fn gen(g: &mut Gen) -> Self {
                g.depth += 1;
                // no `..`: a field missing from (or unknown to) the table is a compile error
                let mut v = $name { $( $f: <$t as Reg>::gen(g) ),* };
                g.depth -= 1;
                fixup(&mut v, g);
                v
            }
        }
    };
}

macro_rules! reg_newtype {
    ($name:ident ( $t:ty )) => {
        impl Reg for $name {
            fn shape() -> Shape {
                <$t as Reg>::shape()
            }
            fn gen(g: &mut Gen) -> Self {
                $name(<$t as Reg>::gen(g))
            }
        }
    };
}

macro_rules! reg_enum {
    ($name:ty, $py:literal) => {
        impl Reg for $name {
            fn shape() -> Shape {
                Shape::Enum { name: $py, valid: enum_valid::<$name>() }
            }
            fn gen(g: &mut Gen) -> Self {
                let valid = enum_valid::<$name>();
                let d = *g.s.pick(&valid);
                <$name as chia_traits::Streamable>::from_bytes(&[d]).expect("valid discriminant")
            }
        }
    };
}

// generated: reg_struct!{..} for every #[streamable] struct + for_each_protocol_struct!
include!(concat!(env!("OUT_DIR"), "/protocol_structs.rs"));

reg_enum!(ProtocolMessageTypes, "ProtocolMessageTypes");
reg_enum!(NodeType, "NodeType");
reg_enum!(RejectStateReason, "RejectStateReason");
reg_enum!(MempoolRemoveReason, "MempoolRemoveReason");
reg_enum!(Side, "Side");

reg_struct! { OwnedSpendConditions as "SpendConditions" {
    coin_id: Bytes32,
    parent_id: Bytes32,
    puzzle_hash: Bytes32,
    coin_amount: u64,
    height_relative: Option<u32>,
    seconds_relative: Option<u64>,
    before_height_relative: Option<u32>,
    before_seconds_relative: Option<u64>,
    birth_height: Option<u32>,
    birth_seconds: Option<u64>,
    create_coin: Vec<(Bytes32, u64, Option<Bytes>)>,
    agg_sig_me: Vec<(PublicKey, Bytes)>,
    agg_sig_parent: Vec<(PublicKey, Bytes)>,
    agg_sig_puzzle: Vec<(PublicKey, Bytes)>,
    agg_sig_amount: Vec<(PublicKey, Bytes)>,
    agg_sig_puzzle_amount: Vec<(PublicKey, Bytes)>,
    agg_sig_parent_amount: Vec<(PublicKey, Bytes)>,
    agg_sig_parent_puzzle: Vec<(PublicKey, Bytes)>,
    flags: u32,
    execution_cost: u64,
    condition_cost: u64,
    fingerprint: Bytes,
} }

reg_struct! { OwnedSpendBundleConditions as "SpendBundleConditions" {
    spends: Vec<OwnedSpendConditions>,
    reserve_fee: u64,
    height_absolute: u32,
    seconds_absolute: u64,
    before_height_absolute: Option<u32>,
    before_seconds_absolute: Option<u64>,
    agg_sig_unsafe: Vec<(PublicKey, Bytes)>,
    cost: u64,
    removal_amount: u128,
    addition_amount: u128,
    validated_signature: bool,
    execution_cost: u64,
    condition_cost: u64,
    num_atoms: u32,
    num_pairs: u32,
    heap_size: u32,
} }

// DataLayer
reg_newtype!(TreeIndex(u32));
reg_newtype!(KeyId(i64));
reg_newtype!(ValueId(i64));
reg_newtype!(Hash(Bytes32));
reg_newtype!(Parent(Option<TreeIndex>));
reg_struct! { InternalNode { hash: Hash, parent: Parent, left: TreeIndex, right: TreeIndex } }
reg_struct! { LeafNode { hash: Hash, parent: Parent, key: KeyId, value: ValueId } }
reg_struct! { ProofOfInclusionLayer { other_hash_side: Side, other_hash: Hash, combined_hash: Hash } }
reg_struct! { ProofOfInclusion { node_hash: Hash, layers: Vec<ProofOfInclusionLayer> } }

/// Values whose binary encoding packs a version flag are made well-formed
/// (a value with `version == 7` has no encoding and no hash at all, so there
/// is nothing to compare): the version becomes 0 or 1.  In half of the cases
/// the fields that the selected version does not encode are also cleared
/// (canonical value); in the other half they keep their generated residue,
/// which JSON must preserve although the binary encoding drops it.
fn fixup<T: Any>(v: &mut T, g: &mut Gen) {
    let v = v as &mut dyn Any;
    if let Some(p) = v.downcast_mut::<ProofOfSpace>() {
        let raw = p.version;
        p.version = u8::from(raw >= 192);
        let canonical = raw & 1 == 0;
        if p.version == 0 {
            if canonical {
                p.plot_index = 0;
                p.meta_group = 0;
                p.strength = 0;
            }
        } else {
            if canonical {
                p.size = 0;
            }
            // the v2 encoding has exactly one of pool key / contract hash
            if p.pool_public_key.is_some() == p.pool_contract_puzzle_hash.is_some() {
                if g.s.bool() {
                    p.pool_public_key = Some(PublicKey::default());
                    p.pool_contract_puzzle_hash = None;
                } else {
                    p.pool_public_key = None;
                    p.pool_contract_puzzle_hash = Some(Bytes32::default());
                }
            }
        }
    } else if let Some(b) = v.downcast_mut::<FullBlock>() {
        let raw = b.version;
        b.version = u8::from(raw >= 160);
        if raw & 1 == 0 {
            if b.version == 0 {
                b.transactions_generator_buffer = None;
            } else {
                b.transactions_generator = None;
                b.transactions_generator_ref_list = vec![];
            }
        }
    } else if let Some(b) = v.downcast_mut::<UnfinishedBlock>() {
        let raw = b.version;
        b.version = u8::from(raw >= 160);
        if raw & 1 == 0 {
            if b.version == 0 {
                b.transactions_generator_buffer = None;
            } else {
                b.transactions_generator = None;
                b.transactions_generator_ref_list = vec![];
            }
        }
    }
}

// ---------------------------------------------------------------------------
// the list of root types

pub struct Entry {
    pub name: String,
    pub shape: Shape,
    pub run: fn(&Entry, &mut vcore::Src, &mut vcore::engine::Ctx) -> vcore::engine::CaseResult,
}

fn entry<T: Reg>(name: &str) -> Entry {
    Entry {
        name: name.to_string(),
        shape: T::shape(),
        run: crate::run_type::<T>,
    }
}

fn short(s: &str) -> String {
    // std::any::type_name without module paths
    let mut out = String::new();
    let mut word = String::new();
    for c in s.chars() {
        if c.is_alphanumeric() || c == '_' || c == ':' {
            word.push(c);
        } else {
            out.push_str(word.rsplit("::").next().unwrap_or(""));
            word.clear();
            if c != ' ' {
                out.push(c);
            }
        }
    }
    out.push_str(word.rsplit("::").next().unwrap_or(""));
    out
}

macro_rules! push_named {
    ($v:ident ; $($t:ty),* $(,)?) => { $( $v.push(entry::<$t>(&short(std::any::type_name::<$t>()))); )* };
}

pub fn registry() -> Vec<Entry> {
    let mut v: Vec<Entry> = vec![];
    macro_rules! protocol {
        ($($n:ident),* $(,)?) => { $( v.push(entry::<$n>(stringify!($n))); )* };
    }
    for_each_protocol_struct!(protocol);
    v.push(entry::<OwnedSpendConditions>("SpendConditions"));
    v.push(entry::<OwnedSpendBundleConditions>("SpendBundleConditions"));
    push_named!(v;
        // DataLayer
        TreeIndex, KeyId, ValueId, InternalNode, LeafNode, ProofOfInclusionLayer, ProofOfInclusion, Side,
        // enums
        ProtocolMessageTypes, NodeType, RejectStateReason, MempoolRemoveReason,
        // hand-written impls
        Bytes, Bytes32, Bytes48, Bytes96, Bytes100, Program,
        // primitives
        bool, u8, i8, u16, i16, u32, i32, u64, i64, u128, i128, String,
        // combinators
        Option<u64>, Option<i128>, Option<Bytes>, Option<String>,
        Vec<u8>, Vec<u128>, Vec<Option<i128>>, Vec<Vec<u32>>, Vec<String>, Vec<Bytes32>,
        (u16, String), (Bytes32, u64, Option<Bytes>), (PublicKey, Bytes), (i8, u128), (Bytes, bool, i64),
        [u64; 16], [u8; 3], [i128; 2],
        Vec<(Bytes32, Option<Coin>)>, Option<Vec<(Bytes32, Bytes, Option<Bytes>)>>, Vec<(Bytes32, Vec<Coin>)>,
        Vec<[u16; 2]>, Option<(u8, u8)>,
    );
    v.push(entry::<G1Element>("G1Element"));
    v.push(entry::<G2Element>("G2Element"));
    v.push(entry::<GTElement>("GTElement"));
    v.push(entry::<SecretKey>("PrivateKey"));
    let _ = std::marker::PhantomData::<Signature>;
    v
}
