//! Per-type description (`Shape`) and generator (`Reg::gen`) of everything that
//! has ToJsonDict/FromJsonDict.  The shape is what the corruption pass uses
//! to know, independently of the code under test, what a JSON node *must* be
//! (integer width and signedness, fixed byte length, optional or not, tuple
//! arity).

use std::sync::OnceLock;

use chia_bls::{GTElement, PublicKey, SecretKey, Signature};
use chia_protocol::{Bytes, BytesImpl, Program};
use chia_traits::{FromJsonDict, Streamable, ToJsonDict};
use vcore::Src;

#[derive(Debug, Clone, PartialEq)]
pub enum Shape {
    Bool,
    Int { bits: u32, signed: bool },
    Str,
    /// `Bytes`: "" when empty, else 0x + lower-case hex
    BytesVar,
    /// `BytesImpl<N>`
    BytesFixed(usize),
    /// hex of a CLVM serialization
    Program,
    /// BLS element of `len` encoded bytes (0x optional on input, by design)
    Bls { name: &'static str, len: usize },
    /// u8 discriminant of a `#[repr(u8)]` enum; `valid` from Streamable::parse
    Enum { name: &'static str, valid: Vec<u8> },
    Option(Box<Shape>),
    Vec(Box<Shape>),
    Tuple(Vec<Shape>),
    Array(usize, Box<Shape>),
    Struct { name: &'static str, fields: Vec<(String, Shape)> },
}

impl Shape {
    /// short stable name of the node kind (used in labels and signatures)
    pub fn kind(&self) -> String {
        match self {
            Shape::Bool => "bool".into(),
            Shape::Int { bits, signed } => format!("{}{}", if *signed { "i" } else { "u" }, bits),
            Shape::Str => "str".into(),
            Shape::BytesVar => "bytes".into(),
            Shape::BytesFixed(n) => format!("bytes{n}"),
            Shape::Program => "program".into(),
            Shape::Bls { name, .. } => (*name).to_string(),
            Shape::Enum { .. } => "enum".into(),
            Shape::Option(_) => "option".into(),
            Shape::Vec(_) => "vec".into(),
            Shape::Tuple(v) => format!("tuple{}", v.len()),
            Shape::Array(..) => "array".into(),
            Shape::Struct { .. } => "struct".into(),
        }
    }
}

/// generator state: the choice sequence plus a nesting depth that bounds the
/// size of nested lists
pub struct Gen<'a> {
    pub s: Src<'a>,
    pub depth: u32,
}

pub trait Reg:
    Sized + Clone + PartialEq + std::fmt::Debug + ToJsonDict + FromJsonDict + Streamable + 'static
{
    fn shape() -> Shape;
    fn gen(g: &mut Gen) -> Self;
}

// ---------------------------------------------------------------------------
// integers

/// bit pattern (two's complement in `bits` bits) of a generated integer:
/// 0 (simplest), small, boundaries (2^k, 2^k-1, max, max-1, sign bit), random
pub fn gen_int_bits(s: &mut Src, bits: u32) -> u128 {
    let mask: u128 = if bits == 128 { u128::MAX } else { (1u128 << bits) - 1 };
    let v = match s.weighted(&[2, 3, 3, 3, 5]) {
        0 => 0,
        1 => u128::from(s.u8()),
        2 => {
            // 2^k - 1, 2^k, 2^k + 1 for k in 0..=bits
            let k = s.below(bits as usize + 1) as u32;
            let p = if k == 128 { 0 } else { 1u128 << k };
            match s.below(3) {
                0 => p.wrapping_sub(1),
                1 => p,
                _ => p.wrapping_add(1),
            }
        }
        3 => {
            // extremes of the width: all ones, sign bit, sign bit - 1, all ones - 1
            let top = 1u128 << (bits - 1);
            *s.pick(&[mask, top, top - 1, mask - 1, top + 1])
        }
        _ => {
            let nbytes = (bits / 8) as usize;
            let mut v = 0u128;
            for _ in 0..nbytes {
                v = (v << 8) | u128::from(s.u8());
            }
            v
        }
    };
    v & mask
}

macro_rules! reg_int {
    ($t:ty, $bits:expr, $signed:expr) => {
        impl Reg for $t {
            fn shape() -> Shape {
                Shape::Int { bits: $bits, signed: $signed }
            }
            fn gen(g: &mut Gen) -> Self {
                gen_int_bits(&mut g.s, $bits) as $t
            }
        }
    };
}
reg_int!(u8, 8, false);
reg_int!(i8, 8, true);
reg_int!(u16, 16, false);
reg_int!(i16, 16, true);
reg_int!(u32, 32, false);
reg_int!(i32, 32, true);
reg_int!(u64, 64, false);
reg_int!(i64, 64, true);
reg_int!(u128, 128, false);
reg_int!(i128, 128, true);

impl Reg for bool {
    fn shape() -> Shape {
        Shape::Bool
    }
    fn gen(g: &mut Gen) -> Self {
        g.s.bool()
    }
}

const STR_PIECES: [&str; 12] = [
    "", "a", "mainnet", "0x", "0xabcd", "0.0.36", "é", "漢字", "😀", " ", "\"q\\", "\n",
];

impl Reg for String {
    fn shape() -> Shape {
        Shape::Str
    }
    fn gen(g: &mut Gen) -> Self {
        let n = g.s.weighted(&[2, 4, 2, 1]);
        let mut out = String::new();
        for _ in 0..n {
            let p: &str = g.s.pick::<&str>(&STR_PIECES[..]);
            out.push_str(p);
        }
        out
    }
}

// ---------------------------------------------------------------------------
// bytes

/// `n` bytes: all zero (simplest), all 0xff, a counting pattern, or expanded
/// from a 4-byte seed (cheap on the choice sequence)
pub fn gen_bytes(s: &mut Src, n: usize) -> Vec<u8> {
    match s.weighted(&[1, 1, 1, 6]) {
        0 => vec![0u8; n],
        1 => vec![0xffu8; n],
        2 => (0..n).map(|i| i as u8).collect(),
        _ => {
            let mut x = u64::from(s.u32()) | 0x9e37_79b9_0000_0000;
            (0..n)
                .map(|_| {
                    x ^= x << 13;
                    x ^= x >> 7;
                    x ^= x << 17;
                    (x >> 24) as u8
                })
                .collect()
        }
    }
}

/// a length around a power of two between 1 KiB and 64 KiB, or arbitrary up to 100 000
pub fn big_len(s: &mut Src) -> usize {
    if s.bool() {
        let k = 10 + s.below(7);
        ((1usize << k) + s.below(5)).saturating_sub(2)
    } else {
        1000 + s.below(99_000)
    }
}

impl Reg for Bytes {
    fn shape() -> Shape {
        Shape::BytesVar
    }
    fn gen(g: &mut Gen) -> Self {
        let n = match g.s.weighted(&[20, 30, 20, 20, 1]) {
            0 => 0,
            1 => 1 + g.s.below(4),
            2 => 32,
            3 => 5 + g.s.below(60),
            // rarely: kilobytes (puzzle reveals, generators and VDF witnesses are
            // this large in practice), sizes around powers of two
            _ => big_len(&mut g.s),
        };
        Bytes::from(gen_bytes(&mut g.s, n))
    }
}

impl<const N: usize> Reg for BytesImpl<N> {
    fn shape() -> Shape {
        Shape::BytesFixed(N)
    }
    fn gen(g: &mut Gen) -> Self {
        let v = gen_bytes(&mut g.s, N);
        let a: [u8; N] = v.try_into().expect("N bytes");
        BytesImpl::new(a)
    }
}

fn gen_clvm(s: &mut Src, depth: u32, out: &mut Vec<u8>) {
    if depth < 3 && s.chance(80) {
        out.push(0xff);
        gen_clvm(s, depth + 1, out);
        gen_clvm(s, depth + 1, out);
        return;
    }
    match s.weighted(&[90, 90, 60, 30, 1, 6]) {
        5 => {
            // a valid but NON-MINIMAL atom encoding, as a foreign serializer may
            // emit it (the streamable parser, consensus and from_json_dict accept
            // it, and a Program keeps its bytes as they are): a one-byte atom below
            // 0x80 behind a length prefix, a short atom behind a two-byte prefix,
            // the empty atom behind a two-byte prefix
            match s.below(3) {
                0 => {
                    out.push(0x81);
                    out.push(s.u8() & 0x7f);
                }
                1 => {
                    let n = 1 + s.below(20);
                    out.push(0xc0);
                    out.push(n as u8);
                    let mut b = gen_bytes(s, n);
                    for x in &mut b {
                        if *x == 0xfe {
                            *x = 0x7e;
                        }
                    }
                    out.extend_from_slice(&b);
                }
                _ => {
                    out.push(0xc0);
                    out.push(0x00);
                }
            }
        }
        4 => {
            // rarely: a large atom (two- or three-byte length prefix)
            let n = big_len(s);
            if n < 0x2000 {
                out.push(0xc0 | ((n >> 8) as u8));
                out.push((n & 0xff) as u8);
            } else {
                out.push(0xe0 | ((n >> 16) as u8));
                out.push(((n >> 8) & 0xff) as u8);
                out.push((n & 0xff) as u8);
            }
            out.extend_from_slice(&gen_bytes(s, n));
        }
        0 => out.push(0x80),                    // nil
        1 => out.push(s.u8() & 0x7f),           // one-byte atom
        2 => {
            let n = 1 + s.below(40);
            let mut b = gen_bytes(s, n);
            if n == 1 {
                b[0] |= 0x80; // a single byte < 0x80 would have to be its own encoding
            }
            out.push(0x80 | n as u8);
            out.extend_from_slice(&b);
        }
        _ => {
            // two-byte length prefix
            let n = 64 + s.below(100);
            out.push(0xc0 | ((n >> 8) as u8));
            out.push((n & 0xff) as u8);
            out.extend_from_slice(&gen_bytes(s, n));
        }
    }
}

impl Reg for Program {
    fn shape() -> Shape {
        Shape::Program
    }
    fn gen(g: &mut Gen) -> Self {
        let mut out = vec![];
        gen_clvm(&mut g.s, 0, &mut out);
        Program::from(out)
    }
}

// ---------------------------------------------------------------------------
// BLS elements: drawn from a small precomputed pool (key generation and
// signing are too slow to do per field)

struct Pool {
    sk: Vec<SecretKey>,
    pk: Vec<PublicKey>,
    sig: Vec<Signature>,
    gt: Vec<GTElement>,
}

fn pool() -> &'static Pool {
    static P: OnceLock<Pool> = OnceLock::new();
    P.get_or_init(|| {
        let mut sk = vec![];
        let mut pk = vec![PublicKey::default()];
        let mut sig = vec![Signature::default()];
        for i in 0..8u8 {
            let k = SecretKey::from_seed(&[i.wrapping_mul(37).wrapping_add(1); 32]);
            pk.push(k.public_key());
            sig.push(chia_bls::sign(&k, [i, 1, 2, 3]));
            sk.push(k);
        }
        let mut gt = vec![];
        for i in 0..4 {
            gt.push(pk[i + 1].pair(&sig[(i * 3) % 8 + 1]));
        }
        Pool { sk, pk, sig, gt }
    })
}

impl Reg for PublicKey {
    fn shape() -> Shape {
        Shape::Bls { name: "G1Element", len: 48 }
    }
    fn gen(g: &mut Gen) -> Self {
        g.s.pick(&pool().pk).clone()
    }
}
impl Reg for Signature {
    fn shape() -> Shape {
        Shape::Bls { name: "G2Element", len: 96 }
    }
    fn gen(g: &mut Gen) -> Self {
        g.s.pick(&pool().sig).clone()
    }
}
impl Reg for GTElement {
    fn shape() -> Shape {
        Shape::Bls { name: "GTElement", len: 576 }
    }
    fn gen(g: &mut Gen) -> Self {
        g.s.pick(&pool().gt).clone()
    }
}
impl Reg for SecretKey {
    fn shape() -> Shape {
        Shape::Bls { name: "PrivateKey", len: 32 }
    }
    fn gen(g: &mut Gen) -> Self {
        g.s.pick(&pool().sk).clone()
    }
}

// ---------------------------------------------------------------------------
// combinators

impl<T: Reg> Reg for Option<T> {
    fn shape() -> Shape {
        Shape::Option(Box::new(T::shape()))
    }
    fn gen(g: &mut Gen) -> Self {
        if g.s.chance(150) {
            Some(T::gen(g))
        } else {
            None
        }
    }
}

impl<T: Reg> Reg for Vec<T> {
    fn shape() -> Shape {
        Shape::Vec(Box::new(T::shape()))
    }
    fn gen(g: &mut Gen) -> Self {
        let n = if g.depth >= 4 {
            g.s.weighted(&[3, 1])
        } else if g.depth >= 2 {
            g.s.weighted(&[3, 3, 1])
        } else {
            g.s.weighted(&[2, 4, 3, 1, 1])
        };
        g.depth += 1;
        let v = (0..n).map(|_| T::gen(g)).collect();
        g.depth -= 1;
        v
    }
}

impl<T: Reg, U: Reg> Reg for (T, U) {
    fn shape() -> Shape {
        Shape::Tuple(vec![T::shape(), U::shape()])
    }
    fn gen(g: &mut Gen) -> Self {
        (T::gen(g), U::gen(g))
    }
}

impl<T: Reg, U: Reg, W: Reg> Reg for (T, U, W) {
    fn shape() -> Shape {
        Shape::Tuple(vec![T::shape(), U::shape(), W::shape()])
    }
    fn gen(g: &mut Gen) -> Self {
        (T::gen(g), U::gen(g), W::gen(g))
    }
}

impl<T: Reg + Copy + Default, const N: usize> Reg for [T; N] {
    fn shape() -> Shape {
        Shape::Array(N, Box::new(T::shape()))
    }
    fn gen(g: &mut Gen) -> Self {
        std::array::from_fn(|_| T::gen(g))
    }
}

/// valid discriminants of a `#[repr(u8)]` Streamable enum, decided by the
/// *binary* decoder (independent of the JSON code)
pub fn enum_valid<T: Streamable>() -> Vec<u8> {
    (0..=255u8).filter(|d| T::from_bytes(&[*d]).is_ok()).collect()
}
