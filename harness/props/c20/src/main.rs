//! C20 — the Python JSON representation round-trips every exported value.
//!
//! Code under test: `ToJsonDict` / `FromJsonDict` (chia-traits primitives and
//! combinators, the `PyJsonDict` derive, the hand-written impls for Bytes,
//! BytesImpl<N>, Program and the BLS elements), called through an embedded
//! CPython (pyo3).  The thin `#[pymethods]` wrappers `to_json_dict` /
//! `from_json_dict` of the wheel call exactly these trait methods.
//!
//! A case = (type from the registry, value generated from the choice
//! sequence, a handful of single-node edits of its JSON form).
//!
//!  1. round trip: v' = from_json_dict(to_json_dict(v)) must exist, be equal
//!     to v, encode to the same bytes and hash to the same digest;
//!  2. invalid edits (invalid whatever the code does, decided from the
//!     harness's own per-type `Shape`): each must raise;
//!  3. valid edits (integer boundaries of the field's width, variable-length
//!     bytes one byte longer/shorter, list one element longer/shorter, Some →
//!     None, changed string/bool): each must be accepted and the resulting
//!     value's JSON must be exactly the edited JSON.

mod reg;
mod shape;

use std::panic::{catch_unwind, AssertUnwindSafe};
use std::sync::OnceLock;

use pyo3::prelude::*;
use pyo3::types::{PyDict, PyList, PyString};
use vcore::engine::{self, CaseResult, Ctx, Failure, Property, Source, SubCheck};
use vcore::{vensure, vfail, Fnv, Src};

use reg::Entry;
use shape::{Gen, Reg, Shape};

fn registry() -> &'static Vec<Entry> {
    static R: OnceLock<Vec<Entry>> = OnceLock::new();
    R.get_or_init(reg::registry)
}

/// bytes reserved at the front of the choice sequence for the edit choices, so
/// that the value's generator (which consumes a variable amount) does not
/// shift them
const OPS_BYTES: usize = 160;
const N_OPS: usize = 12;

fn case(bytes: &[u8], ctx: &mut Ctx) -> CaseResult {
    let reg = registry();
    let mut s = Src::new(bytes);
    let e = &reg[s.below(reg.len())];
    ctx.label(format!("type:{}", e.name));
    (e.run)(e, &mut s, ctx)
}

// ---------------------------------------------------------------------------
// small Python helpers (harness side: these cannot fail)

#[derive(Clone, Debug)]
enum Step {
    Key(String),
    Idx(usize),
}

fn get<'py>(parent: &Bound<'py, PyAny>, key: &Step) -> Bound<'py, PyAny> {
    match key {
        Step::Key(k) => parent.get_item(k.as_str()),
        Step::Idx(i) => parent.get_item(*i),
    }
    .expect("harness: JSON node present")
}

fn set(parent: &Bound<'_, PyAny>, key: &Step, v: &Bound<'_, PyAny>) {
    match key {
        Step::Key(k) => parent.set_item(k.as_str(), v),
        Step::Idx(i) => parent.set_item(*i, v),
    }
    .expect("harness: set JSON node");
}

fn pyrepr(o: &Bound<'_, PyAny>, max: usize) -> String {
    let mut s = o.repr().map(|r| r.to_string()).unwrap_or_else(|_| "<unrepresentable>".into());
    if s.len() > max {
        let mut cut = max;
        while !s.is_char_boundary(cut) {
            cut -= 1;
        }
        s.truncate(cut);
        s.push('…');
    }
    s
}

fn pow2<'py>(py: Python<'py>, k: u32) -> Bound<'py, PyAny> {
    1u8.into_pyobject(py)
        .unwrap()
        .into_any()
        .call_method1("__lshift__", (k,))
        .expect("harness: int shift")
}

fn plus<'py>(a: &Bound<'py, PyAny>, d: i64) -> Bound<'py, PyAny> {
    a.call_method1("__add__", (d,)).expect("harness: int add")
}

fn neg<'py>(a: &Bound<'py, PyAny>) -> Bound<'py, PyAny> {
    a.call_method0("__neg__").expect("harness: int neg")
}

fn pystr<'py>(py: Python<'py>, s: &str) -> Bound<'py, PyAny> {
    PyString::new(py, s).into_any()
}

fn list_items<'py>(l: &Bound<'py, PyAny>) -> Vec<Bound<'py, PyAny>> {
    l.try_iter().expect("harness: list").map(|x| x.expect("harness: item")).collect()
}

// ---------------------------------------------------------------------------
// walking the JSON alongside the shape

struct Site<'py, 'a> {
    parent: Bound<'py, PyAny>,
    key: Step,
    cur: Bound<'py, PyAny>,
    shape: &'a Shape,
    /// the slot's declared type is Option<…> (None is a legal value here)
    optional: bool,
    path: String,
}

#[derive(Default)]
struct Facts {
    v2_pos: bool,
    opt_some: u32,
    opt_none: u32,
    int_wide: u32,
    bytes_nonempty: u32,
    list_nonempty: u32,
    leaves: u32,
}

fn bad_form(path: &str, shape: &Shape, cur: &Bound<'_, PyAny>) -> Failure {
    Failure {
        sig: format!("C20:to-json:unexpected-form:{}", shape.kind()),
        msg: format!(
            "to_json_dict produced {} at {path} where a {} is declared",
            pyrepr(cur, 120),
            shape.kind()
        ),
    }
}

fn walk<'py, 'a>(
    shape: &'a Shape,
    parent: &Bound<'py, PyAny>,
    key: Step,
    path: String,
    optional: bool,
    sites: &mut Vec<Site<'py, 'a>>,
    facts: &mut Facts,
) -> Result<(), Failure> {
    let cur = get(parent, &key);
    if let Shape::Option(inner) = shape {
        if cur.is_none() {
            facts.opt_none += 1;
            sites.push(Site { parent: parent.clone(), key, cur, shape, optional: true, path });
            return Ok(());
        }
        facts.opt_some += 1;
        return walk(inner, parent, key, path, true, sites, facts);
    }
    sites.push(Site {
        parent: parent.clone(),
        key,
        cur: cur.clone(),
        shape,
        optional,
        path: path.clone(),
    });
    match shape {
        Shape::Struct { name, fields } => {
            let Ok(d) = cur.cast::<PyDict>() else {
                return Err(bad_form(&path, shape, &cur));
            };
            for (k, fs) in fields {
                if !d.contains(k.as_str()).unwrap_or(false) {
                    return Err(Failure {
                        sig: "C20:to-json:missing-key".into(),
                        msg: format!("to_json_dict of {name} at {path} has no key {k:?}: {}", pyrepr(&cur, 200)),
                    });
                }
                walk(fs, &cur, Step::Key(k.clone()), format!("{path}.{k}"), false, sites, facts)?;
            }
            if *name == "ProofOfSpace" {
                if let Ok(Some(v)) = d.get_item("version") {
                    if v.extract::<u8>().ok() == Some(1) {
                        facts.v2_pos = true;
                    }
                }
            }
        }
        Shape::Vec(inner) => {
            let Ok(l) = cur.cast::<PyList>() else {
                return Err(bad_form(&path, shape, &cur));
            };
            if l.len() > 0 {
                facts.list_nonempty += 1;
            }
            for i in 0..l.len() {
                walk(inner, &cur, Step::Idx(i), format!("{path}[{i}]"), false, sites, facts)?;
            }
        }
        Shape::Tuple(shapes) => {
            let Ok(l) = cur.cast::<PyList>() else {
                return Err(bad_form(&path, shape, &cur));
            };
            if l.len() != shapes.len() {
                return Err(bad_form(&path, shape, &cur));
            }
            for (i, sh) in shapes.iter().enumerate() {
                walk(sh, &cur, Step::Idx(i), format!("{path}[{i}]"), false, sites, facts)?;
            }
        }
        Shape::Array(n, inner) => {
            let Ok(l) = cur.cast::<PyList>() else {
                return Err(bad_form(&path, shape, &cur));
            };
            if l.len() != *n {
                return Err(bad_form(&path, shape, &cur));
            }
            for i in 0..*n {
                walk(inner, &cur, Step::Idx(i), format!("{path}[{i}]"), false, sites, facts)?;
            }
        }
        Shape::Int { bits, .. } => {
            facts.leaves += 1;
            if *bits > 32 {
                if let Ok(v) = cur.extract::<i128>() {
                    if v.unsigned_abs() >= 1 << 32 {
                        facts.int_wide += 1;
                    }
                } else {
                    facts.int_wide += 1; // does not even fit i128
                }
            }
        }
        Shape::BytesVar | Shape::BytesFixed(_) | Shape::Program | Shape::Bls { .. } => {
            facts.leaves += 1;
            if cur.len().unwrap_or(0) > 2 {
                facts.bytes_nonempty += 1;
            }
        }
        _ => facts.leaves += 1,
    }
    Ok(())
}

/// first node at which two JSON forms of the same shape differ
fn diff(shape: &Shape, a: &Bound<'_, PyAny>, b: &Bound<'_, PyAny>, path: &str) -> Option<(String, String)> {
    if a.eq(b).unwrap_or(false) {
        return None;
    }
    let here = |k: String| Some((k, format!("{path}: {} vs {}", pyrepr(a, 100), pyrepr(b, 100))));
    if a.is_none() || b.is_none() {
        return here(format!("{}:none-vs-some", shape.kind()));
    }
    match shape {
        Shape::Option(inner) => diff(inner, a, b, path),
        Shape::Struct { fields, .. } => {
            for (k, fs) in fields {
                let (Ok(x), Ok(y)) = (a.get_item(k.as_str()), b.get_item(k.as_str())) else {
                    return here("struct:key".into());
                };
                if let Some(d) = diff(fs, &x, &y, &format!("{path}.{k}")) {
                    return Some(d);
                }
            }
            here("struct".into())
        }
        Shape::Vec(inner) | Shape::Array(_, inner) => {
            let (x, y) = (list_items(a), list_items(b));
            if x.len() != y.len() {
                return here(format!("{}:length", shape.kind()));
            }
            for (i, (p, q)) in x.iter().zip(y.iter()).enumerate() {
                if let Some(d) = diff(inner, p, q, &format!("{path}[{i}]")) {
                    return Some(d);
                }
            }
            here(shape.kind())
        }
        Shape::Tuple(shapes) => {
            let (x, y) = (list_items(a), list_items(b));
            if x.len() != y.len() {
                return here(format!("{}:length", shape.kind()));
            }
            for (i, sh) in shapes.iter().enumerate() {
                if let Some(d) = diff(sh, &x[i], &y[i], &format!("{path}[{i}]")) {
                    return Some(d);
                }
            }
            here(shape.kind())
        }
        _ => here(shape.kind()),
    }
}

// ---------------------------------------------------------------------------
// edits

#[derive(Clone, Copy, PartialEq, Debug)]
enum Expect {
    /// invalid whatever the field's type: from_json_dict must raise
    Reject,
    /// must be accepted and the result's JSON must equal the edited JSON
    Accept,
    /// not covered by the property statement (missing `0x`): an error, or
    /// the very same value — never another value
    RejectOrSame,
    /// outcome recorded, nothing asserted
    Unasserted,
}

struct Edit<'py> {
    name: &'static str,
    expect: Expect,
    /// None = delete the key `del` from the dict at the site
    new: Option<Bound<'py, PyAny>>,
    del: Option<String>,
}

fn edit<'py>(name: &'static str, expect: Expect, new: Bound<'py, PyAny>) -> Option<Edit<'py>> {
    Some(Edit { name, expect, new: Some(new), del: None })
}

/// choose one edit applicable to the site; None when the drawn alternative
/// does not apply to this node (counted as `edit:none`)
fn choose_edit<'py>(py: Python<'py>, site: &Site<'py, '_>, o: &mut Src) -> Option<Edit<'py>> {
    // 1 in 6: None in place of the node
    if o.below(6) == 5 {
        return if site.optional {
            if site.cur.is_none() {
                None
            } else {
                edit("some-to-none", Expect::Accept, py.None().into_bound(py))
            }
        } else if matches!(site.shape, Shape::Struct { fields, .. } if fields.is_empty()) {
            // a class without fields reads nothing from its input: there is
            // no "missing value of a field" to speak of
            edit("none-for-empty-class", Expect::Unasserted, py.None().into_bound(py))
        } else {
            edit("none-for-non-optional", Expect::Reject, py.None().into_bound(py))
        };
    }
    match site.shape {
        Shape::Option(_) => None, // a None node: nothing else to do
        Shape::Struct { fields, .. } => {
            if fields.is_empty() {
                return None;
            }
            let (k, fs) = &fields[o.below(fields.len())];
            let optional = matches!(fs, Shape::Option(_));
            Some(Edit {
                name: if optional { "delete-key-of-optional" } else { "delete-key" },
                expect: if optional { Expect::Unasserted } else { Expect::Reject },
                new: None,
                del: Some(k.clone()),
            })
        }
        Shape::Int { bits, signed } => {
            let (bits, signed) = (*bits, *signed);
            let max = if signed { plus(&pow2(py, bits - 1), -1) } else { plus(&pow2(py, bits), -1) };
            let min = if signed { neg(&pow2(py, bits - 1)) } else { 0u8.into_pyobject(py).unwrap().into_any() };
            match o.below(12) {
                0 => edit("int-plus-2^200", Expect::Reject, pow2(py, 200)),
                1 => edit("int-minus-2^200", Expect::Reject, neg(&pow2(py, 200))),
                2 => edit("int-max-plus-1", Expect::Reject, plus(&max, 1)),
                3 => edit("int-min-minus-1", Expect::Reject, plus(&min, -1)),
                4 => edit("int-as-string", Expect::Reject, pystr(py, "not-an-int")),
                5 => {
                    if signed {
                        edit("int-2^width", Expect::Reject, pow2(py, bits))
                    } else {
                        edit("int-minus-1-unsigned", Expect::Reject, (-1i8).into_pyobject(py).unwrap().into_any())
                    }
                }
                6 => edit("int-valid-max", Expect::Accept, max),
                7 => edit("int-valid-min", Expect::Accept, min),
                8 => edit("int-valid-max-minus-1", Expect::Accept, plus(&max, -1)),
                9 => edit("int-valid-min-plus-1", Expect::Accept, plus(&min, 1)),
                10 => {
                    // a power of two inside the range, or its predecessor
                    let top = if signed { bits - 1 } else { bits };
                    let k = o.below(top as usize) as u32;
                    let p = pow2(py, k);
                    edit("int-valid-power-of-two", Expect::Accept, if o.bool() { p } else { plus(&p, -1) })
                }
                _ => {
                    if signed {
                        let k = o.below(bits as usize - 1) as u32;
                        edit("int-valid-negative", Expect::Accept, neg(&pow2(py, k)))
                    } else {
                        edit("int-valid-zero", Expect::Accept, 0u8.into_pyobject(py).unwrap().into_any())
                    }
                }
            }
        }
        Shape::Enum { valid, .. } => match o.below(4) {
            0 => edit("enum-256", Expect::Reject, 256u16.into_pyobject(py).unwrap().into_any()),
            1 => edit("enum-minus-1", Expect::Reject, (-1i8).into_pyobject(py).unwrap().into_any()),
            2 => {
                let invalid: Vec<u8> = (0..=255u8).filter(|d| !valid.contains(d)).collect();
                if invalid.is_empty() {
                    return None;
                }
                let d = *o.pick(&invalid);
                edit("enum-invalid-discriminant", Expect::Reject, d.into_pyobject(py).unwrap().into_any())
            }
            _ => {
                let d = *o.pick(valid);
                edit("enum-valid-other", Expect::Accept, d.into_pyobject(py).unwrap().into_any())
            }
        },
        Shape::Bool => {
            let b = site.cur.extract::<bool>().ok()?;
            edit("bool-flip", Expect::Accept, (!b).into_pyobject(py).unwrap().to_owned().into_any())
        }
        Shape::Str => {
            let alt = *o.pick(&["", "0x", "0xzz", "changed", "ünï", "00"]);
            edit("str-changed", Expect::Accept, pystr(py, alt))
        }
        Shape::BytesVar | Shape::BytesFixed(_) | Shape::Program | Shape::Bls { .. } => {
            let s: String = site.cur.extract().ok()?;
            let fixed = matches!(site.shape, Shape::BytesFixed(_) | Shape::Bls { .. });
            let var = matches!(site.shape, Shape::BytesVar);
            let ndig = s.len().saturating_sub(2);
            match o.below(7) {
                0 => {
                    // one non-hex digit
                    // characters that sloppy parsers tolerate: signs (integer parsers accept a
                    // leading '+'), separators, whitespace, look-alikes, neighbours of the hex
                    // ranges in ASCII ('/', ':', '@', '`'), full-width digits
                    let bad = *o.pick(&['g', 'G', 'x', ' ', '-', 'O', '+', '_', '.', ':', '/', '@', '`', '\n', '\u{ff11}', 'l']);
                    let t = if ndig == 0 {
                        format!("0x{bad}{bad}")
                    } else {
                        let at = 2 + o.below(ndig);
                        let mut c: Vec<char> = s.chars().collect();
                        c[at] = bad;
                        c.into_iter().collect()
                    };
                    edit("hex-non-hex-digit", Expect::Reject, pystr(py, &t))
                }
                1 => {
                    // odd number of digits: one more, or one less
                    let t = if ndig == 0 {
                        "0x0".to_string()
                    } else if o.bool() {
                        format!("{s}{}", o.pick(&['0', '1', 'f']))
                    } else {
                        s[..s.len() - 1].to_string()
                    };
                    edit("hex-odd-length", Expect::Reject, pystr(py, &t))
                }
                2 => {
                    if ndig == 0 {
                        return None;
                    }
                    edit("hex-missing-0x", Expect::RejectOrSame, pystr(py, &s[2..]))
                }
                3 => {
                    let t = format!("{s}{}", o.pick(&["00", "ab", "ff"]));
                    if fixed {
                        edit("fixed-bytes-one-more", Expect::Reject, pystr(py, &t))
                    } else if var {
                        let t = if ndig == 0 { "0x5a".to_string() } else { t };
                        edit("var-bytes-one-more", Expect::Accept, pystr(py, &t))
                    } else {
                        None // Program: validity depends on the CLVM structure
                    }
                }
                4 => {
                    if ndig < 2 {
                        return None;
                    }
                    let t = &s[..s.len() - 2];
                    if fixed {
                        edit("fixed-bytes-one-less", Expect::Reject, pystr(py, t))
                    } else if var {
                        // the canonical form of the empty byte string is ""
                        let t = if t == "0x" { "" } else { t };
                        edit("var-bytes-one-less", Expect::Accept, pystr(py, t))
                    } else {
                        None
                    }
                }
                5 => {
                    if !fixed || ndig < 2 {
                        return None;
                    }
                    // drop the first byte instead of the last
                    let t = format!("0x{}", &s[4..]);
                    edit("fixed-bytes-one-less", Expect::Reject, pystr(py, &t))
                }
                _ => {
                    if !var || ndig == 0 {
                        return None;
                    }
                    // same length, different content (valid)
                    let mut c: Vec<char> = s.chars().collect();
                    let at = 2 + o.below(ndig);
                    c[at] = if c[at] == '7' { 'e' } else { '7' };
                    edit("var-bytes-changed", Expect::Accept, pystr(py, &c.into_iter().collect::<String>()))
                }
            }
        }
        Shape::Vec(_) => {
            let mut items = list_items(&site.cur);
            match o.below(3) {
                0 => {
                    items.pop()?;
                    edit("vec-one-less", Expect::Accept, PyList::new(py, items).unwrap().into_any())
                }
                1 => {
                    if items.is_empty() {
                        return None;
                    }
                    let at = o.below(items.len());
                    let dup = items[at].clone();
                    items.insert(at, dup);
                    edit("vec-one-more", Expect::Accept, PyList::new(py, items).unwrap().into_any())
                }
                _ => {
                    if items.is_empty() {
                        return None;
                    }
                    let at = o.below(items.len());
                    items.remove(at);
                    edit("vec-one-less", Expect::Accept, PyList::new(py, items).unwrap().into_any())
                }
            }
        }
        Shape::Tuple(_) | Shape::Array(..) => {
            let mut items = list_items(&site.cur);
            let arr = matches!(site.shape, Shape::Array(..));
            match o.below(3) {
                0 => {
                    let last = items.last()?.clone();
                    items.push(last);
                    edit(if arr { "array-one-more" } else { "tuple-one-more" }, Expect::Reject, PyList::new(py, items).unwrap().into_any())
                }
                1 => {
                    items.pop()?;
                    edit(if arr { "array-one-less" } else { "tuple-one-less" }, Expect::Reject, PyList::new(py, items).unwrap().into_any())
                }
                _ => {
                    if items.is_empty() {
                        return None;
                    }
                    items.remove(0);
                    edit(if arr { "array-one-less" } else { "tuple-one-less" }, Expect::Reject, PyList::new(py, items).unwrap().into_any())
                }
            }
        }
    }
}

// ---------------------------------------------------------------------------
// one case for one type

pub fn run_type<T: Reg>(e: &Entry, s: &mut Src, ctx: &mut Ctx) -> CaseResult {
    let mut ops = s.sub(OPS_BYTES);
    let mut g = Gen { s: s.sub(s.remaining()), depth: 0 };
    let v = T::gen(&mut g);
    ctx.ran_dry(g.s.ran_dry());
    let tname = e.name.as_str();

    let bytes_v = v.to_bytes().map_err(|err| format!("{err:?}"));
    let hash_v = catch_unwind(AssertUnwindSafe(|| v.hash())).ok();

    Python::attach(|py| -> CaseResult {
        let j = match v.to_json_dict(py) {
            Ok(j) => j.into_bound(py),
            Err(err) => vfail!("C20:to-json:raised", "to_json_dict of {tname} {v:?} raised {err}"),
        };
        let holder = PyList::new(py, [&j]).expect("harness: holder").into_any();
        let root = Step::Idx(0);
        let want_render = ctx.want_render();
        let jrepr = if want_render { pyrepr(&j, 1500) } else { String::new() };
        ctx.render(|| format!("{tname}: {jrepr}"));

        // ---- 1. round trip
        let v1 = match T::from_json_dict(&get(&holder, &root)) {
            Ok(x) => x,
            Err(err) => vfail!(
                "C20:roundtrip:rejected",
                "from_json_dict rejects the JSON that to_json_dict produced for a {tname}: {err}; JSON = {}",
                pyrepr(&j, 600)
            ),
        };
        if v1 != v {
            let j1 = v1.to_json_dict(py).map(|x| x.into_bound(py)).ok();
            let d = j1.as_ref().and_then(|j1| diff(&e.shape, &j, j1, tname));
            let (kind, at) = d.unwrap_or(("json-equal".into(), "the two values have the same JSON".into()));
            vfail!(
                format!("C20:roundtrip:value-differs:{kind}"),
                "{tname}: from_json_dict(to_json_dict(v)) != v; first difference (original vs round-tripped) at {at}"
            );
        }
        let bytes_1 = v1.to_bytes().map_err(|err| format!("{err:?}"));
        vensure!(
            bytes_1 == bytes_v,
            "C20:roundtrip:bytes-differ",
            "{tname}: to_bytes of the round-tripped value differs: {bytes_v:?} vs {bytes_1:?}"
        );

        if let Ok(b) = &bytes_v {
            if b.len() > 8192 {
                ctx.label("value:encoding-over-8KiB");
            }
        }
        // ---- 2. sites
        let mut sites: Vec<Site> = vec![];
        let mut facts = Facts::default();
        walk(&e.shape, &holder, root.clone(), tname.to_string(), false, &mut sites, &mut facts)?;

        match hash_v {
            Some(h) => {
                let h1 = v1.hash();
                vensure!(h1 == h, "C20:roundtrip:hash-differs", "{tname}: hash of the round-tripped value differs");
                ctx.label("hash:compared");
            }
            None => {
                // hash() panics for a v2 proof of space whose proof does not
                // validate (tracked under C14); anything else is a failure
                vensure!(
                    facts.v2_pos,
                    "C20:hash-panics",
                    "{tname}: hash() of the generated value panics although it embeds no v2 proof of space: {}",
                    pyrepr(&j, 400)
                );
                ctx.label("hash:skipped-v2-proof-of-space-panics");
            }
        }
        if bytes_v.is_err() {
            ctx.label("to_bytes:error-both-sides");
        }

        // ---- 3. edits
        let mut done: Vec<String> = vec![];
        let mut rejected = 0u32;
        let mut evals = 1u64;
        for _ in 0..N_OPS {
            // up to three draws for an edit that applies to the drawn node
            let mut pickd = None;
            for _ in 0..3 {
                let site = &sites[ops.below(sites.len())];
                if let Some(ed) = choose_edit(py, site, &mut ops) {
                    pickd = Some((site, ed));
                    break;
                }
            }
            let Some((site, ed)) = pickd else {
                ctx.label("edit:none-applicable");
                continue;
            };
            let kind = site.shape.kind();
            // apply
            let deleted = if let Some(k) = &ed.del {
                let old = site.cur.get_item(k.as_str()).expect("harness: key present");
                site.cur.del_item(k.as_str()).expect("harness: del key");
                Some((k.clone(), old))
            } else {
                set(&site.parent, &site.key, ed.new.as_ref().expect("edit value"));
                None
            };
            let edited = get(&holder, &root);
            let r = T::from_json_dict(&edited);
            evals += 1;
            let what = || {
                let at = match &ed.del {
                    Some(k) => format!("{}.{k} (key deleted)", site.path),
                    None => format!("{} := {}", site.path, pyrepr(ed.new.as_ref().unwrap(), 160)),
                };
                format!("{tname}: edit {} at {at} (was {})", ed.name, pyrepr(&site.cur, 160))
            };
            match ed.expect {
                Expect::Reject => match r {
                    Err(_) => {
                        rejected += 1;
                        ctx.label(format!("invalid:{}:rejected", ed.name));
                    }
                    Ok(v2) => vfail!(
                        format!("C20:invalid-accepted:{}:{kind}", ed.name),
                        "{} was accepted and produced {}",
                        what(),
                        clip(format!("{v2:?}"), 600)
                    ),
                },
                Expect::Accept => match r {
                    Err(err) => vfail!(
                        format!("C20:valid-rejected:{}:{kind}", ed.name),
                        "{} is a valid value of the field but from_json_dict raised {err}",
                        what()
                    ),
                    Ok(v2) => {
                        let j2 = match v2.to_json_dict(py) {
                            Ok(x) => x.into_bound(py),
                            Err(err) => vfail!("C20:to-json:raised", "{}: to_json_dict of the result raised {err}", what()),
                        };
                        if !j2.eq(&edited).unwrap_or(false) {
                            let d = diff(&e.shape, &edited, &j2, tname);
                            let (k2, at) = d.unwrap_or(("?".into(), "?".into()));
                            vfail!(
                                format!("C20:valid-edit:value-does-not-follow:{}:{k2}", ed.name),
                                "{}: the accepted value's JSON is not the edited JSON; first difference (edited vs result) at {at}",
                                what()
                            );
                        }
                        ctx.label(format!("valid:{}:accepted", ed.name));
                    }
                },
                Expect::RejectOrSame => match r {
                    Err(_) => ctx.label(format!("unlisted:{}:rejected:{kind}", ed.name)),
                    Ok(v2) => {
                        vensure!(
                            v2 == v,
                            format!("C20:{}:different-value:{kind}", ed.name),
                            "{} was accepted and produced a value different from the original: {}",
                            what(),
                            clip(format!("{v2:?}"), 600)
                        );
                        ctx.label(format!("unlisted:{}:accepted-same-value:{kind}", ed.name));
                    }
                },
                Expect::Unasserted => {
                    ctx.label(format!(
                        "unasserted:{}:{}",
                        ed.name,
                        if r.is_ok() { "accepted" } else { "rejected" }
                    ));
                }
            }
            // restore
            match deleted {
                Some((k, old)) => site.cur.set_item(k.as_str(), old).expect("harness: restore key"),
                None => set(&site.parent, &site.key, &site.cur),
            }
            if want_render {
                done.push(format!("{}@{}", ed.name, site.path));
            }
        }
        // the edits were all undone: the JSON must be what it was
        debug_assert!(get(&holder, &root).eq(&j).unwrap_or(false));
        ctx.add_inner(evals);

        for (n, l) in [
            (facts.opt_some, "has:optional-some"),
            (facts.opt_none, "has:optional-none"),
            (facts.int_wide, "has:int-over-32-bits"),
            (facts.bytes_nonempty, "has:bytes-nonempty"),
            (facts.list_nonempty, "has:list-nonempty"),
            (u32::from(facts.v2_pos), "has:v2-proof-of-space"),
        ] {
            if n > 0 {
                ctx.label(l);
            }
        }
        // non-trivial: at least one asserted rejection and an encoding that
        // is not all zeros (i.e. not the all-defaults value)
        let nonzero = bytes_v.as_ref().map(|b| b.iter().any(|x| *x != 0)).unwrap_or(true);
        if rejected >= 1 && nonzero {
            let mut f = Fnv::new();
            f.write(tname.as_bytes());
            match &bytes_v {
                Ok(b) => f.write(b),
                Err(_) => f.write(format!("{v:?}").as_bytes()),
            };
            ctx.nontrivial(f.finish());
        }
        ctx.render(|| format!("{tname}: {jrepr} ; edits: {}", done.join(", ")));
        Ok(())
    })
}

fn clip(mut s: String, max: usize) -> String {
    if s.len() > max {
        let mut cut = max;
        while !s.is_char_boundary(cut) {
            cut -= 1;
        }
        s.truncate(cut);
        s.push('…');
    }
    s
}

fn main() {
    // the embedded interpreter: make it find its stdlib whatever PATH is
    if std::env::var_os("PYTHONHOME").is_none() && !env!("C20_PY_HOME").is_empty() {
        std::env::set_var("PYTHONHOME", env!("C20_PY_HOME"));
    }
    Python::initialize();

    let reg = registry();
    // every registered type must be exercised: a generator regression is a harness error
    let mut required: Vec<&'static str> = reg
        .iter()
        .map(|e| &*Box::leak(format!("type:{}", e.name).into_boxed_str()))
        .collect();
    required.extend_from_slice(&[
        "hash:compared",
        "hash:skipped-v2-proof-of-space-panics",
        "invalid:delete-key:rejected",
        "invalid:none-for-non-optional:rejected",
        "invalid:int-plus-2^200:rejected",
        "invalid:int-minus-2^200:rejected",
        "invalid:int-max-plus-1:rejected",
        "invalid:int-min-minus-1:rejected",
        "invalid:int-minus-1-unsigned:rejected",
        "invalid:int-as-string:rejected",
        "invalid:enum-invalid-discriminant:rejected",
        "invalid:hex-non-hex-digit:rejected",
        "invalid:hex-odd-length:rejected",
        "invalid:fixed-bytes-one-more:rejected",
        "invalid:fixed-bytes-one-less:rejected",
        "invalid:tuple-one-more:rejected",
        "invalid:tuple-one-less:rejected",
        "invalid:array-one-more:rejected",
        "invalid:array-one-less:rejected",
        "valid:int-valid-max:accepted",
        "valid:int-valid-min:accepted",
        "valid:var-bytes-one-more:accepted",
        "valid:var-bytes-one-less:accepted",
        "valid:vec-one-more:accepted",
        "valid:vec-one-less:accepted",
        "valid:some-to-none:accepted",
    ]);
    required.push("value:encoding-over-8KiB");
    let required: &'static [&'static str] = Box::leak(required.into_boxed_slice());
    let rule: &'static str = Box::leak(
        format!(
            "a case = one of the {} registered types (every #[streamable] class of chia-protocol read from /repo's sources at build time, ConsensusConstants, SpendConditions, SpendBundleConditions, the DataLayer records, the protocol enums, Bytes/BytesN/Program, the four BLS element classes, all integer widths incl. u128/i128, bool, String and Option/Vec/tuple/array combinations) chosen uniformly, a value generated field by field from the choice sequence (integers biased to 0, 2^k and the extremes of their width; byte strings and program atoms mostly short, about one in a hundred 1-100 KB around powers of two; version-packed classes made well-formed), its round trip through to_json_dict/from_json_dict, and {} single-node edits of the JSON (invalid ones must raise, valid ones must be accepted and yield exactly the edited JSON). Non-trivial = at least one invalid edit was asserted to raise and the value's encoding is not all zeros; distinct by (type, byte encoding).",
            reg.len(),
            N_OPS
        )
        .into_boxed_str(),
    );
    // one interpreter = one GIL: more threads than this only contend
    if std::env::var_os("VERIF_THREADS").is_none() {
        std::env::set_var("VERIF_THREADS", "2");
    }
    engine::main(Property {
        id: "C20",
        rule,
        assumptions: &[
            "the per-type shape table (integer widths, fixed byte lengths, optionality, tuple arity) is derived from /repo's struct definitions by build.rs and type-checked by the compiler against the real structs",
            "the wheel's to_json_dict/from_json_dict methods are one-line wrappers (cdylib, not linked) around the trait methods exercised here",
            "a missing 0x prefix is not among the malformed inputs the statement lists (the BLS classes accept it by design): only 'error or the same value' is asserted for it",
            "deleting the key of an Option-typed field is not asserted (the statement speaks of non-optional fields)",
            "hash() panics for a v2 proof of space whose proof does not validate (C14's finding): the hash comparison is skipped and counted for such values",
        ],
        death_is_violation: false,
        subchecks: vec![SubCheck {
            name: "json-roundtrip-and-edits",
            about: "value -> to_json_dict -> from_json_dict equality (value, bytes, hash) and single-node invalid/valid edits of the JSON, for every registered type",
            source: Source::Random { len: 3072, quick: 80_000, thorough: 1_200_000 },
            run: case,
            inflight: false,
            min_nontrivial: 40_000,
            required_labels: required,
        }],
    });
}
