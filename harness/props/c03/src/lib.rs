//! C03 — time-lock aggregation and checking equal per-condition semantics.
//!
//! Oracle: every original lock/birth assertion is evaluated *separately* by its
//! arithmetic definition over i128 with sums saturating at the type maximum;
//! expected pass ⇔ all hold ∧ no relative/birth assertion sits on a coin
//! created in the same bundle. Implementation pass ⇔ parse_spends is Ok ∧
//! check_time_locks(records, owned, H, T, nowrap = true) is Ok.

use std::collections::HashMap;

use chia_bls::Signature;
use chia_consensus::check_time_locks::check_time_locks;
use chia_consensus::conditions::{parse_spends, EmptyVisitor, MempoolVisitor};
use chia_consensus::consensus_constants::TEST_CONSTANTS;
use chia_consensus::flags::ConsensusFlags;
use chia_consensus::owned_conditions::OwnedSpendBundleConditions;
use chia_consensus::validation_error::{ErrorCode, ValidationErr};
use chia_protocol::{Bytes32, Coin, CoinRecord};
use clvmr::Allocator;
use vcore::condgen::{self, encode_int, IntEnc};
use vcore::engine::{CaseResult, Ctx, Property, Source, SubCheck};
use vcore::gentree::{self, BuildMode, Tid, Tree};
use vcore::model::conditions as mc;
use vcore::model::int::{classify_uint, enc_u64, UintClass};
use vcore::{vensure, vfail, Fnv, Src};

#[derive(Clone, Debug)]
struct Lock {
    op: u16,
    /// the raw atom of the argument
    atom: Vec<u8>,
}

#[derive(Clone, Debug)]
struct LSpend {
    parent: [u8; 32],
    ph: [u8; 32],
    amount: u64,
    confirmed: u32,
    timestamp: u64,
    locks: Vec<Lock>,
    creates: Vec<([u8; 32], u64)>,
    coin_id: [u8; 32],
}

const LOCK_OPS: [u16; 10] = [80, 81, 82, 83, 84, 85, 86, 87, 74, 75];

fn is_relative_or_birth(op: u16) -> bool {
    matches!(op, 80 | 82 | 84 | 86 | 74 | 75)
}

fn width(op: u16) -> usize {
    match op {
        80 | 81 | 84 | 85 | 74 => 8,
        _ => 4,
    }
}

#[derive(Debug, PartialEq, Eq, Clone, Copy)]
enum Verdict {
    Holds,
    Fails,
    /// the argument is not a valid integer encoding: the condition is invalid
    Invalid,
}

/// evaluate one assertion by its definition in the given chain state
fn eval_lock(l: &Lock, sp: &LSpend, height: u32, now: u64) -> Verdict {
    let w = width(l.op);
    let tmax: i128 = if w == 4 { i128::from(u32::MAX) } else { i128::from(u64::MAX) };
    let sat = |base: i128, d: i128| -> i128 { (base + d).min(tmax) };
    let cls = classify_uint(&l.atom, w);
    let (cur, base): (i128, i128) = if w == 4 {
        (i128::from(height), i128::from(sp.confirmed))
    } else {
        (i128::from(now), i128::from(sp.timestamp))
    };
    let is_before = matches!(l.op, 84..=87);
    let is_birth = matches!(l.op, 74 | 75);
    let is_rel = matches!(l.op, 80 | 82 | 84 | 86);
    match cls {
        UintClass::NonCanonical => Verdict::Invalid,
        UintClass::Negative => {
            // a negative bound: "at least negative" always holds, "before a
            // negative point" never holds; a birth value cannot be negative
            if is_birth || is_before {
                Verdict::Fails
            } else {
                Verdict::Holds
            }
        }
        UintClass::TooLarge => {
            // beyond the type: "at least" can never hold (chain values stay
            // below the type maximum in this harness), "before" always holds
            if is_birth {
                Verdict::Fails
            } else if is_before {
                Verdict::Holds
            } else {
                Verdict::Fails
            }
        }
        UintClass::Ok(v) => {
            let v = i128::from(v);
            let ok = if is_birth {
                base == v
            } else {
                let bound = if is_rel { sat(base, v) } else { v };
                if is_before {
                    cur < bound
                } else {
                    cur >= bound
                }
            };
            if ok {
                Verdict::Holds
            } else {
                Verdict::Fails
            }
        }
    }
}

fn gen_value_near(s: &mut Src<'_>, target: i128, w: usize, dir: i128) -> (Vec<u8>, &'static str) {
    let tmax: i128 = if w == 4 { i128::from(u32::MAX) } else { i128::from(u64::MAX) };
    match s.weighted(&[40, 3, 2, 2, 1, 1]) {
        0 => {
            // around the boundary, mostly on the satisfying side (`dir`)
            let d = [0i128, dir, 2 * dir, 10 * dir, 100 * dir, -dir, -2 * dir][s.below(7)];
            let v = (target + d).clamp(0, tmax) as u64;
            (encode_int(v, IntEnc::Canonical, s), "near-boundary")
        }
        1 => (encode_int(0, IntEnc::Canonical, s), "zero"),
        2 => {
            let v = (tmax - [0i128, 1, 2][s.below(3)]) as u64;
            (encode_int(v, IntEnc::Canonical, s), "type-max")
        }
        3 => (encode_int(0, IntEnc::Negative, s), "negative"),
        4 => {
            // oversized for this width
            if w == 4 {
                let v = (1u64 << 32) + s.below(3) as u64;
                (encode_int(v, IntEnc::Canonical, s), "oversized")
            } else {
                (encode_int(0, IntEnc::Oversized, s), "oversized")
            }
        }
        _ => {
            let v = (target.clamp(0, tmax)) as u64;
            (encode_int(v, IntEnc::RedundantZero, s), "redundant-zero")
        }
    }
}

pub fn case_locks(bytes: &[u8], ctx: &mut Ctx) -> CaseResult {
    let mut s = Src::new(bytes);
    let phs = condgen::tag_puzzle_hashes();
    // ---- chain state (kept below the type maxima)
    let height: u32 = match s.below(4) {
        0 => 1000 + s.below(100) as u32,
        1 => s.below(5) as u32,
        2 => u32::MAX - 1 - s.below(4) as u32,
        _ => s.u32().min(u32::MAX - 1),
    };
    let now: u64 = match s.below(4) {
        0 => 1_700_000_000 + s.below(1000) as u64,
        1 => s.below(5) as u64,
        2 => u64::MAX - 1 - s.below(4) as u64,
        _ => s.u64().min(u64::MAX - 1),
    };
    let mempool = s.bool();
    let cost_conditions = s.bool();
    let mode = BuildMode::from_src(&mut s);
    let n_spends = s.range(1, 4);
    let mut spends: Vec<LSpend> = vec![];
    for i in 0..n_spends {
        let mut parent = [0x31u8; 32];
        parent[0] = i as u8;
        let confirmed: u32 = match s.below(4) {
            0 => height.saturating_sub(s.below(50) as u32),
            1 => 0,
            2 => u32::MAX - 1 - s.below(3) as u32,
            _ => s.u32().min(u32::MAX - 1),
        };
        let timestamp: u64 = match s.below(4) {
            0 => now.saturating_sub(s.below(5000) as u64),
            1 => 0,
            2 => u64::MAX - 1 - s.below(3) as u64,
            _ => s.u64().min(u64::MAX - 1),
        };
        let ph = phs[s.below(3)];
        let amount = 1000 + s.below(10) as u64;
        spends.push(LSpend {
            parent,
            ph,
            amount,
            confirmed,
            timestamp,
            locks: vec![],
            creates: vec![],
            coin_id: mc::coin_id(&parent, &ph, amount),
        });
    }
    // optional ephemeral pair: spend j is created by spend i
    let mut has_ephemeral = false;
    if n_spends >= 2 && s.chance(50) {
        let i = s.below(n_spends);
        let j = (i + 1 + s.below(n_spends - 1)) % n_spends;
        spends[j].parent = spends[i].coin_id;
        // the created coin's value plays no part in the rule: zero-value coins are
        // legal, and then the bundle as a whole "creates nothing"
        let eph_amount = [10u64, 0, 1, 999][s.below(4)];
        if eph_amount == 0 {
            ctx.label("ephemeral-coin-of-value-zero");
        }
        spends[j].amount = eph_amount;
        spends[j].coin_id = mc::coin_id(&spends[j].parent, &spends[j].ph, eph_amount);
        let (ph, am) = (spends[j].ph, spends[j].amount);
        spends[i].creates.push((ph, am));
        // an ephemeral coin is confirmed "now"
        spends[j].confirmed = height;
        spends[j].timestamp = now;
        has_ephemeral = true;
    }
    // ---- locks
    let mut classes: Vec<&'static str> = vec![];
    for sp in spends.iter_mut() {
        let n = s.weighted(&[3, 6, 6, 4, 2, 1, 1]);
        for _ in 0..n {
            let op = *s.pick(&LOCK_OPS);
            let w = width(op);
            // the value at which this assertion flips in the chosen state
            let target: i128 = match op {
                81 | 85 => i128::from(now),
                83 | 87 => i128::from(height),
                80 | 84 => i128::from(now) - i128::from(sp.timestamp),
                82 | 86 => i128::from(height) - i128::from(sp.confirmed),
                74 => i128::from(sp.timestamp),
                _ => i128::from(sp.confirmed),
            };
            let dir: i128 = match op {
                80..=83 => -1,
                84..=87 => 1,
                _ => 0,
            };
            let (atom, cls) = gen_value_near(&mut s, target, w, dir);
            classes.push(cls);
            sp.locks.push(Lock { op, atom });
            if s.chance(40) {
                // duplicate / opposing assertion of the same family near the same value
                let op2 = match op {
                    80 => 84,
                    84 => 80,
                    82 => 86,
                    86 => 82,
                    81 => 85,
                    85 => 81,
                    83 => 87,
                    87 => 83,
                    o => o,
                };
                let same = s.bool();
                let dir2 = if same { dir } else { -dir };
                let (atom2, cls2) = gen_value_near(&mut s, target, w, dir2);
                classes.push(cls2);
                sp.locks.push(Lock { op: if same { op } else { op2 }, atom: atom2 });
            }
        }
    }
    // ---- expected verdict: each original assertion on its own
    let created_here: Vec<bool> = spends
        .iter()
        .map(|sp| {
            spends
                .iter()
                .any(|p| p.coin_id == sp.parent && p.creates.iter().any(|(ph, am)| *ph == sp.ph && *am == sp.amount))
        })
        .collect();
    // ---- bystanders: other conditions, all of them satisfied by construction, mixed
    // in between the lock assertions (a real spend never consists of time locks
    // only): ASSERT_EPHEMERAL on spends that are created in the bundle, the
    // ASSERT_MY_* family with the spend's own values, announcements nobody
    // asserts, REMARK, RESERVE_FEE 0, ASSERT_CONCURRENT_SPEND/PUZZLE of a spend of
    // the bundle. They must not change the verdict.
    // (position, opcode, args)
    let mut bystanders: Vec<Vec<(usize, u8, Vec<Vec<u8>>)>> = vec![vec![]; spends.len()];
    let mut n_bystanders = 0usize;
    for i in 0..spends.len() {
        let n = s.weighted(&[6, 3, 2, 1]);
        for _ in 0..n {
            let pos = s.below(spends[i].locks.len() + 1);
            let other = s.below(spends.len());
            let sp = &spends[i];
            let (op, args): (u8, Vec<Vec<u8>>) = match s.below(10) {
                0 | 1 if created_here[i] => (76, vec![]),
                2 => (70, vec![sp.coin_id.to_vec()]),
                3 => (73, vec![enc_u64(sp.amount)]),
                4 => (71, vec![sp.parent.to_vec()]),
                5 => (72, vec![sp.ph.to_vec()]),
                6 => (60, vec![b"c03".to_vec()]),
                7 => (52, vec![vec![]]),
                8 => (64, vec![spends[other].coin_id.to_vec()]),
                9 => (65, vec![spends[other].ph.to_vec()]),
                _ => (1, vec![b"remark".to_vec()]),
            };
            bystanders[i].push((pos, op, args));
            n_bystanders += 1;
            if op == 76 {
                ctx.label("bystander:assert-ephemeral-on-ephemeral-spend");
            }
        }
    }
    if n_bystanders > 0 {
        ctx.label("has-bystander-conditions");
    }
    ctx.ran_dry(s.ran_dry());
    let mut all_hold = true;
    let mut any_invalid = false;
    let mut ephemeral_violation = false;
    let mut n_locks = 0usize;
    let mut n_relative = 0usize;
    for (i, sp) in spends.iter().enumerate() {
        for l in &sp.locks {
            n_locks += 1;
            if is_relative_or_birth(l.op) {
                n_relative += 1;
                if created_here[i] {
                    ephemeral_violation = true;
                }
            }
            match eval_lock(l, sp, height, now) {
                Verdict::Holds => {}
                Verdict::Fails => all_hold = false,
                Verdict::Invalid => any_invalid = true,
            }
        }
    }
    let expected_pass = all_hold && !any_invalid && !ephemeral_violation;

    // ---- is there an unsatisfiable before/after pair (for the "impossible" claim)?
    // per spend for relative, per bundle for absolute; by brute force on the
    // per-assertion definitions: b <= a for canonical fitting values
    let fits = |l: &Lock| -> Option<i128> {
        match classify_uint(&l.atom, width(l.op)) {
            UintClass::Ok(v) => Some(i128::from(v)),
            _ => None,
        }
    };
    let pair_unsat = |afters: &[i128], befores: &[i128]| -> bool { afters.iter().any(|a| befores.iter().any(|b| b <= a)) };
    let mut unsat_rel_h = false;
    let mut unsat_rel_s = false;
    let (mut abs_h_a, mut abs_h_b, mut abs_s_a, mut abs_s_b) = (vec![], vec![], vec![], vec![]);
    for sp in &spends {
        let (mut ha, mut hb, mut sa, mut sb) = (vec![], vec![], vec![], vec![]);
        for l in &sp.locks {
            if let Some(v) = fits(l) {
                match l.op {
                    82 => ha.push(v),
                    86 => hb.push(v),
                    80 => sa.push(v),
                    84 => sb.push(v),
                    83 => abs_h_a.push(v),
                    87 => abs_h_b.push(v),
                    81 => abs_s_a.push(v),
                    85 => abs_s_b.push(v),
                    _ => {}
                }
            }
        }
        unsat_rel_h |= pair_unsat(&ha, &hb);
        unsat_rel_s |= pair_unsat(&sa, &sb);
    }
    // an absolute "at least 0" is no constraint; with before 0 it is still unsatisfiable (nothing is < 0)
    let unsat_abs_h = pair_unsat(&abs_h_a, &abs_h_b) || abs_h_b.iter().any(|b| *b <= 0);
    let unsat_abs_s = pair_unsat(&abs_s_a, &abs_s_b) || abs_s_b.iter().any(|b| *b <= 0);

    // ---- build the tree
    let mut t = Tree::new();
    let mut spend_nodes: Vec<Tid> = vec![];
    for sp in &spends {
        let mut conds: Vec<Tid> = vec![];
        for (ph, am) in &sp.creates {
            let op = t.atom(&[51]);
            let a = t.atom(ph);
            let b = t.int(u128::from(*am));
            conds.push(t.list(&[op, a, b]));
        }
        let mut lock_nodes: Vec<Tid> = vec![];
        for l in &sp.locks {
            let op = t.atom(&[l.op as u8]);
            let a = t.atom(&l.atom);
            lock_nodes.push(t.list(&[op, a]));
        }
        // bystanders at their positions among the locks (later ones first so that
        // positions stay valid)
        let mut by = bystanders[spend_nodes.len()].clone();
        by.sort_by(|x, y| y.0.cmp(&x.0));
        for (pos, op, args) in by {
            let mut items = vec![t.atom(&[op])];
            for a in &args {
                items.push(t.atom(a));
            }
            let node = t.list(&items);
            lock_nodes.insert(pos.min(lock_nodes.len()), node);
        }
        conds.extend(lock_nodes);
        let cl = t.list(&conds);
        let pa = t.atom(&sp.parent);
        let ph = t.atom(&sp.ph);
        let am = t.int(u128::from(sp.amount));
        spend_nodes.push(t.list(&[pa, ph, am, cl]));
    }
    let sl = t.list(&spend_nodes);
    let nil = t.nil();
    let root = t.pair(sl, nil);

    let mut a = Allocator::new();
    let node = gentree::build(&mut a, &t, root, mode);
    let mut flags = ConsensusFlags::DONT_VALIDATE_SIGNATURE;
    if cost_conditions {
        flags |= ConsensusFlags::COST_CONDITIONS;
    }
    let sig = Signature::default();
    let parsed = if mempool {
        parse_spends::<MempoolVisitor>(&a, node, u64::MAX / 2, 0, flags | ConsensusFlags::NO_UNKNOWN_CONDS | ConsensusFlags::STRICT_ARGS_COUNT, &sig, None, &TEST_CONSTANTS)
    } else {
        parse_spends::<EmptyVisitor>(&a, node, u64::MAX / 2, 0, flags, &sig, None, &TEST_CONSTANTS)
    };

    ctx.render(|| {
        let mut d = format!("chain: prev_height={height} timestamp={now}; ");
        for (i, sp) in spends.iter().enumerate() {
            d.push_str(&format!(
                "spend{i}{{confirmed={} ts={} created_in_bundle={} locks=[",
                sp.confirmed, sp.timestamp, created_here[i]
            ));
            for l in &sp.locks {
                d.push_str(&format!("{}:{} ", l.op, gentree::render_atom(&l.atom)));
            }
            d.push_str("]} ");
        }
        d.push_str(&format!("=> expected {}", if expected_pass { "PASS" } else { "FAIL" }));
        d
    });

    let impl_pass;
    match parsed {
        Err(e) => {
            impl_pass = false;
            let code = match e {
                ValidationErr::Err(c) => Some(c),
                ValidationErr::Eval(_) => None,
            };
            ctx.label(format!("parse-reject:{code:?}"));
            // "rejected at parse time as having impossible constraints only if
            // no chain state could satisfy its assertions"
            match code {
                Some(ErrorCode::ImpossibleHeightRelativeConstraints) => {
                    vensure!(unsat_rel_h, "C03:impossible-claimed-but-satisfiable:height-relative", "parse rejected ImpossibleHeightRelativeConstraints but no spend has an after/before relative height pair with before <= after");
                }
                Some(ErrorCode::ImpossibleSecondsRelativeConstraints) => {
                    vensure!(unsat_rel_s, "C03:impossible-claimed-but-satisfiable:seconds-relative", "parse rejected ImpossibleSecondsRelativeConstraints but no spend has an unsatisfiable pair");
                }
                Some(ErrorCode::ImpossibleHeightAbsoluteConstraints) => {
                    vensure!(unsat_abs_h, "C03:impossible-claimed-but-satisfiable:height-absolute", "parse rejected ImpossibleHeightAbsoluteConstraints but the absolute height assertions are satisfiable");
                }
                Some(ErrorCode::ImpossibleSecondsAbsoluteConstraints) => {
                    vensure!(unsat_abs_s, "C03:impossible-claimed-but-satisfiable:seconds-absolute", "parse rejected ImpossibleSecondsAbsoluteConstraints but the absolute seconds assertions are satisfiable");
                }
                _ => {}
            }
        }
        Ok(conds) => {
            let owned = OwnedSpendBundleConditions::from(&a, conds);
            let mut records: HashMap<Bytes32, CoinRecord> = HashMap::new();
            for sp in &spends {
                let coin = Coin::new(sp.parent.into(), sp.ph.into(), sp.amount);
                records.insert(
                    Bytes32::from(sp.coin_id),
                    CoinRecord::new(coin, sp.confirmed, 0, false, sp.timestamp),
                );
            }
            match check_time_locks(&records, &owned, height, now, true) {
                Ok(()) => {
                    impl_pass = true;
                    ctx.label("checked:pass");
                }
                Err(e) => {
                    impl_pass = false;
                    ctx.label(format!("checked:fail:{:?}", e));
                }
            }
        }
    }
    if expected_pass && !impl_pass {
        vfail!("C03:rejected-but-every-assertion-holds", "every individual assertion holds in this chain state and no relative/birth assertion is on an ephemeral coin, but the bundle was rejected");
    }
    if !expected_pass && impl_pass {
        let why = if ephemeral_violation {
            "ephemeral"
        } else if any_invalid {
            "invalid-encoding"
        } else {
            "assertion-fails"
        };
        vfail!(format!("C03:passed-but-should-fail:{why}"), "the bundle passed parsing and check_time_locks although ({why}) at least one individual assertion does not hold in this chain state");
    }
    for c in &classes {
        ctx.label(format!("value:{c}"));
    }
    if has_ephemeral {
        ctx.label("has-ephemeral-pair");
    }
    ctx.label(if expected_pass { "expected:pass" } else { "expected:fail" });
    if n_locks >= 2 && (n_relative >= 1 || unsat_abs_h || unsat_abs_s) {
        let mut f = Fnv::new();
        f.write(&t.serialize(root));
        f.write_u64(u64::from(height)).write_u64(now);
        for sp in &spends {
            f.write_u64(u64::from(sp.confirmed)).write_u64(sp.timestamp);
        }
        ctx.nontrivial(f.finish());
    }
    Ok(())
}

pub fn property() -> Property {
    Property {
        id: "C03",
        rule: "a case is a chain state (prev tx height, timestamp, per spent coin confirmation height and timestamp; all kept below the type maxima) plus 1-4 spends each carrying 0-12 of the 10 lock/birth kinds whose arguments are drawn around the state (boundary ±1/±2/±10, 0, type max, negative, oversized, redundant-zero, duplicates and opposing pairs), optionally with an ephemeral parent/child pair; between the lock assertions 0-3 bystander conditions per spend that are satisfied by construction (ASSERT_EPHEMERAL on a spend created in the bundle, ASSERT_MY_* with the spend's own values, unasserted announcement, REMARK, RESERVE_FEE 0, ASSERT_CONCURRENT_SPEND/PUZZLE of a spend of the bundle). Non-trivial = ≥2 lock assertions with ≥1 relative/birth assertion or an opposing absolute pair; distinct by (tree, chain state).",
        assumptions: &[
            "chain heights/timestamps are generated strictly below u32::MAX / u64::MAX, so an 'at least' assertion whose argument exceeds the type can never hold (the statement's saturation rule is applied to the sums, not to out-of-type arguments)",
            "legacy wrapping mode (nowrap = false) is outside the statement and not checked",
        ],
        subchecks: vec![SubCheck {
            name: "locks-vs-per-assertion-model",
            about: "parse_spends + check_time_locks(nowrap) vs evaluating every original assertion separately",
            source: Source::Random { len: 768, quick: 1_500_000, thorough: 40_000_000 },
            run: case_locks,
            inflight: false,
            min_nontrivial: 200_000,
            required_labels: &["expected:pass", "expected:fail", "checked:pass", "has-ephemeral-pair", "value:negative", "value:oversized", "value:type-max", "has-bystander-conditions", "bystander:assert-ephemeral-on-ephemeral-spend", "ephemeral-coin-of-value-zero"],
        }],
        death_is_violation: false,
    }
}
