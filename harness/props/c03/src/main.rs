fn main() {
    vcore::engine::main(c03::property());
}
