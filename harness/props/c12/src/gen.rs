//! Generators: leaf lists biased to shared prefixes down to bit 255, with
//! duplicates and permutations; query items. Everything is drawn from the
//! choice sequence only; byte 0 always selects the simplest alternative.

use crate::model::{bit, flip, set_root, set_val, sorted_set, Leaf};
use vcore::Src;

/// bit positions at which leaves are made to part
pub const POS: [usize; 8] = [0, 1, 2, 7, 8, 127, 254, 255];

pub struct GenSet {
    pub base: Leaf,
    /// as handed to the code under test: arbitrary order, duplicates
    pub list: Vec<Leaf>,
    /// sorted, de-duplicated
    pub set: Vec<Leaf>,
}

pub fn gen_base(s: &mut Src) -> Leaf {
    match s.below(5) {
        0 => [0u8; 32],
        1 => [0xffu8; 32],
        2 => [0x55u8; 32],
        3 => {
            let mut b = [0u8; 32];
            b[0] = 0x80;
            b[31] = 0x01;
            b
        }
        _ => s.array::<32>(),
    }
}

fn flip_some(s: &mut Src, v: &mut Leaf, allow_zero: bool) {
    let n = if allow_zero {
        s.weighted(&[1, 6, 3, 1])
    } else {
        1 + s.weighted(&[6, 3, 1])
    };
    for _ in 0..n {
        flip(v, *s.pick(&POS));
    }
}

pub fn gen_set(s: &mut Src, min: usize) -> GenSet {
    let base = gen_base(s);
    let size_class = s.weighted(&[2, 4, 8, 16, 12, 1, 1]);
    if size_class == 6 {
        // a leaf whose VALUE is the hash of the sub-tree next to it: all other
        // leaves lie in one half of the key space, and the extra leaf — the model's
        // hash of that half (as an inner node and as a root of its own) — happens
        // to start with the other bit (retried with a tweaked group, two tries on
        // average). Anybody can compute such a value from the set or read it off a
        // proof; leaves and node hashes are both just 32 bytes.
        let side = s.bool();
        let k = s.range(2, 5);
        let mut group: Vec<Leaf> = vec![];
        for _ in 0..k {
            let mut v = base;
            flip_some(s, &mut v, true);
            if bit(&v, 0) != side {
                flip(&mut v, 0);
            }
            group.push(v);
        }
        let mut list = group.clone();
        for attempt in 0..12usize {
            let g = sorted_set(&group);
            if g.len() >= 2 {
                let cands = [set_val(&g, 1).hash, set_root(&g)];
                let hits: Vec<Leaf> = cands.iter().copied().filter(|c| bit(c, 0) != side).collect();
                if !hits.is_empty() {
                    list = group.clone();
                    list.push(hits[0]);
                    break;
                }
            }
            // tweak one member (stays in the same half) and try again
            let i = attempt % group.len();
            flip(&mut group[i], 200 + attempt);
        }
        if s.bool() {
            permute(s, &mut list);
        }
        let set = sorted_set(&list);
        return GenSet { base, list, set };
    }
    if size_class == 5 {
        // a "staircase": two leaves that part only at bit 255 plus one leaf
        // branching off the base's path at (almost) every other bit position.
        // Random or prefix-biased sets have one-sided (collapsed) levels almost
        // everywhere; here nearly every one of the 256 levels has a non-empty
        // sibling, which is what makes proofs and trees as large as they can get
        // (the longest honest proof is 256 + 255*33 + 2*33 = 8737 bytes).
        let mut list: Vec<Leaf> = Vec::with_capacity(260);
        list.push(base);
        let mut deepest = base;
        flip(&mut deepest, 255);
        list.push(deepest);
        let drops = match s.weighted(&[4, 3, 2]) {
            0 => 0,
            1 => s.range(1, 8),
            _ => s.range(9, 200),
        };
        let mut dropped = [false; 255];
        for _ in 0..drops {
            dropped[s.below(255)] = true;
        }
        for (k, d) in dropped.iter().enumerate() {
            if !*d {
                list.push(prefix_sharing(s, &base, k));
            }
        }
        if s.bool() {
            permute(s, &mut list);
        }
        let set = sorted_set(&list);
        return GenSet { base, list, set };
    }
    let n = match size_class {
        0 => 0,
        1 => 1,
        2 => 2,
        3 => s.range(3, 8),
        _ => s.range(9, 40),
    }
    .max(min);
    let mut list: Vec<Leaf> = Vec::with_capacity(n);
    for _ in 0..n {
        let kind = if list.is_empty() { s.weighted(&[5, 0, 2, 0]) } else { s.weighted(&[5, 4, 2, 1]) };
        let leaf = match kind {
            0 => {
                let mut v = base;
                flip_some(s, &mut v, true);
                v
            }
            1 => {
                let mut v = list[s.below(list.len())];
                flip_some(s, &mut v, false);
                v
            }
            2 => s.array::<32>(),
            _ => list[s.below(list.len())],
        };
        list.push(leaf);
    }
    let set = sorted_set(&list);
    GenSet { base, list, set }
}

pub fn permute<T>(s: &mut Src, v: &mut [T]) {
    for i in (1..v.len()).rev() {
        let j = s.below(i + 1);
        v.swap(i, j);
    }
}

pub fn add_dups(s: &mut Src, v: &mut Vec<Leaf>) {
    if v.is_empty() {
        return;
    }
    let n = s.below(4);
    for _ in 0..n {
        let x = v[s.below(v.len())];
        let at = s.below(v.len() + 1);
        v.insert(at, x);
    }
}

/// `m` with bit `k` flipped (shares exactly `k` leading bits with `m`),
/// optionally with everything after bit `k` re-drawn
pub fn prefix_sharing(s: &mut Src, m: &Leaf, k: usize) -> Leaf {
    let mut q = *m;
    flip(&mut q, k);
    if s.chance(64) {
        let tail = s.array::<32>();
        for p in k + 1..256 {
            if bit(&tail, p) != bit(&q, p) {
                flip(&mut q, p);
            }
        }
    }
    q
}

#[derive(Clone, Copy, Debug, PartialEq, Eq)]
pub enum QKind {
    Member,
    Prefix(usize),
    Random,
    Base,
    /// values an implementation may use internally as placeholders or that
    /// appear inside proofs: all zeros, sha256 of 32 zero bytes, all ones
    Special,
}

/// about 20 query items: members, for one anchor every k in POS a value
/// sharing exactly k bits with it, a few more prefix-sharing values around
/// other members, base-derived and random values
pub fn gen_queries(s: &mut Src, g: &GenSet) -> Vec<(QKind, Leaf)> {
    let mut out: Vec<(QKind, Leaf)> = Vec::with_capacity(24);
    let nm = g.set.len().min(6);
    if !g.set.is_empty() {
        let start = s.below(g.set.len());
        for i in 0..nm {
            out.push((QKind::Member, g.set[(start + i) % g.set.len()]));
        }
    }
    let anchor = if g.set.is_empty() { g.base } else { g.set[s.below(g.set.len())] };
    for k in POS {
        out.push((QKind::Prefix(k), prefix_sharing(s, &anchor, k)));
    }
    for _ in 0..3 {
        let m = if g.set.is_empty() { g.base } else { g.set[s.below(g.set.len())] };
        let k = if s.chance(128) { *s.pick(&POS) } else { s.below(256) };
        out.push((QKind::Prefix(k), prefix_sharing(s, &m, k)));
    }
    out.push((QKind::Base, g.base));
    let mut b = g.base;
    flip(&mut b, *s.pick(&POS));
    out.push((QKind::Base, b));
    out.push((QKind::Random, s.array::<32>()));
    out.push((QKind::Special, [0u8; 32]));
    out.push((QKind::Special, [0xffu8; 32]));
    {
        use sha2::{Digest, Sha256};
        let h: [u8; 32] = Sha256::digest([0u8; 32]).into();
        out.push((QKind::Special, h));
    }
    out
}
