//! C12 — Merkle set roots are canonical; proofs are complete and sound.
//!
//! Subjects (code under test): `compute_merkle_set_root`,
//! `MerkleSet::from_leafs(..).get_root()`, `MerkleSet::generate_proof`,
//! `validate_merkle_proof`.
//! Oracle: `model` (set root by recursive bit splitting over the sorted,
//! de-duplicated set; proof trees with their own parser / root / audit /
//! lookup), written from the definition in `/repo/tests/merkle_set.py`.
//!
//! The only thing ever asserted about a *candidate* (non-honest) proof is the
//! soundness relation of the property statement:
//!     validate_merkle_proof(P, q, root(S)) is Err, or Ok(q ∈ S).
//! Which malformed or unusual proofs are rejected is not asserted.

mod gen;
mod model;

use std::sync::OnceLock;

use chia_consensus::merkle_set::compute_merkle_set_root;
use chia_consensus::merkle_tree::{validate_merkle_proof, MerkleSet};
use gen::{gen_queries, gen_set, GenSet, QKind, POS};
use model::{
    bit, flip, full_tree, hex, honest_proof, set_root, set_stats, short, summary, Kind, Leaf, Val, PT, V_EMPTY,
};
use vcore::engine::{self, CaseResult, Ctx, Property, Source, SubCheck, Tier};
use vcore::{vensure, vfail, Fnv, Src};

const SIG_INCL: &str = "C12:soundness:proof-of-inclusion-accepted-for-non-member";
const SIG_EXCL: &str = "C12:soundness:proof-of-exclusion-accepted-for-member";

fn real_validate(proof: &[u8], q: &Leaf, root: &Leaf) -> Option<bool> {
    validate_merkle_proof(proof, q, root).ok()
}

fn is_member(set: &[Leaf], q: &Leaf) -> bool {
    set.binary_search(q).is_ok()
}

/// the soundness relation: Err, or Ok(q ∈ S)
fn check_sound(res: Option<bool>, member: bool, detail: impl FnOnce() -> String) -> CaseResult {
    match res {
        Some(true) if !member => vfail!(SIG_INCL, "validate_merkle_proof returned Ok(true) for an item that is NOT in the set: {}", detail()),
        Some(false) if member => vfail!(SIG_EXCL, "validate_merkle_proof returned Ok(false) for an item that IS in the set: {}", detail()),
        _ => Ok(()),
    }
}

fn render_set(set: &[Leaf]) -> String {
    let mut s = format!("set[{}]{{", set.len());
    for (i, l) in set.iter().enumerate() {
        if i > 0 {
            s.push(',');
        }
        if i >= 12 {
            s.push('…');
            break;
        }
        s.push_str(&short(l));
    }
    s.push('}');
    s
}

fn set_hex(set: &[Leaf]) -> String {
    let v: Vec<String> = set.iter().map(|l| hex(l)).collect();
    format!("[{}]", v.join(","))
}

/// labels describing the generated set; returns "non-trivial by the rule"
fn label_set(ctx: &mut Ctx, g: &GenSet) -> bool {
    let st = set_stats(&g.set);
    ctx.label(match g.set.len() {
        0 => "set:size-0",
        1 => "set:size-1",
        2 => "set:size-2",
        3..=8 => "set:size-3..8",
        9..=40 => "set:size-9..40",
        _ => "set:staircase-41..257",
    });
    if g.list.len() > g.set.len() {
        ctx.label("set:list-has-duplicates");
    }
    if g.set.len() >= 3 {
        // a member equal to the model's hash of the other members' sub-tree
        for (i, m) in g.set.iter().enumerate() {
            let rest: Vec<Leaf> = g.set.iter().enumerate().filter(|(j, _)| *j != i).map(|(_, x)| *x).collect();
            if rest.iter().all(|x| model::bit(x, 0) != model::bit(m, 0)) && (model::set_val(&rest, 1).hash == *m || set_root(&rest) == *m) {
                ctx.label("set:leaf-equals-hash-of-sibling-subtree");
                break;
            }
        }
    }
    if g.set.len() >= 2 {
        if st.max_shared >= 8 {
            ctx.label("set:shared-prefix>=8");
        }
        if st.max_shared >= 127 {
            ctx.label("set:shared-prefix>=127");
        }
        if st.max_shared == 255 {
            ctx.label("set:shared-prefix=255");
        }
        if st.chain {
            ctx.label("set:collapsed-chain");
        }
        if st.max_chain >= 100 {
            ctx.label("set:collapsed-chain>=100-levels");
        }
        if st.one_sided_mid {
            ctx.label("set:one-sided-level-over->=3-leaves");
        }
    }
    g.set.len() >= 2 && (st.max_shared >= 8 || st.chain)
}

/// harness self-test: the two formulations of the model agree
fn model_self_check(set: &[Leaf], want: &Leaf) -> CaseResult {
    let ft = full_tree(set, 0);
    vensure!(
        ft.root() == *want && ft.audit(),
        "harness:c12-model-self-check",
        "model inconsistency: full_tree(set).root() != set_root(set) for {}",
        set_hex(set)
    );
    Ok(())
}

// ---------------------------------------------------------------------------
// 1. canonical root

fn roots_of(list: &[Leaf]) -> (Leaf, Leaf) {
    let mut a = list.to_vec();
    let r1 = compute_merkle_set_root(&mut a);
    let mut b = list.to_vec();
    let r2 = MerkleSet::from_leafs(&mut b).get_root();
    (r1, r2)
}

pub fn case_canonical(bytes: &[u8], ctx: &mut Ctx) -> CaseResult {
    let mut s = Src::new(bytes);
    let g = gen_set(&mut s, 0);
    let want = set_root(&g.set);
    model_self_check(&g.set, &want)?;

    // the set itself, sorted, no duplicates
    let (r1, r2) = roots_of(&g.set);
    vensure!(
        r1 == want,
        "C12:root:compute_merkle_set_root-differs-from-definition",
        "compute_merkle_set_root(sorted distinct {}) = {}, definition gives {}",
        set_hex(&g.set),
        hex(&r1),
        hex(&want)
    );
    vensure!(
        r2 == want,
        "C12:root:from_leafs-differs-from-definition",
        "MerkleSet::from_leafs(sorted distinct {}).get_root() = {}, definition gives {}",
        set_hex(&g.set),
        hex(&r2),
        hex(&want)
    );
    // arrangements: as generated (order + duplicates), a permutation of the
    // set with other duplicates, reversed
    let mut arr2 = g.set.clone();
    gen::permute(&mut s, &mut arr2);
    gen::add_dups(&mut s, &mut arr2);
    let mut arr3 = g.set.clone();
    arr3.reverse();
    if let Some(x) = g.set.first() {
        // the same element many times, at both ends
        arr3.push(*x);
        arr3.insert(0, *g.set.last().unwrap());
    }
    for (name, arr) in [("generated", &g.list), ("permuted+dups", &arr2), ("reversed+dups", &arr3)] {
        let (r1, r2) = roots_of(arr);
        vensure!(
            r1 == want,
            "C12:root:compute_merkle_set_root-depends-on-order-or-duplicates",
            "compute_merkle_set_root({name} arrangement {}) = {}, but the root of the set is {}",
            set_hex(arr),
            hex(&r1),
            hex(&want)
        );
        vensure!(
            r2 == want,
            "C12:root:from_leafs-depends-on-order-or-duplicates",
            "from_leafs({name} arrangement {}).get_root() = {}, but the root of the set is {}",
            set_hex(arr),
            hex(&r2),
            hex(&want)
        );
    }
    let nt = label_set(ctx, &g);
    if arr2.len() > g.set.len() {
        ctx.label("root:permutation-with-duplicates");
    }
    if nt {
        let mut f = Fnv::new();
        for l in g.list.iter().chain(arr2.iter()) {
            f.write(l);
        }
        ctx.nontrivial(f.finish());
    }
    ctx.render(|| format!("{} as list of {} (+permutation of {}), root {}", render_set(&g.set), g.list.len(), arr2.len(), hex(&want)));
    ctx.ran_dry(s.ran_dry());
    Ok(())
}

// ---------------------------------------------------------------------------
// 2. completeness

pub fn case_completeness(bytes: &[u8], ctx: &mut Ctx) -> CaseResult {
    let mut s = Src::new(bytes);
    let g = gen_set(&mut s, 0);
    let root = set_root(&g.set);
    model_self_check(&g.set, &root)?;
    let mut l = g.list.clone();
    let tree = MerkleSet::from_leafs(&mut l);
    vensure!(
        tree.get_root() == root,
        "C12:root:from_leafs-differs-from-definition",
        "from_leafs({}).get_root() = {}, definition gives {}",
        set_hex(&g.list),
        hex(&tree.get_root()),
        hex(&root)
    );
    let mut queries = gen_queries(&mut s, &g);
    // the root itself as an item (a value that appears inside every proof's verification)
    queries.push((QKind::Special, root));
    let mut f = Fnv::new();
    for l in &g.set {
        f.write(l);
    }
    let mut cross = 0;
    for (kind, q) in &queries {
        f.write(q);
        let member = is_member(&g.set, q);
        let (inc, proof) = match tree.generate_proof(q) {
            Ok(x) => x,
            Err(_) => vfail!(
                "C12:completeness:generate_proof-fails",
                "generate_proof({}) on from_leafs({}) returned Err",
                hex(q),
                set_hex(&g.list)
            ),
        };
        if proof.len() >= 8000 {
            ctx.label("cmp:honest-proof>=8000-bytes");
        }
        vensure!(
            inc == member,
            "C12:completeness:generate_proof-wrong-inclusion-flag",
            "generate_proof({}) on {} says included={inc}, membership is {member}",
            hex(q),
            set_hex(&g.set)
        );
        match real_validate(&proof, q, &root) {
            None => vfail!(
                "C12:completeness:honest-proof-rejected",
                "validate_merkle_proof rejects the proof generate_proof produced: item {} (member={member}) set {} root {} proof {}",
                hex(q),
                set_hex(&g.set),
                hex(&root),
                hex(&proof)
            ),
            Some(b) => vensure!(
                b == member,
                "C12:completeness:honest-proof-states-the-opposite",
                "validate_merkle_proof(honest proof) = Ok({b}) but membership is {member}: item {} set {} proof {}",
                hex(q),
                set_hex(&g.set),
                hex(&proof)
            ),
        }
        // the model's own reading of the same bytes
        let pt = match PT::parse(&proof) {
            Ok(t) => t,
            Err(e) => vfail!(
                "C12:completeness:proof-not-in-proof-format",
                "the model's parser cannot read the generated proof ({e:?}): item {} set {} proof {}",
                hex(q),
                set_hex(&g.set),
                hex(&proof)
            ),
        };
        vensure!(
            pt.root() == root,
            "C12:completeness:proof-does-not-hash-to-root",
            "generated proof hashes (by the definition) to {}, root is {}: item {} set {} proof {}",
            hex(&pt.root()),
            hex(&root),
            hex(q),
            set_hex(&g.set),
            hex(&proof)
        );
        vensure!(
            pt.audit(),
            "C12:completeness:proof-has-misplaced-leaf",
            "generated proof has a terminal off its own bit path: item {} set {} proof {}",
            hex(q),
            set_hex(&g.set),
            hex(&proof)
        );
        vensure!(
            pt.lookup(q) == Some(member),
            "C12:completeness:proof-does-not-decide-item",
            "following the item's bits through the generated proof gives {:?}, membership is {member}: item {} set {} proof {}",
            pt.lookup(q),
            hex(q),
            set_hex(&g.set),
            hex(&proof)
        );
        if pt == honest_proof(&g.set, q, 0) {
            ctx.label("cmp:proof-equals-model-minimal-proof");
        } else {
            ctx.label("cmp:proof-differs-from-model-minimal-proof");
        }
        // the same honest proof against the root of the set that differs in
        // exactly this item: it states the opposite there, so must not verify
        if cross < 4 {
            cross += 1;
            let mut other = g.set.clone();
            match other.binary_search(q) {
                Ok(i) => {
                    other.remove(i);
                }
                Err(i) => other.insert(i, *q),
            }
            let oroot = set_root(&other);
            let r = real_validate(&proof, q, &oroot);
            check_sound(r, !member, || {
                format!(
                    "honest proof for set {} replayed against the root of {} (item {})  proof {}",
                    set_hex(&g.set),
                    set_hex(&other),
                    hex(q),
                    hex(&proof)
                )
            })?;
            ctx.label("cmp:honest-proof-vs-neighbour-set-root");
        }
        match kind {
            QKind::Member => ctx.label("q:member"),
            QKind::Prefix(k) if POS.contains(k) => {
                ctx.label(format!("q:{}:shares-{k}-bits", if member { "member" } else { "non-member" }))
            }
            QKind::Prefix(_) => ctx.label(if member { "q:member:shares-k-bits" } else { "q:non-member:shares-k-bits" }),
            QKind::Random => ctx.label("q:random"),
            QKind::Base => ctx.label(if member { "q:base:member" } else { "q:base:non-member" }),
            QKind::Special => ctx.label(if member { "q:special:member" } else { "q:special:non-member" }),
        }
        if pt.depth() >= 255 {
            ctx.label("cmp:proof-depth>=255");
        }
    }
    ctx.add_inner(queries.len() as u64);
    if label_set(ctx, &g) {
        ctx.nontrivial(f.finish());
    }
    ctx.render(|| format!("{} root {} with {} queries", render_set(&g.set), hex(&root), queries.len()));
    ctx.ran_dry(s.ran_dry());
    Ok(())
}

// ---------------------------------------------------------------------------
// 3. soundness: structural rewrites of honest proofs

#[derive(Default)]
struct Sites {
    /// Mid over (Empty, double) / (double, Empty)
    chain: Vec<Vec<bool>>,
    /// Mid whose value is a double (chain levels and the two-terminal node)
    dbl: Vec<Vec<bool>>,
    mids: Vec<Vec<bool>>,
    truncs: Vec<Vec<bool>>,
    terms: Vec<Vec<bool>>,
    empties: Vec<Vec<bool>>,
}

fn scan(t: &PT, path: &mut Vec<bool>, st: &mut Sites) -> Val {
    match t {
        PT::Empty => {
            st.empties.push(path.clone());
            V_EMPTY
        }
        PT::Term(l) => {
            st.terms.push(path.clone());
            model::v_term(l)
        }
        PT::Trunc(h) => {
            st.truncs.push(path.clone());
            Val { kind: Kind::Mid, hash: *h, dbl: false }
        }
        PT::Mid(l, r) => {
            path.push(false);
            let lv = scan(l, path, st);
            path.pop();
            path.push(true);
            let rv = scan(r, path, st);
            path.pop();
            let v = PT::combine(&lv, &rv);
            st.mids.push(path.clone());
            if (lv.kind == Kind::Empty && rv.dbl) || (rv.kind == Kind::Empty && lv.dbl) {
                st.chain.push(path.clone());
            }
            if v.dbl {
                st.dbl.push(path.clone());
            }
            v
        }
    }
}

/// honest trie nodes of the set: (hash, lo, hi, depth)
type Honest = Vec<(Leaf, usize, usize, usize)>;

/// randomly truncated but complete-where-it-matters proof tree of a range
fn partial(s: &mut Src, set: &[Leaf], depth: usize) -> PT {
    match set.len() {
        0 => PT::Empty,
        1 => PT::Term(set[0]),
        2 => full_tree(set, depth),
        _ => {
            let cut = set.partition_point(|x| !bit(x, depth));
            let (l, r) = set.split_at(cut);
            let lt = if l.len() >= 2 && s.chance(150) { summary(l, depth + 1) } else { partial(s, l, depth + 1) };
            let rt = if r.len() >= 2 && s.chance(150) { summary(r, depth + 1) } else { partial(s, r, depth + 1) };
            PT::mid(lt, rt)
        }
    }
}

fn leaf_with_prefix(s: &mut Src, path: &[bool]) -> Leaf {
    let mut l = if s.bool() { s.array::<32>() } else { [0u8; 32] };
    for (i, b) in path.iter().enumerate().take(256) {
        if bit(&l, i) != *b {
            flip(&mut l, i);
        }
    }
    l
}

const OPS: [&str; 11] = [
    "swap-chain-side",
    "insert-chain-level",
    "remove-chain-level",
    "truncate-subtree",
    "expand-truncated",
    "swap-terminals",
    "replace-terminal-same-prefix",
    "swap-children",
    "wrap-any-node",
    "terminal<->empty",
    "terminal<->truncated",
];
const OP_WEIGHTS: [u32; 11] = [6, 4, 4, 5, 5, 2, 3, 2, 2, 2, 2];

/// apply one structural rewrite; returns the index of the op applied
fn apply_op(s: &mut Src, pt: &mut PT, set: &[Leaf], honest: &Honest) -> Option<usize> {
    let mut st = Sites::default();
    scan(pt, &mut Vec::new(), &mut st);
    let first = s.weighted(&OP_WEIGHTS);
    for off in 0..OPS.len() {
        let op = (first + off) % OPS.len();
        let done = match op {
            0 => {
                if st.chain.is_empty() {
                    false
                } else {
                    let p = &st.chain[s.below(st.chain.len())];
                    if let PT::Mid(l, r) = pt.at_mut(p) {
                        std::mem::swap(l, r);
                    }
                    true
                }
            }
            1 => {
                if st.dbl.is_empty() {
                    false
                } else {
                    let p = &st.dbl[s.below(st.dbl.len())];
                    let node = pt.at_mut(p);
                    let mut old = std::mem::replace(node, PT::Empty);
                    for _ in 0..=s.below(3) {
                        old = if s.bool() { PT::mid(PT::Empty, old) } else { PT::mid(old, PT::Empty) };
                    }
                    *node = old;
                    true
                }
            }
            2 => {
                if st.chain.is_empty() {
                    false
                } else {
                    let p = &st.chain[s.below(st.chain.len())];
                    let node = pt.at_mut(p);
                    if let PT::Mid(l, r) = std::mem::replace(node, PT::Empty) {
                        *node = if matches!(*l, PT::Empty) { *r } else { *l };
                    }
                    true
                }
            }
            3 => {
                if st.mids.is_empty() {
                    false
                } else {
                    let p = &st.mids[s.below(st.mids.len())];
                    let node = pt.at_mut(p);
                    let h = node.eval().hash;
                    *node = PT::Trunc(h);
                    true
                }
            }
            4 => {
                let cands: Vec<(&Vec<bool>, usize)> = st
                    .truncs
                    .iter()
                    .filter_map(|p| {
                        if let PT::Trunc(h) = pt.at(p) {
                            honest.iter().position(|e| e.0 == *h).map(|i| (p, i))
                        } else {
                            None
                        }
                    })
                    .collect();
                if cands.is_empty() {
                    false
                } else {
                    let (p, i) = cands[s.below(cands.len())];
                    let (_, lo, hi, depth) = honest[i];
                    let sub = partial(s, &set[lo..hi], depth);
                    *pt.at_mut(p) = sub;
                    true
                }
            }
            5 => {
                if st.terms.len() < 2 {
                    false
                } else {
                    let i = s.below(st.terms.len());
                    let j = (i + 1 + s.below(st.terms.len() - 1)) % st.terms.len();
                    let a = pt.at(&st.terms[i]).clone();
                    let b = std::mem::replace(pt.at_mut(&st.terms[j]), a);
                    *pt.at_mut(&st.terms[i]) = b;
                    true
                }
            }
            6 => {
                if st.terms.is_empty() {
                    false
                } else {
                    let p = &st.terms[s.below(st.terms.len())];
                    let d = p.len();
                    let old = match pt.at(p) {
                        PT::Term(l) => *l,
                        _ => unreachable!(),
                    };
                    let same_prefix: Vec<&Leaf> = set
                        .iter()
                        .filter(|m| **m != old && d <= 256 && p.iter().enumerate().all(|(i, b)| bit(m, i) == *b))
                        .collect();
                    let new = if !same_prefix.is_empty() && s.bool() {
                        *same_prefix[s.below(same_prefix.len())]
                    } else {
                        let mut n = old;
                        let pos = if d < 256 { d + s.below(256 - d) } else { 255 };
                        flip(&mut n, pos);
                        n
                    };
                    *pt.at_mut(p) = PT::Term(new);
                    true
                }
            }
            7 => {
                if st.mids.is_empty() {
                    false
                } else {
                    let p = &st.mids[s.below(st.mids.len())];
                    if let PT::Mid(l, r) = pt.at_mut(p) {
                        std::mem::swap(l, r);
                    }
                    true
                }
            }
            8 => {
                let all: Vec<&Vec<bool>> =
                    st.mids.iter().chain(st.terms.iter()).chain(st.truncs.iter()).chain(st.empties.iter()).collect();
                let p = all[s.below(all.len())];
                let node = pt.at_mut(p);
                let old = std::mem::replace(node, PT::Empty);
                *node = if s.bool() { PT::mid(PT::Empty, old) } else { PT::mid(old, PT::Empty) };
                true
            }
            9 => {
                let all: Vec<&Vec<bool>> = st.terms.iter().chain(st.empties.iter()).collect();
                if all.is_empty() {
                    false
                } else {
                    let p = all[s.below(all.len())];
                    let new = match pt.at(p) {
                        PT::Term(_) => PT::Empty,
                        _ => PT::Term(leaf_with_prefix(s, p)),
                    };
                    *pt.at_mut(p) = new;
                    true
                }
            }
            _ => {
                let all: Vec<&Vec<bool>> = st.terms.iter().chain(st.truncs.iter()).collect();
                if all.is_empty() {
                    false
                } else {
                    let p = all[s.below(all.len())];
                    let new = match pt.at(p) {
                        PT::Term(l) => PT::Trunc(*l),
                        PT::Trunc(h) => PT::Term(*h),
                        _ => unreachable!(),
                    };
                    *pt.at_mut(p) = new;
                    true
                }
            }
        };
        if done {
            return Some(op);
        }
    }
    None
}

const BYTE_OPS: [&str; 4] = ["append-bytes", "drop-bytes", "flip-bit", "append-node"];

fn apply_byte_op(s: &mut Src, b: &mut Vec<u8>) -> usize {
    let op = s.below(4);
    match op {
        0 => {
            let n = 1 + s.below(34);
            for _ in 0..n {
                b.push(s.u8());
            }
        }
        1 => {
            let n = 1 + s.below(34.min(b.len()));
            b.truncate(b.len().saturating_sub(n));
        }
        2 => {
            if !b.is_empty() {
                let at = s.below(b.len());
                b[at] ^= 1 << s.below(8);
            }
        }
        _ => match s.below(3) {
            0 => b.push(model::EMPTY),
            1 => {
                b.push(model::TERMINAL);
                b.extend_from_slice(&s.array::<32>());
            }
            _ => {
                b.push(model::TRUNCATED);
                b.extend_from_slice(&s.array::<32>());
            }
        },
    }
    op
}

pub fn case_rewrites(bytes: &[u8], ctx: &mut Ctx) -> CaseResult {
    let mut s = Src::new(bytes);
    let g = gen_set(&mut s, 0);
    let root = set_root(&g.set);
    model_self_check(&g.set, &root)?;
    let mut l = g.list.clone();
    let tree = MerkleSet::from_leafs(&mut l);
    let honest: Honest = model::honest_nodes(&g.set);
    let mut fp = Fnv::new();
    for l in &g.set {
        fp.write(l);
    }
    let mut reached = 0u64;
    let mut inner = 0u64;
    let ncand = 3;
    let mut last_render = String::new();
    for _ in 0..ncand {
        // ---- the base: an honest proof
        let p = if !g.set.is_empty() && s.chance(176) {
            g.set[s.below(g.set.len())]
        } else {
            let anchor = if g.set.is_empty() { g.base } else { g.set[s.below(g.set.len())] };
            let k = if s.bool() { *s.pick(&POS) } else { s.below(256) };
            gen::prefix_sharing(&mut s, &anchor, k)
        };
        let mut pt = match s.weighted(&[5, 2, 1]) {
            0 => {
                // what the code under test generates, read by the model's parser
                let Ok((_, pb)) = tree.generate_proof(&p) else {
                    vfail!("C12:completeness:generate_proof-fails", "generate_proof({}) on {} returned Err", hex(&p), set_hex(&g.set))
                };
                match PT::parse(&pb) {
                    Ok(t) => t,
                    Err(e) => vfail!(
                        "C12:completeness:proof-not-in-proof-format",
                        "the model's parser cannot read the generated proof ({e:?}): item {} set {} proof {}",
                        hex(&p),
                        set_hex(&g.set),
                        hex(&pb)
                    ),
                }
            }
            1 => partial(&mut s, &g.set, 0),
            _ => honest_proof(&g.set, &p, 0),
        };
        // ---- rewrites
        let nops = s.weighted(&[1, 8, 4, 2]);
        let mut ops: Vec<usize> = vec![];
        for _ in 0..nops {
            if pt.size() > 3000 {
                break;
            }
            if let Some(op) = apply_op(&mut s, &mut pt, &g.set, &honest) {
                ops.push(op);
            }
        }
        let mut cand = pt.serialize();
        let mut byte_op = None;
        if s.chance(40) {
            byte_op = Some(apply_byte_op(&mut s, &mut cand));
        }
        // ---- the model's view of the candidate (labels only)
        let (parsed, parse_err) = if byte_op.is_some() {
            match PT::parse(&cand) {
                Ok(t) => (Some(t), None),
                Err(e) => (None, Some(e)),
            }
        } else {
            (Some(pt), None)
        };
        let root_preserved = parsed.as_ref().is_some_and(|t| t.root() == root);
        let audit_ok = parsed.as_ref().is_some_and(PT::audit);
        let depth_ok = parsed.as_ref().is_some_and(|t| t.depth() <= 256);
        for op in &ops {
            ctx.label(format!("rw:op:{}", OPS[*op]));
        }
        if let Some(b) = byte_op {
            ctx.label(format!("rw:op:{}", BYTE_OPS[b]));
        }
        if ops.is_empty() && byte_op.is_none() {
            ctx.label("rw:op:none(honest-proof-for-other-items)");
        }
        ctx.label(match (parsed.is_some(), root_preserved) {
            (false, _) => "rw:candidate:malformed",
            (true, true) => "rw:candidate:root-preserved",
            (true, false) => "rw:candidate:root-changed",
        });
        if root_preserved {
            for op in &ops {
                ctx.label(format!("rw:root-preserved-after:{}", OPS[*op]));
            }
        }
        // ---- query items
        let mut qs: Vec<Leaf> = vec![p];
        if let Some(t) = &parsed {
            let mut terms = vec![];
            t.terminals(&mut terms);
            for _ in 0..terms.len().min(4) {
                qs.push(terms[s.below(terms.len())]);
            }
        }
        for _ in 0..2 {
            if !g.set.is_empty() {
                qs.push(g.set[s.below(g.set.len())]);
            }
            let anchor = if g.set.is_empty() { g.base } else { g.set[s.below(g.set.len())] };
            let k = if s.bool() { *s.pick(&POS) } else { s.below(256) };
            qs.push(gen::prefix_sharing(&mut s, &anchor, k));
        }
        fp.write(&cand);
        for q in &qs {
            fp.write(q);
            let member = is_member(&g.set, q);
            let res = real_validate(&cand, q, &root);
            inner += 1;
            check_sound(res, member, || {
                format!(
                    "item {} set {} root {} candidate proof {} (rewrites: {:?}{}; by the definition the candidate hashes to {})",
                    hex(q),
                    set_hex(&g.set),
                    hex(&root),
                    hex(&cand),
                    ops.iter().map(|o| OPS[*o]).collect::<Vec<_>>(),
                    byte_op.map(|b| format!(" + {}", BYTE_OPS[b])).unwrap_or_default(),
                    parsed.as_ref().map(|t| hex(&t.root())).unwrap_or_else(|| "<malformed>".into()),
                )
            })?;
            // informational: trailing garbage after a complete honest tree
            if res.is_some() && matches!(parse_err, Some(model::ParseErr::Trailing)) {
                ctx.label("rw:info:verdict-despite-trailing-bytes");
            }
            if !root_preserved {
                if res.is_some() {
                    // not a soundness violation by itself (the verdict was
                    // right), but worth seeing in the evidence
                    ctx.label("rw:info:verdict-although-model-root-differs");
                }
                continue;
            }
            let identical = matches!(tree.generate_proof(q), Ok((_, hp)) if hp == cand);
            if identical {
                ctx.label("rw:root-preserved:identical-to-honest-proof");
                continue;
            }
            // root-preserving, non-identical: did it reach the lookup?
            let t = parsed.as_ref().unwrap();
            if res.is_some() {
                ctx.label("rw:root-preserved-nonidentical:REACHED-LOOKUP:verdict-ok");
                reached += 1;
            } else if audit_ok && depth_ok && t.lookup(q).is_none() {
                ctx.label("rw:root-preserved-nonidentical:REACHED-LOOKUP:ends-in-truncated(err)");
                reached += 1;
            } else if !audit_ok {
                ctx.label("rw:root-preserved-nonidentical:stopped-by-leaf-position-audit");
            } else {
                ctx.label("rw:root-preserved-nonidentical:rejected-otherwise");
            }
        }
        if ctx.want_render() {
            last_render = format!(
                "{} root {}; base = proof for {}; rewrites {:?}{} -> candidate {} (root preserved: {root_preserved}, audit: {audit_ok}); {} items queried",
                render_set(&g.set),
                short(&root),
                short(&p),
                ops.iter().map(|o| OPS[*o]).collect::<Vec<_>>(),
                byte_op.map(|b| format!(" + {}", BYTE_OPS[b])).unwrap_or_default(),
                parsed.as_ref().map(PT::render).unwrap_or_else(|| format!("<malformed: {parse_err:?}>")),
                qs.len()
            );
        }
    }
    ctx.add_inner(inner);
    label_set(ctx, &g);
    if reached > 0 {
        ctx.nontrivial(fp.finish());
    }
    ctx.render(|| last_render);
    ctx.ran_dry(s.ran_dry());
    Ok(())
}

// ---------------------------------------------------------------------------
// 4. soundness: bounded-exhaustive enumeration of proof trees

enum TruncSel {
    /// every Mid-kind node hash of the honest tries of all subsets
    All,
    /// the root node hashes of the subsets with these masks
    RootsOf(&'static [usize]),
    None,
}

struct SpaceDef {
    name: &'static str,
    /// leading bits of each crafted leaf
    prefixes: &'static [&'static str],
    /// maximum number of Middle levels
    depth: usize,
    truncs: TruncSel,
    thorough_only: bool,
}

const SPACES: &[SpaceDef] = &[
    SpaceDef { name: "k4-alltrunc-d2", prefixes: &["00", "01", "10", "11"], depth: 2, truncs: TruncSel::All, thorough_only: false },
    SpaceDef { name: "k2-alltrunc-d3", prefixes: &["000", "001"], depth: 3, truncs: TruncSel::All, thorough_only: false },
    SpaceDef { name: "k3-2trunc-d3", prefixes: &["00", "01", "1"], depth: 3, truncs: TruncSel::RootsOf(&[0b011, 0b111]), thorough_only: false },
    SpaceDef { name: "k3-alltrunc-d3", prefixes: &["00", "01", "1"], depth: 3, truncs: TruncSel::All, thorough_only: true },
    SpaceDef { name: "k5-alltrunc-d2", prefixes: &["000", "001", "01", "10", "11"], depth: 2, truncs: TruncSel::All, thorough_only: true },
    SpaceDef { name: "k2-notrunc-d4", prefixes: &["0000", "0001"], depth: 4, truncs: TruncSel::None, thorough_only: true },
];

struct Entry {
    bytes: Vec<u8>,
    val: Val,
}

struct Space {
    def: &'static SpaceDef,
    leaves: Vec<Leaf>,
    /// leaves + two non-alphabet items
    items: Vec<Leaf>,
    /// tab[n] = all trees with at most n Middle levels
    tab: Vec<Vec<Entry>>,
    /// per subset mask
    roots: Vec<Leaf>,
    subsets: Vec<Vec<Leaf>>,
    /// honest[mask][item] = proof bytes from the code under test
    honest: Vec<Vec<Vec<u8>>>,
}

fn crafted_leaf(prefix: &str, idx: usize) -> Leaf {
    let mut l = [0u8; 32];
    for (i, b) in l.iter_mut().enumerate() {
        *b = (0x3d_u8).wrapping_mul(i as u8 + 1).wrapping_add(0x51u8.wrapping_mul(idx as u8 + 1)) ^ 0xa5;
    }
    for (i, c) in prefix.chars().enumerate() {
        if bit(&l, i) != (c == '1') {
            flip(&mut l, i);
        }
    }
    l
}

fn build_space(def: &'static SpaceDef) -> Space {
    let leaves: Vec<Leaf> = def.prefixes.iter().enumerate().map(|(i, p)| crafted_leaf(p, i)).collect();
    let k = leaves.len();
    let mut subsets = vec![];
    let mut roots = vec![];
    for mask in 0..(1usize << k) {
        let sub: Vec<Leaf> = model::sorted_set(&(0..k).filter(|i| mask >> i & 1 == 1).map(|i| leaves[i]).collect::<Vec<_>>());
        roots.push(set_root(&sub));
        subsets.push(sub);
    }
    let mut truncs: Vec<Leaf> = vec![];
    match def.truncs {
        TruncSel::All => {
            for sub in &subsets {
                for (h, ..) in model::honest_nodes(sub) {
                    if !truncs.contains(&h) {
                        truncs.push(h);
                    }
                }
            }
        }
        TruncSel::RootsOf(masks) => {
            for m in masks {
                truncs.push(model::set_val(&subsets[*m], 0).hash);
            }
        }
        TruncSel::None => {}
    }
    let mut syms: Vec<PT> = vec![PT::Empty];
    syms.extend(leaves.iter().map(|l| PT::Term(*l)));
    syms.extend(truncs.iter().map(|h| PT::Trunc(*h)));
    let mut tab: Vec<Vec<Entry>> = vec![syms.iter().map(|t| Entry { bytes: t.serialize(), val: t.eval() }).collect()];
    for n in 1..def.depth {
        let prev = &tab[n - 1];
        let mut cur: Vec<Entry> = syms.iter().map(|t| Entry { bytes: t.serialize(), val: t.eval() }).collect();
        for a in prev {
            for b in prev {
                let mut bytes = Vec::with_capacity(1 + a.bytes.len() + b.bytes.len());
                bytes.push(model::MIDDLE);
                bytes.extend_from_slice(&a.bytes);
                bytes.extend_from_slice(&b.bytes);
                cur.push(Entry { bytes, val: PT::combine(&a.val, &b.val) });
            }
        }
        tab.push(cur);
    }
    let mut items = leaves.clone();
    let mut x = leaves[0];
    flip(&mut x, 255);
    items.push(x);
    let mut y = leaves[k - 1];
    flip(&mut y, 255);
    items.push(y);
    let honest = subsets
        .iter()
        .map(|sub| {
            let mut l = sub.clone();
            let t = MerkleSet::from_leafs(&mut l);
            items.iter().map(|q| t.generate_proof(q).map(|x| x.1).unwrap_or_default()).collect()
        })
        .collect();
    Space { def, leaves, items, tab, roots, subsets, honest }
}

fn spaces() -> &'static Vec<Space> {
    static S: OnceLock<Vec<Space>> = OnceLock::new();
    S.get_or_init(|| SPACES.iter().map(build_space).collect())
}

#[derive(Default)]
struct EnumCounters {
    calls: u64,
    matched_trees: u64,
    identical: u64,
    nonid_ok: u64,
    nonid_trunc: u64,
    nonid_audit: u64,
    nonid_other: u64,
    verdict_on_mismatch: u64,
}

fn check_tree(sp: &Space, tree_no: usize, bytes: &[u8], val: &Val, c: &mut EnumCounters) -> CaseResult {
    let troot = model::compress_root(val);
    let nitems = sp.items.len();
    let mut parsed: Option<PT> = None;
    let mut any = false;
    for (mask, sroot) in sp.roots.iter().enumerate() {
        let matched = *sroot == troot;
        let range = if matched { 0..nitems } else { (tree_no + mask) % nitems..(tree_no + mask) % nitems + 1 };
        for qi in range {
            let q = &sp.items[qi];
            let member = qi < sp.leaves.len() && (mask >> qi) & 1 == 1;
            let res = real_validate(bytes, q, sroot);
            c.calls += 1;
            check_sound(res, member, || {
                format!(
                    "space {} tree #{tree_no}: item {} set {} root {} candidate proof {} (by the definition the candidate hashes to {})",
                    sp.def.name,
                    hex(q),
                    set_hex(&sp.subsets[mask]),
                    hex(sroot),
                    hex(bytes),
                    hex(&troot)
                )
            })?;
            if !matched {
                if res.is_some() {
                    c.verdict_on_mismatch += 1;
                }
                continue;
            }
            any = true;
            if sp.honest[mask][qi] == bytes {
                c.identical += 1;
                continue;
            }
            let t = parsed.get_or_insert_with(|| PT::parse(bytes).expect("harness: enumerated tree parses"));
            if res.is_some() {
                c.nonid_ok += 1;
            } else if !t.audit() {
                c.nonid_audit += 1;
            } else if t.lookup(q).is_none() {
                c.nonid_trunc += 1;
            } else {
                c.nonid_other += 1;
            }
        }
    }
    if any {
        c.matched_trees += 1;
    }
    Ok(())
}

fn push_n(ctx: &mut Ctx, label: &'static str, n: u64) {
    for _ in 0..n {
        ctx.label(label);
    }
}

/// bytes = [space index, block (u32 BE)]; block 0 = the leaf symbols as whole
/// proofs, block i+1 = all trees Middle(tab[d-1][i], *)
pub fn case_enum(bytes: &[u8], ctx: &mut Ctx) -> CaseResult {
    let mut s = Src::new(bytes);
    let si = s.u8() as usize;
    let block = s.u32() as usize;
    let all = spaces();
    if si >= all.len() {
        ctx.discard();
        return Ok(());
    }
    let sp = &all[si];
    let sub = &sp.tab[sp.def.depth - 1];
    if block > sub.len() {
        ctx.discard();
        return Ok(());
    }
    let mut c = EnumCounters::default();
    let mut trees = 0u64;
    let nsym = sp.tab[0].len();
    if block == 0 {
        for (n, e) in sp.tab[0].iter().enumerate() {
            check_tree(sp, n, &e.bytes, &e.val, &mut c)?;
            trees += 1;
        }
    } else {
        let a = &sub[block - 1];
        let mut buf: Vec<u8> = Vec::with_capacity(300);
        for (j, b) in sub.iter().enumerate() {
            buf.clear();
            buf.push(model::MIDDLE);
            buf.extend_from_slice(&a.bytes);
            buf.extend_from_slice(&b.bytes);
            let val = PT::combine(&a.val, &b.val);
            let tree_no = nsym + (block - 1) * sub.len() + j;
            check_tree(sp, tree_no, &buf, &val, &mut c)?;
            trees += 1;
        }
    }
    ctx.add_inner(c.calls);
    push_n(ctx, "enum:tree-hashes-to-an-honest-subset-root", c.matched_trees);
    push_n(ctx, "enum:root-match:identical-to-honest-proof", c.identical);
    push_n(ctx, "enum:root-match-nonidentical:REACHED-LOOKUP:verdict-ok", c.nonid_ok);
    push_n(ctx, "enum:root-match-nonidentical:REACHED-LOOKUP:ends-in-truncated(err)", c.nonid_trunc);
    push_n(ctx, "enum:root-match-nonidentical:stopped-by-leaf-position-audit", c.nonid_audit);
    push_n(ctx, "enum:root-match-nonidentical:rejected-otherwise", c.nonid_other);
    push_n(ctx, "enum:info:verdict-although-model-root-differs", c.verdict_on_mismatch);
    let per = sp.tab[sp.def.depth - 1].len();
    ctx.label(format!("enum:space:{}({}-trees):blocks", sp.def.name, nsym + per * per));
    if c.nonid_ok + c.nonid_trunc + c.nonid_audit > 0 {
        ctx.nontrivial(((si as u64) << 32) | block as u64);
    }
    ctx.render(|| {
        format!(
            "space {} ({} leaves, {} symbols, depth<={}), block {block}: {trees} trees x {} subsets, {} validate calls; {} trees hash to an honest root; non-identical root-matching (tree,item) pairs: {} verdicts, {} truncated, {} audit-stopped",
            sp.def.name,
            sp.leaves.len(),
            nsym,
            sp.def.depth,
            sp.roots.len(),
            c.calls,
            c.matched_trees,
            c.nonid_ok,
            c.nonid_trunc,
            c.nonid_audit
        )
    });
    Ok(())
}

fn enum_trees(tier: Tier, shard: usize, n: usize, emit: &mut dyn FnMut(&[u8]) -> bool) {
    let mut idx = 0usize;
    for (si, sp) in spaces().iter().enumerate() {
        if sp.def.thorough_only && tier == Tier::Quick {
            continue;
        }
        let blocks = sp.tab[sp.def.depth - 1].len() + 1;
        for b in 0..blocks {
            let mine = idx % n == shard;
            idx += 1;
            if !mine {
                continue;
            }
            let mut bytes = vec![si as u8];
            bytes.extend_from_slice(&(b as u32).to_be_bytes());
            if !emit(&bytes) {
                return;
            }
        }
    }
}

pub fn run_main() {
    let prop = Property {
        id: "C12",
        rule: "canonical-root / completeness: leaf lists of 0..40 32-byte values (a base value with 0-3 bit flips at positions {0,1,2,7,8,127,254,255}, flips of earlier leaves, random values, duplicates) in arbitrary order; non-trivial = the set has >=2 distinct leaves AND (two leaves share a prefix of >=8 bits OR a two-leaf range is collapsed over >=1 one-sided level); distinct by the leaf list (+ queries). soundness-rewrites: 3 candidates per set, each an honest proof (as generated by the code, or built by the model, or a randomly truncated full tree) after 0-3 structural rewrites (+ byte-level edits), each queried with ~9 items; non-trivial = at least one (candidate,item) pair where the candidate hashes to root(S) by the definition, is NOT byte-identical to generate_proof(item), and reached the lookup (Ok verdict, or walk ending in a Truncated node); distinct by set+candidates+items. soundness-enum: a case is a block of all proof trees Middle(t_i, *) of a bounded space (alphabet = crafted leaves, Empty, Truncated(honest sub-tree hashes); depth <= d), every tree validated against the roots of all 2^k subsets (all items when the root matches by the definition, one rotating item otherwise); non-trivial = the block contains a root-matching non-identical tree.",
        assumptions: &[
            "reference = harness model written from the definition in tests/merkle_set.py (collapsed binary trie hash; proof trees with own parser/root/audit/lookup); the model's two formulations are cross-checked in every case",
            "SHA-256 collision resistance: the model's root equality is used only to classify candidates (labels, which items to query), never to excuse a verdict",
            "only the soundness relation validate(P,q,root(S)) in {Err, Ok(q in S)} is asserted about non-honest proofs; which malformed proofs are rejected is not asserted",
        ],
        death_is_violation: false,
        subchecks: vec![
            SubCheck {
                name: "canonical-root",
                about: "compute_merkle_set_root = from_leafs().get_root() = definition, for the sorted set, the generated list (order+duplicates), a permutation with other duplicates, and the reversed set",
                source: Source::Random { len: 768, quick: 600_000, thorough: 12_000_000 },
                run: case_canonical,
                inflight: false,
                min_nontrivial: 300_000,
                required_labels: &[
                    "set:size-0",
                    "set:size-1",
                    "set:size-2",
                    "set:size-9..40",
                    "set:staircase-41..257",
                    "set:list-has-duplicates",
                    "set:shared-prefix=255",
                    "set:collapsed-chain>=100-levels",
                    "set:one-sided-level-over->=3-leaves",
                ],
            },
            SubCheck {
                name: "completeness",
                about: "generate_proof flag = membership, validate_merkle_proof(honest proof) = Ok(membership), the model parses the proof to the same root and decides the item; ~20 queries per set incl. non-members sharing k bits with a member for every k in {0,1,2,7,8,127,254,255}",
                source: Source::Random { len: 1024, quick: 120_000, thorough: 2_400_000 },
                run: case_completeness,
                inflight: false,
                min_nontrivial: 60_000,
                required_labels: &[
                    "q:member",
                    "q:non-member:shares-0-bits",
                    "q:non-member:shares-8-bits",
                    "q:non-member:shares-127-bits",
                    "q:non-member:shares-254-bits",
                    "q:non-member:shares-255-bits",
                    "q:random",
                    "cmp:proof-depth>=255",
                    "cmp:honest-proof-vs-neighbour-set-root",
                    "cmp:honest-proof>=8000-bytes",
                    "set:staircase-41..257",
                    "set:leaf-equals-hash-of-sibling-subtree",
                ],
            },
            SubCheck {
                name: "soundness-rewrites",
                about: "structural rewrites of honest proofs (chain side swaps, chain level insert/remove, truncate/expand, terminal swaps/replacements, byte edits): validate(P,q,root(S)) is Err or Ok(q in S)",
                source: Source::Random { len: 1536, quick: 150_000, thorough: 3_000_000 },
                run: case_rewrites,
                inflight: false,
                min_nontrivial: 50_000,
                required_labels: &[
                    "rw:root-preserved-nonidentical:REACHED-LOOKUP:verdict-ok",
                    "rw:root-preserved-nonidentical:REACHED-LOOKUP:ends-in-truncated(err)",
                    "rw:root-preserved-nonidentical:stopped-by-leaf-position-audit",
                    "rw:root-preserved-after:swap-chain-side",
                    "rw:root-preserved-after:insert-chain-level",
                    "rw:root-preserved-after:remove-chain-level",
                    "rw:root-preserved-after:truncate-subtree",
                    "rw:root-preserved-after:expand-truncated",
                    "rw:op:swap-terminals",
                    "rw:op:replace-terminal-same-prefix",
                    "rw:op:append-bytes",
                    "rw:op:drop-bytes",
                ],
            },
            SubCheck {
                name: "soundness-enum",
                about: "bounded-exhaustive: every proof tree up to depth d over {crafted leaves, Empty, Truncated(honest sub-tree hashes)} against the roots of all subsets of the leaves, every alphabet item (+2 outsiders) queried",
                source: Source::Enumerate { f: enum_trees, exhaustive: true },
                run: case_enum,
                inflight: false,
                min_nontrivial: 25,
                required_labels: &[
                    "enum:root-match-nonidentical:REACHED-LOOKUP:verdict-ok",
                    "enum:root-match-nonidentical:stopped-by-leaf-position-audit",
                ],
            },
        ],
    };
    engine::main(prop);
}
