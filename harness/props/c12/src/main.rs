fn main() {
    c12::run_main();
}
