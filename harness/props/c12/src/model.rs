//! Reference model of the Merkle set, written from the definition (the
//! docstring and node rules of `/repo/tests/merkle_set.py`), never calling the
//! code under test.
//!
//! * the **set root**: hash of the collapsed binary trie over a sorted,
//!   de-duplicated slice, by recursive bit splitting (`set_val`, `set_root`);
//! * the **proof tree** (`PT`): own parser of the proof byte format, own
//!   evaluation (`eval`, with the "(Empty, double) levels are transparent"
//!   rule), own leaf-position audit and own membership lookup.
//!
//! The two are deliberately formulated differently (the set root decides
//! "double" by *counting leaves in the range*, the proof tree by *propagating
//! a flag upwards*), and `full_tree(set).root() == set_root(set)` is checked as
//! a harness self-test in every case.

use sha2::{Digest, Sha256};

pub type Leaf = [u8; 32];
pub const BLANK: Leaf = [0u8; 32];

pub const EMPTY: u8 = 0;
pub const TERMINAL: u8 = 1;
pub const MIDDLE: u8 = 2;
pub const TRUNCATED: u8 = 3;

/// bit `pos` (0 = most significant bit of byte 0)
pub fn bit(v: &Leaf, pos: usize) -> bool {
    (v[pos >> 3] >> (7 - (pos & 7))) & 1 == 1
}

pub fn flip(v: &mut Leaf, pos: usize) {
    v[pos >> 3] ^= 0x80 >> (pos & 7);
}

/// number of leading bits two values share (256 if equal)
pub fn common_prefix(a: &Leaf, b: &Leaf) -> usize {
    for i in 0..32 {
        let x = a[i] ^ b[i];
        if x != 0 {
            return i * 8 + x.leading_zeros() as usize;
        }
    }
    256
}

#[derive(Clone, Copy, PartialEq, Eq, Debug)]
pub enum Kind {
    Empty,
    Term,
    Mid,
}

impl Kind {
    fn code(self) -> u8 {
        match self {
            Kind::Empty => 0,
            Kind::Term => 1,
            Kind::Mid => 2,
        }
    }
}

/// value of a (sub-)tree: its kind, its 32-byte payload (BLANK / the leaf /
/// the node hash) and whether it is a "double" (exactly two terminals below,
/// possibly under a run of one-sided levels)
#[derive(Clone, Copy, PartialEq, Eq, Debug)]
pub struct Val {
    pub kind: Kind,
    pub hash: Leaf,
    pub dbl: bool,
}

pub const V_EMPTY: Val = Val { kind: Kind::Empty, hash: BLANK, dbl: false };

pub fn v_term(l: &Leaf) -> Val {
    Val { kind: Kind::Term, hash: *l, dbl: false }
}

/// sha256( 30 zero bytes | type(l) | type(r) | payload(l) | payload(r) )
pub fn hashdown(l: &Val, r: &Val) -> Leaf {
    let mut h = Sha256::new();
    h.update([0u8; 30]);
    h.update([l.kind.code(), r.kind.code()]);
    h.update(l.hash);
    h.update(r.hash);
    h.finalize().into()
}

/// the root as published: BLANK for the empty set, sha256(01|leaf) for a
/// single leaf, the node hash otherwise
pub fn compress_root(v: &Val) -> Leaf {
    match v.kind {
        Kind::Empty => BLANK,
        Kind::Mid => v.hash,
        Kind::Term => {
            let mut h = Sha256::new();
            h.update([TERMINAL]);
            h.update(v.hash);
            h.finalize().into()
        }
    }
}

// ---------------------------------------------------------------------------
// the set root, from the definition

/// `s` sorted ascending, no duplicates; all elements share their first
/// `depth` bits.
pub fn set_val(s: &[Leaf], depth: usize) -> Val {
    match s.len() {
        0 => V_EMPTY,
        1 => v_term(&s[0]),
        // exactly two leaves: every one-sided level above the level where
        // they part is skipped; the node is hash(Term a, Term b), a < b
        2 => Val { kind: Kind::Mid, hash: hashdown(&v_term(&s[0]), &v_term(&s[1])), dbl: true },
        _ => {
            let cut = s.partition_point(|x| !bit(x, depth));
            let l = set_val(&s[..cut], depth + 1);
            let r = set_val(&s[cut..], depth + 1);
            Val { kind: Kind::Mid, hash: hashdown(&l, &r), dbl: false }
        }
    }
}

pub fn sorted_set(list: &[Leaf]) -> Vec<Leaf> {
    let mut v = list.to_vec();
    v.sort_unstable();
    v.dedup();
    v
}

pub fn set_root(sorted: &[Leaf]) -> Leaf {
    compress_root(&set_val(sorted, 0))
}

/// every Mid-kind node of the honest trie: hash -> (lo, hi, depth) of the
/// range of `s` below it. Collapsed doubles are recorded at the depth where
/// the one-sided run starts.
pub fn honest_nodes(s: &[Leaf]) -> Vec<(Leaf, usize, usize, usize)> {
    fn go(s: &[Leaf], lo: usize, hi: usize, depth: usize, out: &mut Vec<(Leaf, usize, usize, usize)>) {
        if hi - lo < 2 {
            return;
        }
        out.push((set_val(&s[lo..hi], depth).hash, lo, hi, depth));
        if hi - lo == 2 {
            return;
        }
        let cut = lo + s[lo..hi].partition_point(|x| !bit(x, depth));
        go(s, lo, cut, depth + 1, out);
        go(s, cut, hi, depth + 1, out);
    }
    let mut out = vec![];
    go(s, 0, s.len(), 0, &mut out);
    out
}

#[derive(Default, Debug, Clone, Copy)]
pub struct SetStats {
    /// longest prefix shared by two distinct members
    pub max_shared: usize,
    /// a two-leaf range whose leaves part strictly below the range's depth
    pub chain: bool,
    pub max_chain: usize,
    /// a one-sided level above a range of >= 3 leaves (hashed with Empty)
    pub one_sided_mid: bool,
}

pub fn set_stats(s: &[Leaf]) -> SetStats {
    fn go(s: &[Leaf], depth: usize, st: &mut SetStats) {
        match s.len() {
            0 | 1 => {}
            2 => {
                let c = common_prefix(&s[0], &s[1]);
                if c > depth {
                    st.chain = true;
                    st.max_chain = st.max_chain.max(c - depth);
                }
            }
            _ => {
                let cut = s.partition_point(|x| !bit(x, depth));
                if cut == 0 || cut == s.len() {
                    st.one_sided_mid = true;
                }
                go(&s[..cut], depth + 1, st);
                go(&s[cut..], depth + 1, st);
            }
        }
    }
    let mut st = SetStats::default();
    for w in s.windows(2) {
        st.max_shared = st.max_shared.max(common_prefix(&w[0], &w[1]));
    }
    go(s, 0, &mut st);
    st
}

// ---------------------------------------------------------------------------
// proof trees

#[derive(Clone, PartialEq, Eq, Debug)]
pub enum PT {
    Empty,
    Term(Leaf),
    Trunc(Leaf),
    Mid(Box<PT>, Box<PT>),
}

#[derive(Debug, PartialEq, Eq, Clone, Copy)]
pub enum ParseErr {
    Short,
    BadTag,
    Trailing,
    TooDeep,
}

pub const MODEL_MAX_DEPTH: usize = 2000;

impl PT {
    pub fn mid(l: PT, r: PT) -> PT {
        PT::Mid(Box::new(l), Box::new(r))
    }

    pub fn serialize_into(&self, out: &mut Vec<u8>) {
        match self {
            PT::Empty => out.push(EMPTY),
            PT::Term(l) => {
                out.push(TERMINAL);
                out.extend_from_slice(l);
            }
            PT::Trunc(h) => {
                out.push(TRUNCATED);
                out.extend_from_slice(h);
            }
            PT::Mid(l, r) => {
                out.push(MIDDLE);
                l.serialize_into(out);
                r.serialize_into(out);
            }
        }
    }

    pub fn serialize(&self) -> Vec<u8> {
        let mut v = Vec::new();
        self.serialize_into(&mut v);
        v
    }

    /// subtree := 00 | 01 leaf32 | 03 hash32 | 02 subtree subtree ; nothing may follow
    pub fn parse(bytes: &[u8]) -> Result<PT, ParseErr> {
        let (t, pos) = Self::parse_prefix(bytes)?;
        if pos != bytes.len() {
            return Err(ParseErr::Trailing);
        }
        Ok(t)
    }

    /// parse one subtree from the front; returns it and the bytes consumed
    pub fn parse_prefix(bytes: &[u8]) -> Result<(PT, usize), ParseErr> {
        fn take32(b: &[u8], pos: usize) -> Result<Leaf, ParseErr> {
            let s = b.get(pos..pos + 32).ok_or(ParseErr::Short)?;
            let mut l = [0u8; 32];
            l.copy_from_slice(s);
            Ok(l)
        }
        fn go(b: &[u8], pos: usize, depth: usize) -> Result<(PT, usize), ParseErr> {
            if depth > MODEL_MAX_DEPTH {
                return Err(ParseErr::TooDeep);
            }
            let tag = *b.get(pos).ok_or(ParseErr::Short)?;
            match tag {
                EMPTY => Ok((PT::Empty, pos + 1)),
                TERMINAL => Ok((PT::Term(take32(b, pos + 1)?), pos + 33)),
                TRUNCATED => Ok((PT::Trunc(take32(b, pos + 1)?), pos + 33)),
                MIDDLE => {
                    let (l, p1) = go(b, pos + 1, depth + 1)?;
                    let (r, p2) = go(b, p1, depth + 1)?;
                    Ok((PT::mid(l, r), p2))
                }
                _ => Err(ParseErr::BadTag),
            }
        }
        go(bytes, 0, 0)
    }

    /// a Middle over (Empty, double) or (double, Empty) is transparent: it has
    /// the value of its double child. Everything else hashes its children.
    pub fn combine(l: &Val, r: &Val) -> Val {
        if l.kind == Kind::Empty && r.dbl {
            return *r;
        }
        if r.kind == Kind::Empty && l.dbl {
            return *l;
        }
        Val {
            kind: Kind::Mid,
            hash: hashdown(l, r),
            dbl: l.kind == Kind::Term && r.kind == Kind::Term,
        }
    }

    pub fn eval(&self) -> Val {
        match self {
            PT::Empty => V_EMPTY,
            PT::Term(l) => v_term(l),
            PT::Trunc(h) => Val { kind: Kind::Mid, hash: *h, dbl: false },
            PT::Mid(l, r) => Self::combine(&l.eval(), &r.eval()),
        }
    }

    pub fn root(&self) -> Leaf {
        compress_root(&self.eval())
    }

    /// every terminal sits where its own bits lead (left = 0, right = 1)
    pub fn audit(&self) -> bool {
        fn go(t: &PT, path: &mut Vec<bool>) -> bool {
            match t {
                PT::Empty | PT::Trunc(_) => true,
                PT::Term(l) => path.len() <= 256 && path.iter().enumerate().all(|(i, b)| bit(l, i) == *b),
                PT::Mid(l, r) => {
                    path.push(false);
                    let a = go(l, path);
                    path.pop();
                    if !a {
                        return false;
                    }
                    path.push(true);
                    let b = go(r, path);
                    path.pop();
                    b
                }
            }
        }
        go(self, &mut Vec::new())
    }

    /// follow the item's bits: Empty => proven absent, Terminal => present iff
    /// equal, Truncated => nothing can be said
    pub fn lookup(&self, q: &Leaf) -> Option<bool> {
        let mut t = self;
        let mut depth = 0usize;
        loop {
            match t {
                PT::Empty => return Some(false),
                PT::Term(l) => return Some(l == q),
                PT::Trunc(_) => return None,
                PT::Mid(l, r) => {
                    if depth >= 256 {
                        return None;
                    }
                    t = if bit(q, depth) { r } else { l };
                    depth += 1;
                }
            }
        }
    }

    pub fn depth(&self) -> usize {
        match self {
            PT::Mid(l, r) => 1 + l.depth().max(r.depth()),
            _ => 0,
        }
    }

    pub fn size(&self) -> usize {
        match self {
            PT::Mid(l, r) => 1 + l.size() + r.size(),
            _ => 1,
        }
    }

    pub fn terminals(&self, out: &mut Vec<Leaf>) {
        match self {
            PT::Term(l) => out.push(*l),
            PT::Mid(l, r) => {
                l.terminals(out);
                r.terminals(out);
            }
            _ => {}
        }
    }

    pub fn at(&self, path: &[bool]) -> &PT {
        let mut t = self;
        for b in path {
            match t {
                PT::Mid(l, r) => t = if *b { r } else { l },
                _ => panic!("harness: path leaves the tree"),
            }
        }
        t
    }

    pub fn at_mut(&mut self, path: &[bool]) -> &mut PT {
        let mut t = self;
        for b in path {
            match t {
                PT::Mid(l, r) => t = if *b { r } else { l },
                _ => panic!("harness: path leaves the tree"),
            }
        }
        t
    }

    pub fn render(&self) -> String {
        fn go(t: &PT, out: &mut String, budget: &mut usize) {
            if *budget == 0 {
                out.push('…');
                return;
            }
            *budget -= 1;
            match t {
                PT::Empty => out.push('E'),
                PT::Term(l) => {
                    out.push_str("T:");
                    out.push_str(&short(l));
                }
                PT::Trunc(h) => {
                    out.push_str("X:");
                    out.push_str(&short(h));
                }
                PT::Mid(l, r) => {
                    out.push('(');
                    go(l, out, budget);
                    out.push(' ');
                    go(r, out, budget);
                    out.push(')');
                }
            }
        }
        let mut s = String::new();
        let mut budget = 120usize;
        go(self, &mut s, &mut budget);
        s
    }
}

pub fn short(l: &Leaf) -> String {
    format!("{:02x}{:02x}{:02x}..{:02x}{:02x}", l[0], l[1], l[2], l[30], l[31])
}

pub fn hex(b: &[u8]) -> String {
    let mut s = String::with_capacity(b.len() * 2);
    for x in b {
        s.push_str(&format!("{x:02x}"));
    }
    s
}

/// the complete, untruncated proof tree of a set: every level present
pub fn full_tree(s: &[Leaf], depth: usize) -> PT {
    match s.len() {
        0 => PT::Empty,
        1 => PT::Term(s[0]),
        _ => {
            assert!(depth < 256, "harness: duplicate leaves in a sorted set");
            let cut = s.partition_point(|x| !bit(x, depth));
            PT::mid(full_tree(&s[..cut], depth + 1), full_tree(&s[cut..], depth + 1))
        }
    }
}

/// what a sibling off the path is summarised as
pub fn summary(s: &[Leaf], depth: usize) -> PT {
    match s.len() {
        0 => PT::Empty,
        1 => PT::Term(s[0]),
        _ => PT::Trunc(set_val(s, depth).hash),
    }
}

/// the minimal honest proof for `q`: the path of `q` fully expanded, siblings
/// summarised, a two-leaf range always written out level by level
pub fn honest_proof(s: &[Leaf], q: &Leaf, depth: usize) -> PT {
    match s.len() {
        0 => PT::Empty,
        1 => PT::Term(s[0]),
        2 => full_tree(s, depth),
        _ => {
            let cut = s.partition_point(|x| !bit(x, depth));
            if bit(q, depth) {
                PT::mid(summary(&s[..cut], depth + 1), honest_proof(&s[cut..], q, depth + 1))
            } else {
                PT::mid(honest_proof(&s[..cut], q, depth + 1), summary(&s[cut..], depth + 1))
            }
        }
    }
}
