//! C17 — every tree-hash routine computes the same hash.
//!
//! Subjects (code under test, all in clvm-utils unless noted):
//!   tree_hash, tree_hash_cached + TreeCache (fresh, reused, with/without the
//!   visit_tree pre-pass of run_block_generator2), tree_hash_from_bytes (plain
//!   and back-reference serialisations), PRECOMPUTED_HASHES / the small-atom
//!   fast path, tree_hash_atom / tree_hash_pair, the TreeHasher encoder
//!   (hash_encoder.rs) through ToClvm, curry_tree_hash, CurriedProgram::to_clvm,
//!   and chia-consensus' private curry_and_treehash observed through the public
//!   fast_forward_singleton.
//! Oracle: vcore::model::treehash (sha2 crate, bottom-up over the arena; calls
//!   nothing under test) and tree-level construction of curried programs.
//!
//! Everything in this file that walks a tree is iterative (deep chains of
//! 50 000 pairs are generated); nothing recurses on tree depth.

use std::sync::OnceLock;

use chia_consensus::error::Error as FfError;
use chia_consensus::fast_forward::fast_forward_singleton;
use chia_protocol::{Bytes32, Coin};
use chia_puzzles::{SINGLETON_TOP_LAYER_V1_1, SINGLETON_TOP_LAYER_V1_1_HASH};
use clvm_traits::{clvm_curried_args, ClvmEncoder, ToClvm, ToClvmError};
use clvm_utils::{
    curry_tree_hash, tree_hash, tree_hash_atom, tree_hash_cached, tree_hash_from_bytes, tree_hash_pair,
    CurriedProgram, ToTreeHash, TreeCache, TreeHash, TreeHasher, PRECOMPUTED_HASHES,
};
use clvmr::allocator::{Allocator, NodePtr, NodeVisitor};
use clvmr::serde::{node_from_bytes, node_to_bytes_backrefs, node_to_bytes_limit};
use clvmr::Atom;
use vcore::engine::{self, CaseResult, Ctx, Property, Source, SubCheck, Tier};
use vcore::gentree::{self, gen_atom, gen_tree, BuildMode, TNode, Tid, Tree};
use vcore::model::treehash as mth;
use vcore::{vensure, vfail, Fnv, Src};

type H = [u8; 32];

/// plain (non-memoizing, non-back-referencing) routines are only run when the
/// *expanded* tree stays below this many nodes (they are exponential on DAGs
/// by design; that is not what the property is about)
const EXPANDED_LIMIT: u64 = 60_000;
/// ... and its plain serialisation below this many bytes
const SERIALIZED_LIMIT: u64 = 1_900_000;
/// clvmr's back-reference serialiser is only asked to serialise trees with at
/// most this many distinct pair nodes
const BACKREFS_MAX_PAIRS: u32 = 256;

fn hx(b: &[u8]) -> String {
    let mut s = String::with_capacity(b.len() * 2);
    for x in b {
        s.push_str(&format!("{x:02x}"));
    }
    if s.is_empty() {
        s.push_str("<empty>");
    }
    s
}

fn th(h: &TreeHash) -> H {
    h.to_bytes()
}

// --------------------------------------------------------------------------
// atom representations (superset of gentree's BuildMode.atoms)

/// 0 new_atom; 1 new_small_number where the bytes are a canonical small
/// number; 2 new_substr of a larger heap buffer; 3 new_concat (two halves; for
/// atoms shorter than 2 bytes the concat of an *empty heap atom* and the atom,
/// which is heap-backed too); 4 new_substr of a small-number node (an inline
/// small atom reached through another constructor) where possible
const N_ATOM_MODES: usize = 5;

fn canonical_small(b: &[u8]) -> Option<u32> {
    clvmr::allocator::fits_in_small_atom(b)
}

fn mk_atom(a: &mut Allocator, b: &[u8], mode: u8) -> NodePtr {
    match mode {
        1 => {
            if let Some(v) = canonical_small(b) {
                return a.new_small_number(v).expect("new_small_number");
            }
            a.new_atom(b).expect("new_atom")
        }
        2 => {
            let mut buf = Vec::with_capacity(b.len() + 7);
            buf.extend_from_slice(&[0x5a, 0xa5]);
            buf.extend_from_slice(b);
            buf.extend_from_slice(&[0x3c; 5]);
            let big = a.new_atom(&buf).expect("new_atom");
            a.new_substr(big, 2, 2 + b.len() as u32).expect("new_substr")
        }
        3 => {
            if b.len() >= 2 {
                let mid = b.len() / 2;
                let l = a.new_atom(&b[..mid]).expect("new_atom");
                let r = a.new_atom(&b[mid..]).expect("new_atom");
                a.new_concat(b.len(), &[l, r]).expect("new_concat")
            } else {
                let big = a.new_atom(&[0xa5; 6]).expect("new_atom");
                let empty_heap = a.new_substr(big, 3, 3).expect("new_substr");
                let x = a.new_atom(b).expect("new_atom");
                a.new_concat(b.len(), &[empty_heap, x]).expect("new_concat")
            }
        }
        4 => {
            if let Some(v) = canonical_small(b) {
                if b.len() <= 3 {
                    let w = (1u32 << (8 * b.len() as u32)) | v;
                    let wn = a.new_small_number(w).expect("new_small_number");
                    return a.new_substr(wn, 1, 1 + b.len() as u32).expect("new_substr");
                }
            }
            a.new_atom(b).expect("new_atom")
        }
        _ => a.new_atom(b).expect("new_atom"),
    }
}

// --------------------------------------------------------------------------
// incremental builder: one arena, one allocator, several roots; a node of an
// earlier tree that is reused by a later tree is the *same* NodePtr

/// what a build did (for labels)
#[derive(Default, Clone, Copy)]
struct BuildInfo {
    /// pairs of earlier builds that were linked into this one
    imported_pairs: u32,
    new_pairs: u32,
}

/// Build `root`. `map[id]` is the (first) NodePtr of arena node `id`.
/// share = true: every arena node is one allocator node. share = false: nodes
/// with id >= floor are built once per occurrence; nodes below `floor` that
/// were built before are linked (not copied).
fn build_inc(
    a: &mut Allocator,
    t: &Tree,
    root: Tid,
    share: bool,
    amode: u8,
    floor: Tid,
    map: &mut Vec<Option<NodePtr>>,
) -> (NodePtr, BuildInfo) {
    let mut info = BuildInfo::default();
    if map.len() < t.nodes.len() {
        map.resize(t.nodes.len(), None);
    }
    let share = share || t.expanded_size(root) > 20_000;
    if share {
        let n = root as usize + 1;
        let mut reach = vec![false; n];
        reach[root as usize] = true;
        for i in (0..n).rev() {
            if !reach[i] {
                continue;
            }
            if map[i].is_some() {
                if matches!(t.nodes[i], TNode::Pair(..)) {
                    info.imported_pairs += 1;
                }
                continue; // do not descend below an existing node
            }
            if let TNode::Pair(l, r) = &t.nodes[i] {
                reach[*l as usize] = true;
                reach[*r as usize] = true;
            }
        }
        for i in 0..n {
            if !reach[i] || map[i].is_some() {
                continue;
            }
            let node = match &t.nodes[i] {
                TNode::Atom(b) => mk_atom(a, b, amode),
                TNode::Pair(l, r) => {
                    info.new_pairs += 1;
                    a.new_pair(map[*l as usize].unwrap(), map[*r as usize].unwrap()).expect("new_pair")
                }
            };
            map[i] = Some(node);
        }
        (map[root as usize].unwrap(), info)
    } else {
        enum Op {
            Visit(Tid),
            Build(Tid),
        }
        let mut ops = vec![Op::Visit(root)];
        let mut vals: Vec<NodePtr> = vec![];
        while let Some(op) = ops.pop() {
            match op {
                Op::Visit(id) => {
                    if id < floor {
                        if let Some(n) = map[id as usize] {
                            if matches!(t.nodes[id as usize], TNode::Pair(..)) {
                                info.imported_pairs += 1;
                            }
                            vals.push(n);
                            continue;
                        }
                    }
                    match &t.nodes[id as usize] {
                        TNode::Atom(b) => {
                            let n = mk_atom(a, b, amode);
                            if map[id as usize].is_none() {
                                map[id as usize] = Some(n);
                            }
                            vals.push(n);
                        }
                        TNode::Pair(l, r) => {
                            ops.push(Op::Build(id));
                            ops.push(Op::Visit(*r));
                            ops.push(Op::Visit(*l));
                        }
                    }
                }
                Op::Build(id) => {
                    let r = vals.pop().unwrap();
                    let l = vals.pop().unwrap();
                    let n = a.new_pair(l, r).expect("new_pair");
                    info.new_pairs += 1;
                    if map[id as usize].is_none() {
                        map[id as usize] = Some(n);
                    }
                    vals.push(n);
                }
            }
        }
        (vals.pop().unwrap(), info)
    }
}

/// length of the plain serialisation of the expanded tree (saturating)
fn serialized_len(t: &Tree, root: Tid) -> u64 {
    let mut sz = vec![0u64; root as usize + 1];
    for i in 0..=root as usize {
        sz[i] = match &t.nodes[i] {
            TNode::Atom(b) => {
                let mut v = vec![];
                if b.len() < 64 {
                    gentree::write_atom(&mut v, b);
                    v.len() as u64
                } else {
                    b.len() as u64 + 6
                }
            }
            TNode::Pair(l, r) => 1u64.saturating_add(sz[*l as usize]).saturating_add(sz[*r as usize]),
        };
    }
    sz[root as usize]
}

/// extend `hashes` so that it covers every arena node (reference model)
fn extend_hashes(t: &Tree, hashes: &mut Vec<H>) {
    for i in hashes.len()..t.nodes.len() {
        let h = match &t.nodes[i] {
            TNode::Atom(b) => mth::hash_atom(b),
            TNode::Pair(l, r) => mth::hash_pair(&hashes[*l as usize], &hashes[*r as usize]),
        };
        hashes.push(h);
    }
}

// --------------------------------------------------------------------------
// observations on the allocator (all iterative)

#[derive(Default)]
struct Observed {
    /// a canonical small integer 0..23 (or the empty atom) stored as a heap buffer
    small_heap: bool,
    /// ... stored inline (NodeVisitor::U32)
    small_inline: bool,
    empty_heap: bool,
    /// some pair NodePtr is reached through more than one path
    pair_reached_twice: bool,
    /// pairs for which the cache holds a memoized hash
    memoized: u32,
    pairs: u32,
}

fn observe(a: &Allocator, root: NodePtr, cache: Option<&TreeCache>) -> Observed {
    let mut o = Observed::default();
    let mut seen = vec![0u8; a.pair_count() + 1];
    let mut stack = vec![root];
    while let Some(n) = stack.pop() {
        match a.node(n) {
            NodeVisitor::Buffer(b) => {
                if b.is_empty() {
                    o.empty_heap = true;
                    o.small_heap = true;
                } else if matches!(canonical_small(b), Some(v) if v < 24) {
                    o.small_heap = true;
                }
            }
            NodeVisitor::U32(v) => {
                if v < 24 {
                    o.small_inline = true;
                }
            }
            NodeVisitor::Pair(l, r) => {
                let i = n.index() as usize;
                if seen[i] == 0 {
                    seen[i] = 1;
                    o.pairs += 1;
                    if let Some(c) = cache {
                        if c.get(n).is_some() {
                            o.memoized += 1;
                        }
                    }
                    stack.push(l);
                    stack.push(r);
                } else {
                    o.pair_reached_twice = true;
                }
            }
        }
    }
    o
}

// --------------------------------------------------------------------------
// arena tree through any ClvmEncoder (TreeHasher in particular); bottom-up,
// shared nodes are encoded once, no recursion

struct TreeRef<'a> {
    t: &'a Tree,
    root: Tid,
}

impl<E: ClvmEncoder> ToClvm<E> for TreeRef<'_> {
    fn to_clvm(&self, e: &mut E) -> Result<E::Node, ToClvmError> {
        let n = self.root as usize + 1;
        let mut reach = vec![false; n];
        reach[self.root as usize] = true;
        for i in (0..n).rev() {
            if reach[i] {
                if let TNode::Pair(l, r) = &self.t.nodes[i] {
                    reach[*l as usize] = true;
                    reach[*r as usize] = true;
                }
            }
        }
        let mut out: Vec<Option<E::Node>> = Vec::with_capacity(n);
        for i in 0..n {
            if !reach[i] {
                out.push(None);
                continue;
            }
            let v = match &self.t.nodes[i] {
                TNode::Atom(b) => e.encode_atom(Atom::Borrowed(b))?,
                TNode::Pair(l, r) => {
                    let l = out[*l as usize].clone().unwrap();
                    let r = out[*r as usize].clone().unwrap();
                    e.encode_pair(l, r)?
                }
            };
            out.push(Some(v));
        }
        Ok(out[self.root as usize].take().unwrap())
    }
}

// --------------------------------------------------------------------------
// harness-side back-reference serialiser (linear time, any depth). clvmr's
// node_to_bytes_backrefs searches paths super-linearly, so it is only used on
// small trees; this one produces *valid but different* back-reference
// serialisations (references to the nearest instance on the parse stack, to
// atoms too if asked, only every `every`-th opportunity) for trees of any size.
//
// Format (clvmr de_br.rs): `fe <path atom>` refers into the stack of completed
// values seen as the list (top . (next . ...)); path bits from the least
// significant: 0 = first, 1 = rest, then a terminating 1 bit.

struct BrPolicy {
    atoms_too: bool,
    every: u32,
    max_path: usize,
}

/// None: the output would exceed 8 MB (a DAG whose repeats could not be referenced)
fn serialize_backrefs(t: &Tree, root: Tid, pol: &BrPolicy) -> Option<(Vec<u8>, u32)> {
    const NONE: u32 = u32::MAX;
    enum Op {
        Ser(Tid, u32, u8),
        Cons(Tid),
    }
    let n = root as usize + 1;
    // structural parent of the first full serialisation: t.nodes[par.0].side == node
    let mut par: Vec<(u32, u8)> = vec![(NONE, 0); n];
    let mut done = vec![false; n];
    let mut sidx: Vec<u32> = vec![NONE; n];
    let mut vstack: Vec<Tid> = vec![];
    let mut ops = vec![Op::Ser(root, NONE, 0)];
    let mut out: Vec<u8> = vec![];
    let mut opportunities = 0u32;
    let mut nrefs = 0u32;
    let mut steps_rev: Vec<u8> = vec![];
    // expanded serialised length of every node (saturating): repeats of big
    // sub-trees are always referenced, whatever the policy says
    let mut slen = vec![0u64; n];
    for i in 0..n {
        slen[i] = match &t.nodes[i] {
            TNode::Atom(b) => b.len() as u64 + 1,
            TNode::Pair(l, r) => 1u64.saturating_add(slen[*l as usize]).saturating_add(slen[*r as usize]),
        };
    }
    while let Some(op) = ops.pop() {
        if out.len() > (8 << 20) {
            return None;
        }
        match op {
            Op::Ser(x, parent, side) => {
                let xi = x as usize;
                let candidate = done[xi]
                    && match &t.nodes[xi] {
                        TNode::Pair(..) => true,
                        TNode::Atom(b) => pol.atoms_too && b.len() >= 2,
                    };
                if candidate {
                    opportunities += 1;
                    let forced = slen[xi] > 256;
                    let max_path = if forced { 1 << 20 } else { pol.max_path };
                    if forced || opportunities % pol.every == 0 {
                        // walk structural parents up to an instance that sits on the value stack
                        steps_rev.clear();
                        let mut cur = x;
                        let mut found: Option<usize> = None;
                        loop {
                            let si = sidx[cur as usize];
                            if si != NONE && (si as usize) < vstack.len() && vstack[si as usize] == cur {
                                found = Some(si as usize);
                                break;
                            }
                            let (p, sd) = par[cur as usize];
                            if p == NONE || steps_rev.len() >= max_path {
                                break;
                            }
                            steps_rev.push(sd);
                            cur = p;
                        }
                        if let Some(si) = found {
                            let k = vstack.len() - 1 - si;
                            let m = k + 1 + steps_rev.len();
                            if m <= max_path {
                                // bits: k x rest(1), first(0), inner steps, terminator(1)
                                let mut le = vec![0u8; m / 8 + 1];
                                let mut set = |i: usize| le[i / 8] |= 1 << (i % 8);
                                for i in 0..k {
                                    set(i);
                                }
                                for (j, sd) in steps_rev.iter().rev().enumerate() {
                                    if *sd == 1 {
                                        set(k + 1 + j);
                                    }
                                }
                                set(m);
                                le.reverse();
                                out.push(0xfe);
                                gentree::write_atom(&mut out, &le);
                                sidx[xi] = vstack.len() as u32;
                                vstack.push(x);
                                nrefs += 1;
                                continue;
                            }
                        }
                    }
                }
                if par[xi].0 == NONE {
                    par[xi] = (parent, side);
                }
                match &t.nodes[xi] {
                    TNode::Atom(b) => {
                        gentree::write_atom(&mut out, b);
                        done[xi] = true;
                        sidx[xi] = vstack.len() as u32;
                        vstack.push(x);
                    }
                    TNode::Pair(l, r) => {
                        out.push(0xff);
                        ops.push(Op::Cons(x));
                        ops.push(Op::Ser(*r, x, 1));
                        ops.push(Op::Ser(*l, x, 0));
                    }
                }
            }
            Op::Cons(x) => {
                vstack.pop();
                vstack.pop();
                done[x as usize] = true;
                sidx[x as usize] = vstack.len() as u32;
                vstack.push(x);
            }
        }
    }
    Some((out, nrefs))
}

// --------------------------------------------------------------------------
// the routines, each compared with the model hash

struct RoutineOpts {
    /// run the routines that cost the expanded size
    plain: bool,
    /// run clvmr's node_to_bytes_backrefs (an input producer, not under test;
    /// its path search is super-linear on large trees with repeated big atoms)
    backrefs: bool,
    /// the model's own plain serialisation (cross-checks clvmr's node_to_bytes)
    model_ser: Option<Vec<u8>>,
    /// a back-reference serialisation made by the harness' own serialiser
    own_backrefs: Option<Vec<u8>>,
}

/// returns (backrefs serialisation shorter than plain?, memoized pairs after the fresh-cache run)
fn check_all_routines(
    a: &Allocator,
    node: NodePtr,
    want: &H,
    opts: &RoutineOpts,
    what: &str,
) -> Result<(bool, u32), engine::Failure> {
    if opts.plain {
        let got = th(&tree_hash(a, node));
        vensure!(
            got == *want,
            "C17:tree_hash:differs-from-definition",
            "tree_hash({what}) = {}, definition gives {}",
            hx(&got),
            hx(want)
        );
    }
    // fresh cache, hashed twice through it (the second call finds the root seen twice)
    let mut cache = TreeCache::default();
    let got = th(&tree_hash_cached(a, node, &mut cache));
    vensure!(
        got == *want,
        "C17:tree_hash_cached:fresh-cache-differs",
        "tree_hash_cached({what}, fresh cache) = {}, definition gives {}",
        hx(&got),
        hx(want)
    );
    let memoized = observe(a, node, Some(&cache)).memoized;
    let got = th(&tree_hash_cached(a, node, &mut cache));
    vensure!(
        got == *want,
        "C17:tree_hash_cached:second-call-same-cache-differs",
        "second tree_hash_cached({what}) through the same cache = {}, definition gives {}",
        hx(&got),
        hx(want)
    );
    // pre-pass first (run_block_generator2 order), then hash
    let mut cache = TreeCache::default();
    cache.visit_tree(a, node);
    let got = th(&tree_hash_cached(a, node, &mut cache));
    vensure!(
        got == *want,
        "C17:tree_hash_cached:after-visit_tree-differs",
        "visit_tree then tree_hash_cached({what}) = {}, definition gives {}",
        hx(&got),
        hx(want)
    );
    // serialisations
    let mut plain_len = None;
    if opts.plain {
        let ser = node_to_bytes_limit(a, node, 1 << 30).expect("node_to_bytes");
        plain_len = Some(ser.len());
        if let Some(ms) = &opts.model_ser {
            // harness-side sanity (both are serialisers outside clvm-utils)
            assert!(*ms == ser, "harness: model serialisation differs from clvmr node_to_bytes");
        }
        match tree_hash_from_bytes(&ser) {
            Ok(h) => vensure!(
                th(&h) == *want,
                "C17:tree_hash_from_bytes:plain-serialization-differs",
                "tree_hash_from_bytes(node_to_bytes({what})) = {}, definition gives {}",
                hx(&th(&h)),
                hx(want)
            ),
            Err(e) => vfail!(
                "C17:tree_hash_from_bytes:plain-serialization-rejected",
                "tree_hash_from_bytes rejected node_to_bytes({what}): {e:?}"
            ),
        }
    }
    if let Some(ob) = &opts.own_backrefs {
        match tree_hash_from_bytes(ob) {
            Ok(h) => vensure!(
                th(&h) == *want,
                "C17:tree_hash_from_bytes:backrefs-serialization-differs",
                "tree_hash_from_bytes(back-reference serialisation of {what} made by the harness, {} bytes) = {}, definition gives {}",
                ob.len(),
                hx(&th(&h)),
                hx(want)
            ),
            Err(e) => vfail!(
                "C17:tree_hash_from_bytes:backrefs-serialization-rejected",
                "tree_hash_from_bytes rejected the harness' back-reference serialisation of {what}: {e:?}"
            ),
        }
    }
    if !opts.backrefs {
        return Ok((false, memoized));
    }
    let serb = node_to_bytes_backrefs(a, node).expect("node_to_bytes_backrefs");
    match tree_hash_from_bytes(&serb) {
        Ok(h) => vensure!(
            th(&h) == *want,
            "C17:tree_hash_from_bytes:backrefs-serialization-differs",
            "tree_hash_from_bytes(node_to_bytes_backrefs({what})) = {}, definition gives {}",
            hx(&th(&h)),
            hx(want)
        ),
        Err(e) => vfail!(
            "C17:tree_hash_from_bytes:backrefs-serialization-rejected",
            "tree_hash_from_bytes rejected node_to_bytes_backrefs({what}): {e:?}"
        ),
    }
    let shorter = match plain_len {
        Some(p) => serb.len() < p,
        None => true,
    };
    Ok((shorter, memoized))
}

// --------------------------------------------------------------------------
// sub-check 1: small atoms, enumerated

fn small_values() -> Vec<Vec<u8>> {
    let mut v: Vec<Vec<u8>> = vec![vec![]];
    for i in 1..=25u8 {
        v.push(vec![i]);
    }
    for extra in [
        &[0x7f][..],
        &[0x80],
        &[0xff],
        &[0x00],
        &[0x00, 0x00],
        &[0x00, 0x05],
        &[0x00, 0x17],
        &[0x00, 0x18],
        &[0x00, 0x80],
        &[0x00, 0x00, 0x05],
        &[0x01, 0x00],
        &[0x17, 0x00],
        &[0x7f, 0xff],
        &[0x03, 0xff, 0xff, 0xff],
        &[0x04, 0x00, 0x00, 0x00],
        &[0x00, 0x00, 0x00, 0x00, 0x17],
        &[0x17; 32],
    ] {
        v.push(extra.to_vec());
    }
    v
}

fn enum_small(_tier: Tier, shard: usize, n: usize, emit: &mut dyn FnMut(&[u8]) -> bool) {
    let nv = small_values().len();
    let mut idx = 0usize;
    for vi in 0..nv {
        for mode in 0..N_ATOM_MODES {
            let mine = idx % n == shard;
            idx += 1;
            if mine && !emit(&[vi as u8, mode as u8]) {
                return;
            }
        }
    }
}

/// bytes = [index into small_values(), atom representation mode]
pub fn case_small(bytes: &[u8], ctx: &mut Ctx) -> CaseResult {
    let vals = small_values();
    let vi = usize::from(*bytes.first().unwrap_or(&0)).min(vals.len() - 1);
    let mode = (*bytes.get(1).unwrap_or(&0)).min(N_ATOM_MODES as u8 - 1);
    let b = vals[vi].clone();
    let other = vals[(vi + 1) % 24].clone();

    ctx.render(|| {
        format!(
            "atom {} built with representation {mode} (0 new_atom, 1 new_small_number, 2 substr of heap buffer, 3 concat, 4 substr of small number), alone and inside 8 pair/list/DAG contexts, shared and expanded",
            hx(&b)
        )
    });
    // the constants themselves, against the definition
    let want_atom = mth::hash_atom(&b);
    let small = canonical_small(&b).filter(|v| *v < 24);
    if let Some(v) = small {
        vensure!(
            th(&PRECOMPUTED_HASHES[v as usize]) == want_atom,
            "C17:PRECOMPUTED_HASHES:wrong-constant",
            "PRECOMPUTED_HASHES[{v}] = {}, sha256(01 ‖ {}) = {}",
            hx(&th(&PRECOMPUTED_HASHES[v as usize])),
            hx(&b),
            hx(&want_atom)
        );
    }
    vensure!(
        th(&tree_hash_atom(&b)) == want_atom,
        "C17:tree_hash_atom:differs-from-definition",
        "tree_hash_atom({}) = {}, definition gives {}",
        hx(&b),
        hx(&th(&tree_hash_atom(&b))),
        hx(&want_atom)
    );

    // contexts, all in one arena
    let mut t = Tree::new();
    let x = t.atom(&b);
    let y = t.atom(&other);
    let nil = t.nil();
    let xx = t.pair(x, x);
    let xn = t.pair(x, nil);
    let nx = t.pair(nil, x);
    let xy = t.pair(x, y);
    let yx = t.pair(y, x);
    let dag = t.pair(xx, xx);
    let lst = t.list(&[x, y, x, xy, x]);
    let mix = t.pair(dag, lst);
    let roots = [x, xx, xn, nx, xy, yx, dag, lst, mix];
    let mut hashes = vec![];
    extend_hashes(&t, &mut hashes);
    vensure!(
        th(&tree_hash_pair(TreeHash::new(hashes[x as usize]), TreeHash::new(hashes[y as usize]))) == hashes[xy as usize],
        "C17:tree_hash_pair:differs-from-definition",
        "tree_hash_pair(h({}), h({}))",
        hx(&b),
        hx(&other)
    );

    let mut obs_inline = false;
    let mut obs_heap = false;
    for share in [true, false] {
        let mut a = Allocator::new();
        let mut map = vec![];
        // one cache shared by all contexts, in order
        let mut shared = TreeCache::default();
        for (ri, r) in roots.iter().enumerate() {
            // floor = 0: nothing is linked in expanded mode, every context is built afresh
            let (node, _) = if share {
                build_inc(&mut a, &t, *r, true, mode, 0, &mut map)
            } else {
                build_inc(&mut a, &t, *r, false, mode, 0, &mut map)
            };
            let what = format!("context #{ri} of atom {} (repr {mode}, share {share})", hx(&b));
            let opts = RoutineOpts {
                plain: true,
                backrefs: true,
                model_ser: Some(t.serialize(*r)),
                own_backrefs: serialize_backrefs(&t, *r, &BrPolicy { atoms_too: share, every: 1, max_path: 4096 }).map(|x| x.0),
            };
            check_all_routines(&a, node, &hashes[*r as usize], &opts, &what)?;
            let got = th(&tree_hash_cached(&a, node, &mut shared));
            vensure!(
                got == hashes[*r as usize],
                "C17:tree_hash_cached:shared-cache-differs",
                "tree_hash_cached({what}) through a cache shared with the previous contexts = {}, definition gives {}",
                hx(&got),
                hx(&hashes[*r as usize])
            );
            let got = th(&TreeRef { t: &t, root: *r }.tree_hash());
            vensure!(
                got == hashes[*r as usize],
                "C17:TreeHasher:differs-from-definition",
                "TreeHasher encoding of {what} = {}, definition gives {}",
                hx(&got),
                hx(&hashes[*r as usize])
            );
            if ri == 0 {
                match a.node(node) {
                    NodeVisitor::U32(_) => obs_inline = true,
                    NodeVisitor::Buffer(_) => obs_heap = true,
                    NodeVisitor::Pair(..) => unreachable!(),
                }
            }
        }
    }
    let class = if b.is_empty() {
        "empty"
    } else if small.is_some() {
        "small<24"
    } else {
        "neighbour"
    };
    if obs_inline {
        ctx.label(format!("{class}:inline(U32)"));
    }
    if obs_heap {
        ctx.label(format!("{class}:heap(Buffer)"));
    }
    ctx.label(format!("atom-repr:{mode}"));
    ctx.add_inner((roots.len() * 2) as u64);
    if small.is_some() || obs_heap {
        let mut f = Fnv::new();
        f.write(&b).write(&[0xff, mode]);
        ctx.nontrivial(f.finish());
    }
    Ok(())
}

// --------------------------------------------------------------------------
// sub-check 2: single trees of many shapes

fn pick_recent(s: &mut Src<'_>, pool: &[Tid]) -> Tid {
    if s.bool() {
        let k = pool.len();
        let back = s.below(3.min(k));
        pool[k - 1 - back]
    } else {
        pool[s.below(pool.len())]
    }
}

fn gen_chain(s: &mut Src<'_>, t: &mut Tree) -> (Tid, usize) {
    let depth = match s.weighted(&[75, 23, 2]) {
        0 => s.range(1, 64),
        1 => s.range(65, 2000),
        _ => match s.below(3) {
            0 => s.range(2001, 9_999),
            1 => s.range(10_000, 25_000),
            _ => s.range(25_001, 50_000),
        },
    };
    let npool = s.range(1, 4);
    let mut pool = vec![];
    for _ in 0..npool {
        let b = gen_atom(s);
        pool.push(t.atom(&b));
    }
    // 0: right chain (list-like), 1: left chain, 2: by pattern, 3: by pattern with doubling (cur . cur)
    let side = s.below(4);
    let pat = s.u32();
    let off = s.below(8);
    let mut cur = if s.bool() { gen_tree(s, t, 8) } else { pool[0] };
    let mut doublings = 0;
    for i in 0..depth {
        let leaf = pool[(i + off) % npool];
        let bit = (pat >> (i % 32)) & 1 == 1;
        cur = match side {
            0 => t.pair(leaf, cur),
            1 => t.pair(cur, leaf),
            2 => {
                if bit {
                    t.pair(leaf, cur)
                } else {
                    t.pair(cur, leaf)
                }
            }
            _ => {
                if bit && i % 5 == 0 && doublings < 48 {
                    doublings += 1;
                    t.pair(cur, cur)
                } else if bit {
                    t.pair(leaf, cur)
                } else {
                    t.pair(cur, leaf)
                }
            }
        };
    }
    (cur, depth)
}

fn gen_wide(s: &mut Src<'_>, t: &mut Tree) -> (Tid, usize) {
    let n = match s.weighted(&[75, 23, 2]) {
        0 => s.range(1, 50),
        1 => s.range(51, 2000),
        _ => s.range(2001, 20_000),
    };
    let npool = s.range(1, 5);
    let mut pool = vec![];
    for _ in 0..npool {
        let budget = s.range(1, 12);
        pool.push(gen_tree(s, t, budget));
    }
    let pat = s.u32();
    let mut items = Vec::with_capacity(n);
    for i in 0..n {
        let k = ((pat >> (i % 29)) as usize + i) % npool;
        items.push(pool[k]);
    }
    let tail = if s.chance(64) {
        let b = gen_atom(s);
        t.atom(&b)
    } else {
        t.nil()
    };
    (t.list_with_tail(&items, tail), n)
}

fn gen_dag(s: &mut Src<'_>, t: &mut Tree) -> (Tid, usize) {
    let levels = match s.weighted(&[60, 35, 5]) {
        0 => s.range(2, 14),
        1 => s.range(15, 60),
        _ => s.range(61, 400),
    };
    let width = s.range(1, 3);
    let mut prev: Vec<Tid> = vec![];
    for _ in 0..=width {
        let b = gen_atom(s);
        prev.push(t.atom(&b));
    }
    let mut prev2: Vec<Tid> = prev.clone();
    for _ in 0..levels {
        let mut cur = vec![];
        for _ in 0..width {
            let from = |s: &mut Src<'_>, prev: &Vec<Tid>, prev2: &Vec<Tid>| -> Tid {
                if s.chance(48) {
                    prev2[s.below(prev2.len())]
                } else {
                    prev[s.below(prev.len())]
                }
            };
            let l = from(s, &prev, &prev2);
            let r = from(s, &prev, &prev2);
            cur.push(t.pair(l, r));
        }
        prev2 = prev;
        prev = cur;
    }
    let mut root = prev[0];
    for x in &prev[1..] {
        root = t.pair(root, *x);
    }
    (root, levels)
}

fn gen_combo(s: &mut Src<'_>, t: &mut Tree) -> (Tid, usize) {
    let k = s.range(2, 6);
    let mut subs = vec![];
    for _ in 0..k {
        if !subs.is_empty() && s.chance(80) {
            let d = subs[s.below(subs.len())];
            subs.push(d);
        } else {
            let budget = s.range(2, 60);
            subs.push(gen_tree(s, t, budget));
        }
    }
    (t.list(&subs), k)
}

pub fn case_tree(bytes: &[u8], ctx: &mut Ctx) -> CaseResult {
    let mut s = Src::new(bytes);
    let mut t = Tree::new();
    let shape = s.weighted(&[8, 3, 2, 3, 2]);
    let (root, param) = match shape {
        0 => {
            let budget = match s.weighted(&[4, 4, 2, 1]) {
                0 => 8,
                1 => 40,
                2 => 150,
                _ => 600,
            };
            (gen_tree(&mut s, &mut t, budget), budget)
        }
        1 => gen_chain(&mut s, &mut t),
        2 => gen_wide(&mut s, &mut t),
        3 => gen_dag(&mut s, &mut t),
        _ => gen_combo(&mut s, &mut t),
    };
    let shape_name = ["random", "chain", "wide", "dag", "combo"][shape];
    let own_builder = s.below(3) == 2;
    let mut mode = BuildMode::from_src(&mut s);
    let amode_own = s.below(N_ATOM_MODES) as u8;
    let junk = s.below(4);
    let pol = BrPolicy {
        atoms_too: s.bool(),
        every: 1 + s.below(3) as u32,
        max_path: [2048usize, 128, 16][s.below(3)],
    };
    let want = mth::tree_hash(&t, root);
    let expanded = t.expanded_size(root);
    let plain = expanded <= EXPANDED_LIMIT && serialized_len(&t, root) <= SERIALIZED_LIMIT;

    let mut a = Allocator::new();
    // unrelated allocations first, so that pair indices do not start at 0
    for i in 0..junk {
        let x = a.new_atom(&[0xee, i as u8, 0x01]).unwrap();
        let n = a.nil();
        a.new_pair(x, n).unwrap();
    }
    // expanded (one node per occurrence) builds only up to 20 000 nodes
    if expanded > 20_000 {
        mode.share = true;
    }
    let share_eff = mode.share;
    let (node, amode) = if own_builder {
        let mut map = vec![];
        let (n, _) = build_inc(&mut a, &t, root, mode.share, amode_own, 0, &mut map);
        (n, amode_own)
    } else {
        (gentree::build(&mut a, &t, root, mode), mode.atoms)
    };
    let o = observe(&a, node, None);
    ctx.render(|| {
        format!(
            "shape {shape_name}({param}), {} pairs in allocator, {} build, atoms mode {}{amode}, {junk} junk pairs first, expanded size {expanded}: {}",
            o.pairs,
            if share_eff { "shared" } else { "expanded" },
            if own_builder { "own" } else { "gentree" },
            t.render(root)
        )
    });
    let backrefs = o.pairs <= BACKREFS_MAX_PAIRS;
    let model_ser = if plain { Some(t.serialize(root)) } else { None };
    let (own_br, own_refs) = match serialize_backrefs(&t, root, &pol) {
        Some((b, r)) => (Some(b), r),
        None => (None, 0),
    };
    if let Some(own_br) = &own_br {
        // harness-side sanity of the harness' own back-reference serialiser
        // (nothing of clvm-utils involved): clvmr's deserialiser must read it
        // back as a tree whose hash by clvmr's own ObjectCache/treehash is the
        // definition's. A failure here is a harness bug, not a finding.
        if own_refs > 0 && (t.nodes.len() <= 300 || s.chance(16)) {
            let mut a2 = Allocator::new();
            let n2 = clvmr::serde::node_from_bytes_backrefs(&mut a2, own_br)
                .expect("harness: own back-reference serialisation does not parse");
            let mut oc = clvmr::serde::ObjectCache::new(clvmr::serde::treehash);
            let h2 = oc.get_or_calculate(&a2, &n2, None).expect("clvmr treehash");
            assert!(h2[..] == want[..], "harness: own back-reference serialisation decodes to a different tree");
        }
    }
    let opts = RoutineOpts {
        plain,
        backrefs,
        model_ser,
        own_backrefs: own_br,
    };
    let (br_shorter, memoized) = check_all_routines(&a, node, &want, &opts, "tree")?;
    // the TreeHasher encoder, and the Allocator encoder as one more way of building
    let got = th(&TreeRef { t: &t, root }.tree_hash());
    vensure!(
        got == want,
        "C17:TreeHasher:differs-from-definition",
        "TreeHasher encoding of the tree = {}, definition gives {}",
        hx(&got),
        hx(&want)
    );
    if s.chance(64) {
        let n2 = TreeRef { t: &t, root }.to_clvm(&mut a).expect("to_clvm");
        let mut c = TreeCache::default();
        let got = th(&tree_hash_cached(&a, n2, &mut c));
        vensure!(
            got == want,
            "C17:tree_hash_cached:fresh-cache-differs",
            "tree_hash_cached of the tree encoded through ToClvm<Allocator> = {}, definition gives {}",
            hx(&got),
            hx(&want)
        );
    }
    ctx.label(format!("shape:{shape_name}"));
    ctx.label(if share_eff { "build:shared" } else { "build:expanded" });
    ctx.label(format!("atoms:{}{amode}", if own_builder { "own" } else { "gentree" }));
    if o.pair_reached_twice {
        ctx.label("memo-path:pair-reached-twice");
    }
    if memoized > 0 {
        ctx.label("memo-populated");
    }
    if o.small_heap {
        ctx.label("small-atom:heap");
    }
    if o.small_inline {
        ctx.label("small-atom:inline");
    }
    if o.empty_heap {
        ctx.label("empty-atom:heap");
    }
    if !plain {
        ctx.label("plain-routines-skipped(expanded>60k)");
    }
    if plain && backrefs && br_shorter {
        ctx.label("backrefs-used");
    }
    if !backrefs {
        ctx.label("clvmr-backrefs-skipped(pairs>256)");
    }
    if own_refs > 0 {
        ctx.label("own-backrefs-used");
        if o.pairs > 10_000 {
            ctx.label("own-backrefs-used:pairs>10000");
        }
    }
    if shape == 1 && param >= 10_000 {
        ctx.label("chain>=10000");
    }
    if shape == 2 && param >= 2_000 {
        ctx.label("list>=2000");
    }
    if shape == 3 && param > 60 {
        ctx.label("dag>60-levels");
    }
    if o.pair_reached_twice || o.small_heap {
        let mut f = Fnv::new();
        f.write(&want).write(&[shape as u8, u8::from(share_eff), amode, u8::from(own_builder)]);
        ctx.nontrivial(f.finish());
    }
    ctx.ran_dry(s.ran_dry());
    Ok(())
}

// --------------------------------------------------------------------------
// sub-check 3: histories through one TreeCache

struct Hist {
    a: Allocator,
    t: Tree,
    map: Vec<Option<NodePtr>>,
    hashes: Vec<H>,
    cache: TreeCache,
    /// roots of the trees built so far (arena ids)
    roots: Vec<Tid>,
    /// nodes (roots and inner nodes) that later trees may link and that may be hashed on their own
    exported: Vec<Tid>,
    fp: Fnv,
    log: Vec<String>,
    want_log: bool,
    // counters for labels
    hashed_roots: Vec<Tid>,
    cross_tree_links: u32,
    memo_hits_seen: u32,
    junk_ops: u32,
    visits: u32,
    same_root_again: u32,
}

impl Hist {
    fn gen_and_build(&mut self, s: &mut Src<'_>) {
        let floor = self.t.nodes.len() as Tid;
        let mut candidates: Vec<Tid> = vec![];
        let kind = if self.exported.is_empty() { 0 } else { s.weighted(&[6, 2, 2, 1]) };
        let root = match kind {
            1 => {
                // the very same puzzle again (same NodePtr)
                self.same_root_again += 1;
                self.roots[s.below(self.roots.len())]
            }
            2 => {
                let imp = self.exported[s.below(self.exported.len())];
                if s.bool() {
                    let imp2 = self.exported[s.below(self.exported.len())];
                    self.t.pair(imp, imp2)
                } else {
                    let b = gen_atom(s);
                    let at = self.t.atom(&b);
                    if s.bool() {
                        self.t.pair(imp, at)
                    } else {
                        self.t.pair(at, imp)
                    }
                }
            }
            3 => {
                // structurally equal copy of an earlier node out of fresh arena nodes
                let src = self.exported[s.below(self.exported.len())];
                let n = src as usize + 1;
                let mut reach = vec![false; n];
                reach[src as usize] = true;
                for i in (0..n).rev() {
                    if reach[i] {
                        if let TNode::Pair(l, r) = &self.t.nodes[i] {
                            reach[*l as usize] = true;
                            reach[*r as usize] = true;
                        }
                    }
                }
                let mut copy: Vec<Tid> = vec![0; n];
                for i in 0..n {
                    if reach[i] {
                        copy[i] = match self.t.nodes[i].clone() {
                            TNode::Atom(b) => self.t.atom(&b),
                            TNode::Pair(l, r) => self.t.pair(copy[l as usize], copy[r as usize]),
                        };
                    }
                }
                copy[src as usize]
            }
            _ => {
                let budget = match s.weighted(&[4, 4, 2]) {
                    0 => 6,
                    1 => 20,
                    _ => 60,
                };
                let mut pool: Vec<Tid> = vec![];
                let n_atoms = s.range(1, 4);
                for _ in 0..n_atoms {
                    let b = gen_atom(s);
                    pool.push(self.t.atom(&b));
                }
                if !self.exported.is_empty() {
                    let n_imp = s.below(4);
                    for _ in 0..n_imp {
                        let imp = self.exported[s.below(self.exported.len())];
                        pool.push(imp);
                    }
                }
                let steps = s.below(budget);
                for _ in 0..steps {
                    let (l, r) = if s.chance(40) {
                        let b = gen_atom(s);
                        let at = self.t.atom(&b);
                        if s.bool() {
                            (at, pick_recent(s, &pool))
                        } else {
                            (pick_recent(s, &pool), at)
                        }
                    } else {
                        (pick_recent(s, &pool), pick_recent(s, &pool))
                    };
                    let p = self.t.pair(l, r);
                    pool.push(p);
                }
                let root = *pool.last().unwrap();
                // up to two inner nodes are exported too (if the root reaches them)
                for _ in 0..s.below(3) {
                    let x = pool[s.below(pool.len())];
                    if x >= floor {
                        candidates.push(x);
                    }
                }
                root
            }
        };
        let share = s.below(4) != 1;
        let amode = s.below(N_ATOM_MODES) as u8;
        extend_hashes(&self.t, &mut self.hashes);
        let (_, info) = build_inc(&mut self.a, &self.t, root, share, amode, floor, &mut self.map);
        if self.map[root as usize].is_none() {
            unreachable!("harness: root not mapped");
        }
        self.cross_tree_links += info.imported_pairs;
        self.roots.push(root);
        self.exported.push(root);
        for c in candidates {
            if self.map[c as usize].is_some() {
                self.exported.push(c);
            }
        }
        self.fp.write(&[1, u8::from(share), amode]).write(&self.hashes[root as usize]);
        if self.want_log {
            self.log.push(format!(
                "build T{} = {} [{} new pairs, {} linked from earlier trees, {}, atoms {amode}]",
                self.roots.len() - 1,
                self.t.render(root),
                info.new_pairs,
                info.imported_pairs,
                if share { "shared" } else { "expanded" }
            ));
        }
    }

    fn junk(&mut self, s: &mut Src<'_>) {
        let n = s.range(1, 12);
        let mut last = self.a.nil();
        for i in 0..n {
            match s.below(3) {
                0 => {
                    last = self.a.new_atom(&[0xd0, i as u8, s.u8()]).unwrap();
                }
                1 => {
                    let x = self.a.new_small_number(s.below(40) as u32).unwrap();
                    last = self.a.new_pair(x, last).unwrap();
                }
                _ => {
                    // a pair that points into an existing tree but belongs to none
                    let e = if self.exported.is_empty() {
                        self.a.nil()
                    } else {
                        self.map[self.exported[s.below(self.exported.len())] as usize].unwrap()
                    };
                    last = self.a.new_pair(e, last).unwrap();
                }
            }
        }
        self.junk_ops += 1;
        self.fp.write(&[2, n as u8]);
        if self.want_log {
            self.log.push(format!("{n} unrelated allocations"));
        }
    }

    fn name(&self, id: Tid) -> String {
        match self.roots.iter().position(|r| *r == id) {
            Some(i) => format!("T{i}"),
            None => format!("inner node {}", self.t.render(id)),
        }
    }

    fn visit(&mut self, id: Tid) {
        let n = self.map[id as usize].unwrap();
        self.cache.visit_tree(&self.a, n);
        self.visits += 1;
        self.fp.write(&[3]).write(&self.hashes[id as usize]);
        if self.want_log {
            self.log.push(format!("cache.visit_tree({})", self.name(id)));
        }
    }

    fn hash(&mut self, id: Tid) -> CaseResult {
        let n = self.map[id as usize].unwrap();
        if observe(&self.a, n, Some(&self.cache)).memoized > 0 {
            self.memo_hits_seen += 1;
        }
        if self.want_log {
            self.log.push(format!("tree_hash_cached({})", self.name(id)));
        }
        let got = th(&tree_hash_cached(&self.a, n, &mut self.cache));
        let want = self.hashes[id as usize];
        vensure!(
            got == want,
            "C17:tree_hash_cached:history-dependent-result",
            "tree_hash_cached({}) through the shared cache = {}, definition gives {} (step {} of the history)",
            self.name(id),
            hx(&got),
            hx(&want),
            self.log.len()
        );
        if !self.hashed_roots.contains(&id) {
            self.hashed_roots.push(id);
        }
        self.fp.write(&[4]).write(&want);
        Ok(())
    }
}

pub fn case_history(bytes: &[u8], ctx: &mut Ctx) -> CaseResult {
    let mut s = Src::new(bytes);
    let k = 1 + s.below(8);
    let style = s.below(3);
    let prepass = s.bool();
    let mut h = Hist {
        a: Allocator::new(),
        t: Tree::new(),
        map: vec![],
        hashes: vec![],
        cache: TreeCache::default(),
        roots: vec![],
        exported: vec![],
        fp: Fnv::new(),
        log: vec![],
        want_log: ctx.want_render(),
        hashed_roots: vec![],
        cross_tree_links: 0,
        memo_hits_seen: 0,
        junk_ops: 0,
        visits: 0,
        same_root_again: 0,
    };
    h.fp.write(&[style as u8, u8::from(prepass)]);
    // run the body; the rendering is produced even when it fails
    let r = history_body(&mut s, &mut h, k, style, prepass);
    let style_name = ["block", "interleaved", "free-form"][style];
    ctx.render(|| {
        format!(
            "history ({style_name}, {} trees, pre-pass {}): {}",
            h.roots.len(),
            if style == 2 { "n/a".to_string() } else { prepass.to_string() },
            h.log.join("; ")
        )
    });
    r?;
    // number of distinct nodes (roots and, in free-form histories, inner nodes) hashed through the one cache
    ctx.label(match h.hashed_roots.len() {
        n @ 0..=8 => format!("history-len:{n}"),
        _ => "history-len:9+".to_string(),
    });
    ctx.label(format!("style:{style_name}"));
    if style != 2 {
        ctx.label(if prepass { "prepass:visit_tree-all-first" } else { "prepass:none" });
    }
    if h.cross_tree_links > 0 {
        ctx.label("later-tree-links-earlier-pairs");
    }
    if h.memo_hits_seen > 0 {
        ctx.label("memo-hit:cache-already-holds-subtree");
    }
    if h.junk_ops > 0 {
        ctx.label("unrelated-allocations-interleaved");
    }
    if h.same_root_again > 0 {
        ctx.label("same-puzzle-node-again");
    }
    if h.hashed_roots.len() >= 2 {
        ctx.nontrivial(h.fp.finish());
    }
    ctx.ran_dry(s.ran_dry());
    Ok(())
}

fn history_body(s: &mut Src<'_>, h: &mut Hist, k: usize, style: usize, prepass: bool) -> CaseResult {
    match style {
        0 => {
            // as run_block_generator2: all puzzles exist, visit_tree over all, then hash each
            for _ in 0..k {
                h.gen_and_build(s);
                if s.chance(40) {
                    h.junk(s);
                }
            }
            if prepass {
                for i in 0..k {
                    let r = h.roots[i];
                    h.visit(r);
                }
            }
            let reverse = s.chance(48);
            for i in 0..k {
                if s.chance(96) {
                    h.junk(s); // run_program allocates between the hashes
                }
                let r = h.roots[if reverse { k - 1 - i } else { i }];
                h.hash(r)?;
            }
        }
        1 => {
            for i in 0..k {
                h.gen_and_build(s);
                if s.chance(64) {
                    h.junk(s);
                }
                if prepass {
                    let r = h.roots[i];
                    h.visit(r);
                }
                let r = h.roots[i];
                h.hash(r)?;
                if s.chance(48) {
                    let r = h.roots[s.below(i + 1)];
                    h.hash(r)?;
                }
            }
        }
        _ => {
            h.gen_and_build(s);
            let nops = s.range(k, 30);
            for _ in 0..nops {
                match s.weighted(&[4, 3, 2, 2, 1]) {
                    0 => {
                        let r = h.roots[s.below(h.roots.len())];
                        h.hash(r)?;
                    }
                    1 => {
                        if h.roots.len() < k {
                            h.gen_and_build(s);
                        } else {
                            let r = h.roots[s.below(h.roots.len())];
                            h.hash(r)?;
                        }
                    }
                    2 => {
                        let r = h.exported[s.below(h.exported.len())];
                        h.visit(r);
                    }
                    3 => {
                        // an inner node on its own
                        let r = h.exported[s.below(h.exported.len())];
                        h.hash(r)?;
                    }
                    _ => h.junk(s),
                }
            }
        }
    }
    // epilogue: every root once more through the shared cache, then through
    // the history-free routines
    for i in 0..h.roots.len() {
        let r = h.roots[i];
        h.hash(r)?;
    }
    for i in 0..h.roots.len() {
        let r = h.roots[i];
        let n = h.map[r as usize].unwrap();
        let want = h.hashes[r as usize];
        if h.t.expanded_size(r) <= EXPANDED_LIMIT {
            let got = th(&tree_hash(&h.a, n));
            vensure!(
                got == want,
                "C17:tree_hash:differs-from-definition",
                "tree_hash(T{i}) = {}, definition gives {}",
                hx(&got),
                hx(&want)
            );
        }
        let mut c = TreeCache::default();
        let got = th(&tree_hash_cached(&h.a, n, &mut c));
        vensure!(
            got == want,
            "C17:tree_hash_cached:fresh-cache-differs",
            "tree_hash_cached(T{i}, fresh cache) = {}, definition gives {}",
            hx(&got),
            hx(&want)
        );
    }
    Ok(())
}

// --------------------------------------------------------------------------
// sub-check 4: curried programs

fn curried<E: ClvmEncoder>(enc: &mut E, p: E::Node, v: &[E::Node]) -> E::Node {
    macro_rules! go {
        ($($i:expr),*) => {
            CurriedProgram { program: p.clone(), args: clvm_curried_args!($( v[$i].clone() ),*) }.to_clvm(enc)
        };
    }
    let r = match v.len() {
        0 => go!(),
        1 => go!(0),
        2 => go!(0, 1),
        3 => go!(0, 1, 2),
        4 => go!(0, 1, 2, 3),
        5 => go!(0, 1, 2, 3, 4),
        6 => go!(0, 1, 2, 3, 4, 5),
        7 => go!(0, 1, 2, 3, 4, 5, 6),
        8 => go!(0, 1, 2, 3, 4, 5, 6, 7),
        _ => unreachable!(),
    };
    r.expect("CurriedProgram::to_clvm")
}

pub fn case_curry(bytes: &[u8], ctx: &mut Ctx) -> CaseResult {
    let mut s = Src::new(bytes);
    let nargs = s.below(9);
    let mut t = Tree::new();
    let pb = match s.weighted(&[2, 4, 2]) {
        0 => 1,
        1 => 12,
        _ => 40,
    };
    let p = gen_tree(&mut s, &mut t, pb);
    let mut args: Vec<Tid> = vec![];
    for _ in 0..nargs {
        if !args.is_empty() && s.chance(40) {
            // the same argument (node) twice
            let d = args[s.below(args.len())];
            args.push(d);
        } else if s.chance(24) {
            args.push(p);
        } else {
            let b = s.range(1, 10);
            args.push(gen_tree(&mut s, &mut t, b));
        }
    }
    let share = s.below(4) != 1;
    let amode = s.below(N_ATOM_MODES) as u8;
    let cur = mth::curry(&mut t, p, &args);
    let mut hashes = vec![];
    extend_hashes(&t, &mut hashes);
    let want = hashes[cur as usize];

    ctx.render(|| {
        format!(
            "curry p = {} with {nargs} args [{}] ({} build, atoms {amode})",
            t.render(p),
            args.iter().map(|x| t.render(*x)).collect::<Vec<_>>().join(", "),
            if share { "shared" } else { "expanded" }
        )
    });

    // 1. from hashes alone (model hashes as input)
    let ph = TreeHash::new(hashes[p as usize]);
    let ahs: Vec<TreeHash> = args.iter().map(|x| TreeHash::new(hashes[*x as usize])).collect();
    let got = th(&curry_tree_hash(ph, &ahs));
    vensure!(
        got == want,
        "C17:curry_tree_hash:differs-from-actual-curried-program",
        "curry_tree_hash(hash(p), {nargs} arg hashes) = {}, tree hash of (a (q . p) (c (q . a1) ... 1)) by definition = {}",
        hx(&got),
        hx(&want)
    );

    // 2. the actual curried program in an allocator
    let mut a = Allocator::new();
    let mut map = vec![];
    let (pn, _) = build_inc(&mut a, &t, p, share, amode, 0, &mut map);
    let mut ans = vec![];
    for x in &args {
        // floor above everything: arguments equal to an earlier node are linked
        let (n, _) = build_inc(&mut a, &t, *x, share, amode, t.nodes.len() as Tid, &mut map);
        ans.push(n);
    }
    let cn = curried(&mut a, pn, &ans);
    let opts = RoutineOpts {
        plain: t.expanded_size(cur) <= EXPANDED_LIMIT,
        backrefs: true,
        model_ser: None,
        own_backrefs: None,
    };
    if opts.plain {
        let got = th(&tree_hash(&a, cn));
        vensure!(
            got == want,
            "C17:CurriedProgram:to_clvm-tree-hash-differs",
            "tree_hash(CurriedProgram{{program, args}}.to_clvm()) with {nargs} args = {}, curried program by definition hashes to {}",
            hx(&got),
            hx(&want)
        );
        // hashes computed by the code under test as inputs
        let ph2 = tree_hash(&a, pn);
        let ahs2: Vec<TreeHash> = ans.iter().map(|n| tree_hash(&a, *n)).collect();
        let got = th(&curry_tree_hash(ph2, &ahs2));
        vensure!(
            got == want,
            "C17:curry_tree_hash:differs-from-actual-curried-program",
            "curry_tree_hash(tree_hash(p), [tree_hash(a_i)]) = {}, definition gives {}",
            hx(&got),
            hx(&want)
        );
    }
    check_all_routines(&a, cn, &want, &opts, "CurriedProgram.to_clvm()")?;

    // 3. the same through the TreeHasher encoder (hashes as leaves)
    let got = th(&curried(&mut TreeHasher, ph, &ahs));
    vensure!(
        got == want,
        "C17:TreeHasher:curried-program-differs",
        "CurriedProgram{{hash(p), hashes}} through TreeHasher = {}, definition gives {}",
        hx(&got),
        hx(&want)
    );
    // 4. the model's curried tree built node by node
    let (mn, _) = build_inc(&mut a, &t, cur, share, amode, 0, &mut map);
    let mut c = TreeCache::default();
    let got = th(&tree_hash_cached(&a, mn, &mut c));
    vensure!(
        got == want,
        "C17:tree_hash_cached:fresh-cache-differs",
        "tree_hash_cached(curried program built at tree level) = {}, definition gives {}",
        hx(&got),
        hx(&want)
    );

    ctx.label(format!("nargs:{nargs}"));
    if nargs >= 1 {
        ctx.nontrivial(Fnv::new().write(&want).finish());
    }
    ctx.ran_dry(s.ran_dry());
    Ok(())
}

// --------------------------------------------------------------------------
// sub-check 5: curry_and_treehash (private) observed through fast_forward_singleton

fn singleton_mod() -> &'static (Tree, Tid) {
    static M: OnceLock<(Tree, Tid)> = OnceLock::new();
    M.get_or_init(|| {
        let mut a = Allocator::new();
        let n = node_from_bytes(&mut a, &SINGLETON_TOP_LAYER_V1_1).expect("singleton mod");
        let (t, r) = Tree::from_allocator(&a, n, 100_000).expect("singleton mod tree");
        assert!(mth::tree_hash(&t, r) == SINGLETON_TOP_LAYER_V1_1_HASH, "harness: singleton mod hash");
        (t, r)
    })
}

pub fn case_ff(bytes: &[u8], ctx: &mut Ctx) -> CaseResult {
    let mut s = Src::new(bytes);
    let (mt, mr) = singleton_mod();
    let mut t = mt.clone();
    let modr = *mr;
    let launcher_id: [u8; 32] = s.array();
    let launcher_ph: [u8; 32] = s.array();
    let ppci: [u8; 32] = s.array();
    let np_parent: [u8; 32] = s.array();
    let odd = |s: &mut Src<'_>| -> u64 {
        let bits = s.below(64) as u32;
        (s.u64() >> (63 - bits)) | 1
    };
    let parent_amount = odd(&mut s);
    let amount = odd(&mut s);
    let np_amount = odd(&mut s);
    let nc_amount = odd(&mut s);
    let ib = s.range(1, 30);
    let inner = gen_tree(&mut s, &mut t, ib);
    let sb = s.range(1, 8);
    let inner_solution = gen_tree(&mut s, &mut t, sb);
    let share = s.below(4) != 1;
    let amode = s.below(N_ATOM_MODES) as u8;

    // (mod_hash . (launcher_id . launcher_puzzle_hash))
    let mh = t.atom(&SINGLETON_TOP_LAYER_V1_1_HASH);
    let li = t.atom(&launcher_id);
    let lp = t.atom(&launcher_ph);
    let tail = t.pair(li, lp);
    let sstruct = t.pair(mh, tail);
    let puzzle = mth::curry(&mut t, modr, &[sstruct, inner]);
    let mut hashes = vec![];
    extend_hashes(&t, &mut hashes);
    let puzzle_hash = hashes[puzzle as usize];
    let inner_hash = hashes[inner as usize];

    // from hashes alone, by clvm-utils
    let got = th(&curry_tree_hash(
        TreeHash::new(SINGLETON_TOP_LAYER_V1_1_HASH),
        &[TreeHash::new(hashes[sstruct as usize]), TreeHash::new(inner_hash)],
    ));
    vensure!(
        got == puzzle_hash,
        "C17:curry_tree_hash:differs-from-actual-curried-program",
        "curry_tree_hash(singleton mod hash, [struct, inner]) = {}, definition gives {}",
        hx(&got),
        hx(&puzzle_hash)
    );

    // ((parent_parent_coin_info parent_inner_puzzle_hash parent_amount) amount inner_solution)
    let x1 = t.atom(&ppci);
    let x2 = t.atom(&inner_hash);
    let x3 = t.int(u128::from(parent_amount));
    let proof = t.list(&[x1, x2, x3]);
    let am = t.int(u128::from(amount));
    let solution = t.list(&[proof, am, inner_solution]);

    let mut a = Allocator::new();
    let mut map = vec![];
    let (pn, _) = build_inc(&mut a, &t, puzzle, share, amode, 0, &mut map);
    let (sn, _) = build_inc(&mut a, &t, solution, share, amode, 0, &mut map);

    let ph = Bytes32::from(puzzle_hash);
    // the parent is the same singleton (same struct, same inner puzzle): its puzzle hash is ours
    let parent_coin = Coin::new(Bytes32::from(ppci), ph, parent_amount);
    let coin = Coin::new(parent_coin.coin_id(), ph, amount);
    let new_parent = Coin::new(Bytes32::from(np_parent), ph, np_amount);
    let new_coin = Coin::new(new_parent.coin_id(), ph, nc_amount);

    let r = fast_forward_singleton(&mut a, pn, sn, &coin, &new_coin, &new_parent);
    ctx.render(|| {
        format!(
            "singleton with launcher id {}, launcher puzzle hash {}, inner puzzle {}, amounts {parent_amount}/{amount}/{np_amount}/{nc_amount}, {} build, atoms {amode} -> {:?}",
            hx(&launcher_id),
            hx(&launcher_ph),
            t.render(inner),
            if share { "shared" } else { "expanded" },
            r.as_ref().map(|_| "Ok")
        )
    });
    match r {
        Ok(_) => {
            ctx.label("ff:accepted(curry_and_treehash agrees)");
            let mut f = Fnv::new();
            f.write(&puzzle_hash).write(&ppci).write_u64(parent_amount);
            ctx.nontrivial(f.finish());
        }
        Err(FfError::ParentCoinMismatch) => vfail!(
            "C17:curry_and_treehash:differs-from-actual-curried-singleton",
            "fast_forward_singleton reports ParentCoinMismatch although the parent coin id was computed from the definition's tree hash {} of the curried singleton puzzle: curry_and_treehash computed a different hash",
            hx(&puzzle_hash)
        ),
        Err(e @ (FfError::InnerPuzzleHashMismatch | FfError::PuzzleHashMismatch | FfError::NotSingletonModHash)) => vfail!(
            "C17:tree_hash:differs-from-definition",
            "fast_forward_singleton reports {e:?}: its tree_hash of the (inner) puzzle / mod differs from the definition's"
        ),
        Err(_) => {
            // outside C17 (C19 owns fast-forward validity); must stay rare
            ctx.label("ff:other-error");
            ctx.discard();
        }
    }
    ctx.ran_dry(s.ran_dry());
    Ok(())
}

// --------------------------------------------------------------------------

/// a very long history on ONE cache: tens of thousands of small trees, each with
/// a sub-tree referenced twice (so it is memoized), then a second pass over
/// early trees and new trees that reuse early sub-trees. A block has thousands
/// of puzzles and one TreeCache for all of them; whatever the cache does when
/// it grows large must not change any hash.
pub fn case_big_cache(bytes: &[u8], ctx: &mut Ctx) -> CaseResult {
    let mut s = Src::new(bytes);
    let n = match ctx.tier {
        Tier::Quick => 66_000 + s.below(6_000),
        Tier::Thorough => 66_000 + s.below(140_000),
    };
    let salt = s.u16();
    let second_pass = 64 + s.below(400);
    let mut a = Allocator::new();
    let mut cache = TreeCache::default();
    let mut roots: Vec<(NodePtr, NodePtr, H, H)> = Vec::with_capacity(n);
    let filler = a.new_atom(&[0x42; 5]).expect("atom");
    let filler_h = mth::hash_atom(&[0x42; 5]);
    for i in 0..n {
        let mut id = [0u8; 6];
        id[0..2].copy_from_slice(&salt.to_be_bytes());
        id[2..6].copy_from_slice(&(i as u32).to_be_bytes());
        let leaf = a.new_atom(&id).expect("atom");
        let sub = a.new_pair(leaf, filler).expect("pair");
        // the sub-tree occurs twice: it is memoized by the cache
        let root = a.new_pair(sub, sub).expect("pair");
        let sub_h = mth::hash_pair(&mth::hash_atom(&id), &filler_h);
        let root_h = mth::hash_pair(&sub_h, &sub_h);
        let got = tree_hash_cached(&a, root, &mut cache);
        vensure!(
            got.to_bytes() == root_h,
            "C17:big-cache:first-pass-hash-differs-from-definition",
            "tree {i} of {n} hashed through one shared cache: wrong hash"
        );
        roots.push((root, sub, root_h, sub_h));
    }
    // second pass: early, middle and late trees again, and new trees reusing their sub-trees
    for k in 0..second_pass {
        let idx = match k % 3 {
            0 => k / 3,
            1 => s.below(n),
            _ => n - 1 - (k / 3),
        }
        .min(n - 1);
        let (root, sub, root_h, sub_h) = roots[idx];
        let got = tree_hash_cached(&a, root, &mut cache);
        vensure!(
            got.to_bytes() == root_h,
            "C17:big-cache:rehash-through-grown-cache-differs-from-definition",
            "tree {idx} of {n} re-hashed after {n} trees went through the same cache: wrong hash"
        );
        let fresh = a.new_pair(sub, filler).expect("pair");
        let want = mth::hash_pair(&sub_h, &filler_h);
        let got2 = tree_hash_cached(&a, fresh, &mut cache);
        vensure!(
            got2.to_bytes() == want,
            "C17:big-cache:new-tree-reusing-old-subtree-differs-from-definition",
            "a new tree reusing the memoized sub-tree of tree {idx} (of {n}): wrong hash"
        );
    }
    ctx.add_inner((n + 2 * second_pass) as u64);
    ctx.label("big-cache:>65536-memoized-pairs");
    ctx.nontrivial(((n as u64) << 16) | u64::from(salt));
    ctx.render(|| format!("{n} trees ((id . filler) . (id . filler)) through one TreeCache, then {second_pass} re-hashes of early/random/late trees and new trees reusing their sub-trees"));
    ctx.ran_dry(s.ran_dry());
    Ok(())
}

pub fn run_main() {
    let prop = Property {
        id: "C17",
        rule: "cases are CLVM trees (vcore gen_tree; one-sided/patterned chains to 50 000 pairs; lists to 20 000 items; layered DAGs to 400 levels; atoms 0..23, 24, 25, 0x80, `00 05`, empty, ...) built into a clvmr Allocator shared or expanded with atoms via new_atom / new_small_number / new_substr of a heap buffer / new_concat / substr of a small number; histories of 1-8 such trees in one allocator (later trees link nodes of earlier ones) hashed through one TreeCache under block (run_block_generator2), interleaved and free-form schedules with unrelated allocations in between; curried programs with 0-8 arguments; singleton fast-forward scenarios. NON-TRIVIAL = some pair node is reached at least twice in the allocator (memo path), or a small integer 0..23 / the empty atom is stored as a heap buffer, or at least two trees were hashed through one cache, or a curried program has at least one argument; DISTINCT by tree hash x shape x build mode (trees), by the sequence of operations and hashes (histories), by curried hash (curry).",
        assumptions: &[
            "reference = vcore::model::treehash (sha2 crate, bottom-up over the arena); it calls nothing under test",
            "clvmr's node_to_bytes / node_to_bytes_backrefs / Allocator are trusted as the producers of inputs (node_to_bytes is cross-checked against the model's own serialisation whenever it is used)",
            "clvmr's node_to_bytes_backrefs is super-linear, so it is only used on trees with at most 256 distinct pairs; larger trees get a back-reference serialisation from the harness' own linear serialiser, whose output is cross-checked by decoding it with clvmr and hashing it with clvmr's own ObjectCache/treehash (not clvm-utils)",
            "a TreeCache is only ever used with the one allocator whose nodes it has seen, and that allocator is never rolled back (as in run_block_generator2)",
            "plain tree_hash and node_to_bytes are skipped when the expanded tree exceeds 60 000 nodes or 1.9 MB serialised (they are exponential on DAGs by design)",
            "curry_and_treehash is private: observed through fast_forward_singleton on valid-by-construction scenarios; results other than Ok / ParentCoinMismatch / *HashMismatch are discarded (C19 owns them)",
        ],
        death_is_violation: false,
        subchecks: vec![
            SubCheck {
                name: "small-atoms",
                about: "PRECOMPUTED_HASHES and the small-atom fast path: atoms 0..25 and neighbours in 5 allocator representations x 9 contexts x every routine (exhaustive)",
                source: Source::Enumerate { f: enum_small, exhaustive: true },
                run: case_small,
                inflight: false,
                min_nontrivial: 120,
                required_labels: &[
                    "small<24:inline(U32)",
                    "small<24:heap(Buffer)",
                    "empty:inline(U32)",
                    "empty:heap(Buffer)",
                    "neighbour:inline(U32)",
                    "neighbour:heap(Buffer)",
                ],
            },
            SubCheck {
                name: "trees",
                about: "one tree, every routine (tree_hash, tree_hash_cached fresh/twice/after visit_tree, from_bytes plain+backrefs, TreeHasher) against the definition",
                source: Source::Random { len: 2048, quick: 250_000, thorough: 5_000_000 },
                run: case_tree,
                inflight: true,
                min_nontrivial: 100_000,
                required_labels: &[
                    "memo-path:pair-reached-twice",
                    "memo-populated",
                    "small-atom:heap",
                    "empty-atom:heap",
                    "chain>=10000",
                    "list>=2000",
                    "dag>60-levels",
                    "build:expanded",
                    "backrefs-used",
                    "own-backrefs-used:pairs>10000",
                    "clvmr-backrefs-skipped(pairs>256)",
                    "plain-routines-skipped(expanded>60k)",
                ],
            },
            SubCheck {
                name: "histories",
                about: "1-8 trees in one allocator hashed through one shared TreeCache; block/interleaved/free-form schedules, with and without the visit_tree pre-pass, unrelated allocations in between",
                source: Source::Random { len: 1536, quick: 200_000, thorough: 4_000_000 },
                run: case_history,
                inflight: true,
                min_nontrivial: 100_000,
                required_labels: &[
                    "prepass:visit_tree-all-first",
                    "prepass:none",
                    "later-tree-links-earlier-pairs",
                    "memo-hit:cache-already-holds-subtree",
                    "unrelated-allocations-interleaved",
                    "same-puzzle-node-again",
                    "history-len:8",
                    "style:block",
                    "style:free-form",
                ],
            },
            SubCheck {
                name: "curry",
                about: "curry_tree_hash from hashes alone = definition's hash of the curried program = tree_hash(CurriedProgram.to_clvm()) = TreeHasher, 0-8 args",
                source: Source::Random { len: 1024, quick: 150_000, thorough: 3_000_000 },
                run: case_curry,
                inflight: false,
                min_nontrivial: 80_000,
                required_labels: &["nargs:0", "nargs:1", "nargs:8"],
            },
            SubCheck {
                name: "fast-forward-curry",
                about: "chia-consensus curry_and_treehash (private) through fast_forward_singleton on valid-by-construction singleton spends",
                source: Source::Random { len: 2048, quick: 30_000, thorough: 600_000 },
                run: case_ff,
                inflight: false,
                min_nontrivial: 20_000,
                required_labels: &["ff:accepted(curry_and_treehash agrees)"],
            },
            SubCheck {
                name: "big-cache-history",
                about: "one TreeCache across more than 65 536 memoized sub-trees, then re-hashing early trees and new trees that reuse early sub-trees",
                source: Source::Random { len: 16, quick: 48, thorough: 640 },
                run: case_big_cache,
                inflight: false,
                min_nontrivial: 40,
                required_labels: &["big-cache:>65536-memoized-pairs"],
            },
        ],
    };
    engine::main(prop);
}
