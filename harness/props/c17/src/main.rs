fn main() {
    c17::run_main();
}
