//! C09 — trusted fast paths report what full validation reports.
//! Differential: every helper against the owned conditions of
//! `run_block_generator2` on the same (accepted) generator.

use std::collections::BTreeMap;

use chia_bls::Signature;
use chia_consensus::additions_and_removals::additions_and_removals;
use chia_consensus::consensus_constants::TEST_CONSTANTS;
use chia_consensus::flags::ConsensusFlags;
use chia_consensus::get_puzzle_and_solution::get_puzzle_and_solution_for_coin;
use chia_consensus::owned_conditions::OwnedSpendBundleConditions;
use chia_consensus::run_block_generator::{
    get_coinspends_for_trusted_block, get_coinspends_with_conditions_for_trusted_block, run_block_generator2, setup_generator_args,
};
use chia_consensus::solution_generator::solution_generator;
use chia_protocol::{Coin, Program, SpendBundle};
use clvmr::chia_dialect::ChiaDialect;
use clvmr::reduction::Reduction;
use clvmr::run_program::run_program;
use clvmr::serde::{node_from_bytes_backrefs, node_to_bytes, node_to_bytes_backrefs};
use clvmr::Allocator;
use vcore::condgen::{self, GenCfg};
use vcore::engine::{CaseResult, Ctx, Property, Source, SubCheck};
use vcore::gentree::{self, BuildMode, Tid, Tree};
use vcore::model::int::{classify_uint, enc_u64, UintClass};
use vcore::model::treehash;
use vcore::proglevel;
use vcore::{vensure, vensure_eq, vfail, Fnv, Src};

pub const SIG_EMPTY_HINT: &str = "C09:additions_and_removals:empty-first-memo-reported-as-hint";
pub const SIG_EXTRA_FIELD: &str = "C09:get_puzzle_and_solution:fails-when-a-spend-has-extra-fields";

type Hint = Option<Vec<u8>>;

fn validated_additions(o: &OwnedSpendBundleConditions) -> Vec<(Vec<u8>, Vec<(Vec<u8>, u64, Hint)>)> {
    o.spends
        .iter()
        .map(|s| {
            let mut cc: Vec<(Vec<u8>, u64, Hint)> = s
                .create_coin
                .iter()
                .map(|(ph, am, h)| (ph.as_slice().to_vec(), *am, h.as_ref().map(|b| b.as_slice().to_vec())))
                .collect();
            cc.sort();
            (s.coin_id.as_slice().to_vec(), cc)
        })
        .collect()
}

fn normalise(o: &OwnedSpendBundleConditions) -> OwnedSpendBundleConditions {
    let mut n = o.clone();
    n.spends.sort_by(|a, b| a.coin_id.cmp(&b.coin_id));
    n.agg_sig_unsafe.sort_by(|a, b| (a.0.to_bytes(), a.1.as_slice()).cmp(&(b.0.to_bytes(), b.1.as_slice())));
    n.cost = 0;
    n.execution_cost = 0;
    n.num_atoms = 0;
    n.num_pairs = 0;
    n.heap_size = 0;
    n
}

pub fn case_trusted(bytes: &[u8], ctx: &mut Ctx) -> CaseResult {
    let mut s = Src::new(bytes);
    let flags = proglevel::flag_set(s.below(proglevel::NUM_FLAG_SETS)) | ConsensusFlags::DONT_VALIDATE_SIGNATURE;
    let mut cfg = GenCfg::standard();
    cfg.shape_mutations = false;
    cfg.huge = false;
    cfg.careful_rate = 235;
    cfg.mutation_rate = 25;
    // a quarter of the cases use puzzles that RUN a program from the solution
    // (conditions computed at run time, optionally behind an operator probe whose
    // outcome depends on the operator flags) instead of quoted condition lists.
    // Decided by the last byte of the input, not by a choice read here, so that
    // older replay files keep their meaning.
    let eval_mode = bytes.len() >= 32 && bytes[bytes.len() - 1] & 3 == 3;
    cfg.eval_puzzles = eval_mode;
    let mut b = condgen::gen_bundle(&mut s, &cfg);
    let backrefs = s.bool();
    // spend-level extras (allowed by consensus: "(parent puzzle amount solution . extra)")
    let extra_kind = if s.chance(50) { 1 + s.below(3) } else { 0 };
    let extra_at = s.below(b.spends.len().max(1));
    // (choices added later are read last, so that older replay files keep their meaning)
    // generator-identity pricing: full validation then charges the interned size
    // of the generator instead of its serialized length
    let interned = s.chance(64);
    // rarely: a block whose generator is around a megabyte of highly repetitive
    // content (thousands of spends of one puzzle, or a hundred spends carrying the
    // same 10 kB atom). Serialized without back-references it is only valid where
    // interned pricing applies; the trusted helpers must handle every such block.
    let bulk = s.below(1200);
    let bulk_n = s.below(1 << 16);
    let bulk = if bulk >= 1198 { bulk - 1197 } else { 0 };
    let flags = if interned || (bulk != 0 && bulk_n % 4 != 0) { flags | ConsensusFlags::INTERNED_GENERATOR } else { flags };
    // operator flags (hard-fork activations): every subset
    let flags = flags | proglevel::op_flag_subset(s.below(64));
    let mut probed = false;
    let mut solutions: Vec<Tid> = b.spends.iter().map(|sp| sp.cond_list).collect();
    if eval_mode && bulk == 0 {
        ctx.label("puzzles:run-program-from-solution");
        for i in 0..b.spends.len() {
            let cl = b.spends[i].cond_list;
            let mut budget = 30usize;
            let mut prog = proglevel::computed_program(&mut b.tree, cl, &mut s, &mut budget, 0);
            if s.chance(90) {
                let (p, name) = proglevel::with_probe(&mut b.tree, prog, &mut s);
                prog = p;
                probed = true;
                ctx.label(name);
            }
            solutions[i] = b.tree.list(&[prog]);
        }
    }
    ctx.ran_dry(s.ran_dry());
    let mut t: Tree = b.tree.clone();
    let mut nodes: Vec<Tid> = vec![];
    if bulk != 0 {
        let phs = condgen::tag_puzzle_hashes();
        let pz = condgen::tagged_identity(&mut t, 1);
        let op = t.atom(&[1]);
        let (n, filler) = if bulk == 1 {
            (1500 + (bulk_n * 2000 >> 16), vec![0x33u8; 280])
        } else {
            (50 + (bulk_n * 70 >> 16), vec![0x5au8; 10_000])
        };
        let fa = t.atom(&filler);
        let remark = t.list(&[op, fa]);
        let plain_sol = t.list(&[remark]);
        // every 16th spend also creates a hinted coin
        let cc = t.atom(&[51]);
        let ph = t.atom(&phs[1]);
        let one = t.atom(&[1]);
        let hint = t.atom(&[0x48u8; 32]);
        let memos = t.list(&[hint]);
        let create = t.list(&[cc, ph, one, memos]);
        let rich_sol = t.list(&[remark, create]);
        let am = t.atom(&enc_u64(7));
        for i in 0..n {
            let mut parent = [0x79u8; 32];
            parent[28..32].copy_from_slice(&(i as u32).to_be_bytes());
            let pa = t.atom(&parent);
            let sol = if i % 16 == 3 { rich_sol } else { plain_sol };
            nodes.push(t.list(&[pa, pz, am, sol]));
        }
        ctx.label(if bulk == 1 { "bulk:thousands-of-spends-of-one-puzzle" } else { "bulk:same-10kB-atom-in-every-spend" });
    }
    for (i, sp) in b.spends.iter().enumerate() {
        if bulk != 0 {
            break;
        }
        let pa = t.atom(&sp.parent);
        let am = t.atom(&enc_u64(sp.amount));
        let mut fields = vec![pa, sp.puzzle, am, solutions[i]];
        let mut tail = t.nil();
        if extra_kind != 0 && i == extra_at {
            match extra_kind {
                1 => fields.push(t.atom(b"extra")),
                2 => {
                    let x = t.atom(b"e1");
                    let y = t.atom(b"e2");
                    fields.push(x);
                    fields.push(y);
                }
                _ => tail = t.atom(&[5]),
            }
        }
        nodes.push(t.list_with_tail(&fields, tail));
    }
    let sl = t.list(&nodes);
    let nil = t.nil();
    let output = t.pair(sl, nil);
    let q = t.atom(&[1]);
    let prog = t.pair(q, output);
    let mut a0 = Allocator::new();
    let pn = gentree::build(&mut a0, &t, prog, BuildMode::PLAIN);
    let program: Vec<u8> = if backrefs {
        node_to_bytes_backrefs(&a0, pn).unwrap()
    } else {
        node_to_bytes(&a0, pn).unwrap()
    };
    let refs: Vec<Vec<u8>> = vec![];
    ctx.render(|| {
        if bulk != 0 {
            format!("flags={flags:?} backrefs={backrefs} bulk generator of {} spends ({} bytes): first spend {}", nodes.len(), program.len(), t.render(nodes[0]))
        } else {
            format!("flags={flags:?} backrefs={backrefs} generator=(q . {})", t.render(output))
        }
    });
    for l in &b.labels {
        if l.starts_with("memo:") {
            ctx.label(l.clone());
        }
    }
    if extra_kind != 0 {
        ctx.label("spend-level-extra");
    }

    if bulk != 0 {
        ctx.label(match program.len() {
            0..=499_999 => "bulk-generator-bytes:<500k",
            500_000..=899_999 => "bulk-generator-bytes:500k-900k",
            _ => "bulk-generator-bytes:>=900k",
        });
    }
    // "a block that full validation accepts": within the block cost limit
    let validated = match run_block_generator2(&program, &refs, TEST_CONSTANTS.max_block_cost_clvm, flags, &Signature::default(), None, &TEST_CONSTANTS) {
        Ok((a, c)) => proglevel::owned(&a, c),
        Err(_) => {
            ctx.label("not-accepted");
            return Ok(());
        }
    };
    ctx.label("accepted");
    if probed {
        ctx.label("accepted:with-operator-probe");
    }
    if flags.contains(ConsensusFlags::INTERNED_GENERATOR) {
        ctx.label("accepted:interned-pricing");
    }
    if bulk != 0 {
        ctx.label("bulk:accepted");
        if !backrefs && program.len() >= 900_000 {
            ctx.label("bulk:accepted-plain-generator>=900k");
        }
    }
    let want_additions = validated_additions(&validated);

    // ---- 1. additions_and_removals
    let (additions, removals) = match additions_and_removals(&program, &refs, flags, &TEST_CONSTANTS) {
        Ok(x) => x,
        Err(e) => vfail!("C09:additions_and_removals:fails-on-accepted-block", "additions_and_removals failed with {e:?} on a block that run_block_generator2 accepts"),
    };
    vensure_eq!(removals.len(), validated.spends.len(), "C09:additions_and_removals:removals", "number of removals");
    for (i, ((id, coin), sp)) in removals.iter().zip(validated.spends.iter()).enumerate() {
        vensure!(
            *id == sp.coin_id && coin.parent_coin_info == sp.parent_id && coin.puzzle_hash == sp.puzzle_hash && coin.amount == sp.coin_amount,
            "C09:additions_and_removals:removals",
            "removal {i}: ({id:?}, {coin:?}) vs validated spend {:?}",
            sp.coin_id
        );
    }
    let mut got: BTreeMap<Vec<u8>, Vec<(Vec<u8>, u64, Hint)>> = BTreeMap::new();
    for (coin, hint) in &additions {
        got.entry(coin.parent_coin_info.as_slice().to_vec()).or_default().push((
            coin.puzzle_hash.as_slice().to_vec(),
            coin.amount,
            hint.as_ref().map(|b| b.as_slice().to_vec()),
        ));
    }
    let total_want: usize = want_additions.iter().map(|(_, v)| v.len()).sum();
    vensure_eq!(additions.len(), total_want, "C09:additions_and_removals:additions", "number of additions");
    for (cid, want) in &want_additions {
        let mut g = got.get(cid).cloned().unwrap_or_default();
        g.sort();
        if g != *want {
            // same coins, differing only in "empty hint" vs "no hint"?
            let strip = |v: &Vec<(Vec<u8>, u64, Hint)>| -> Vec<(Vec<u8>, u64, Hint)> {
                let mut o: Vec<_> = v.iter().map(|(p, a, h)| (p.clone(), *a, h.clone().filter(|x| !x.is_empty()))).collect();
                o.sort();
                o
            };
            if strip(&g) == strip(want) {
                ctx.known_or_fail(SIG_EMPTY_HINT, || {
                    format!("additions_and_removals reports hint Some(\"\") for a CREATE_COIN whose first memo is the empty atom; full validation reports no hint. helper {g:?} vs validated {want:?}")
                })?;
            } else {
                vfail!("C09:additions_and_removals:additions", "additions of spend {} differ: helper {g:?} vs validated {want:?}", hexs(cid));
            }
        }
    }

    // ---- 2. get_coinspends_for_trusted_block
    let gen_prog = Program::from(program.clone());
    let css = match get_coinspends_for_trusted_block(&TEST_CONSTANTS, &gen_prog, &refs, flags) {
        Ok(x) => x,
        Err(e) => vfail!("C09:get_coinspends:fails-on-accepted-block", "get_coinspends_for_trusted_block failed with {e:?}"),
    };
    vensure_eq!(css.len(), validated.spends.len(), "C09:get_coinspends:coins", "number of coin spends");
    for (i, (cs, sp)) in css.iter().zip(validated.spends.iter()).enumerate() {
        vensure!(cs.coin.coin_id() == sp.coin_id && cs.coin.puzzle_hash == sp.puzzle_hash, "C09:get_coinspends:coins", "coin spend {i}: {:?} vs validated {:?}", cs.coin, sp.coin_id);
    }
    // the recovered coin spends rebuild a generator with the same conditions
    let rebuilt = solution_generator(css.iter().map(|cs| (cs.coin, cs.puzzle_reveal.as_slice(), cs.solution.as_slice()))).expect("solution_generator");
    match run_block_generator2(&rebuilt, &refs, u64::MAX / 4, flags, &Signature::default(), None, &TEST_CONSTANTS) {
        Err(e) => vfail!("C09:get_coinspends:rebuilt-generator-rejected", "the generator rebuilt from the recovered coin spends is rejected: {e:?}"),
        Ok((a, c)) => {
            let re = proglevel::owned(&a, c);
            let (x, y) = (normalise(&validated), normalise(&re));
            if x != y {
                let d = x.spends.iter().zip(y.spends.iter()).find(|(p, q)| p != q);
                vfail!("C09:get_coinspends:rebuilt-generator-conditions-differ", "rebuilt generator gives different conditions; first differing spend: {d:?}");
            }
        }
    }

    // ---- 3. get_coinspends_with_conditions_for_trusted_block
    let with = match get_coinspends_with_conditions_for_trusted_block(&TEST_CONSTANTS, &gen_prog, &refs, flags) {
        Ok(x) => x,
        Err(e) => vfail!("C09:with_conditions:fails-on-accepted-block", "get_coinspends_with_conditions_for_trusted_block failed with {e:?}"),
    };
    vensure_eq!(with.len(), validated.spends.len(), "C09:with_conditions:coins", "number of coin spends");
    for (i, ((cs, conds), sp)) in with.iter().zip(validated.spends.iter()).enumerate() {
        vensure!(cs.coin.coin_id() == sp.coin_id, "C09:with_conditions:coins", "coin spend {i}");
        let mut created: Vec<(Vec<u8>, u64)> = vec![];
        for (op, args) in conds {
            if *op == 51 && args.len() >= 2 {
                if let UintClass::Ok(v) = classify_uint(&args[1], 8) {
                    created.push((args[0].clone(), v));
                }
            }
        }
        created.sort();
        let mut want: Vec<(Vec<u8>, u64)> = sp.create_coin.iter().map(|(ph, am, _)| (ph.as_slice().to_vec(), *am)).collect();
        want.sort();
        // this display helper documents that it skips any condition with an
        // argument atom of 1024 bytes or more: then only "nothing invented" holds
        let has_long_atom = bulk == 0 && b.spends.get(i).is_some_and(|g| {
            let (items, _) = t.list_items(g.cond_list);
            items.iter().any(|c| t.list_items(*c).0.iter().any(|x| t.atom_bytes(*x).is_some_and(|a| a.len() >= 1024)))
        });
        if has_long_atom {
            ctx.label("with-conditions:spend-with-long-argument-atom");
            let mut rest = want.clone();
            for c in &created {
                match rest.iter().position(|w| w == c) {
                    Some(p) => {
                        rest.remove(p);
                    }
                    None => vfail!("C09:with_conditions:create-coin", "spend {i}: CREATE_COIN entry {c:?} is not among the validated {want:?}"),
                }
            }
        } else {
            vensure!(created == want, "C09:with_conditions:create-coin", "spend {i}: CREATE_COIN entries {created:?} vs validated {want:?}");
        }
    }

    // ---- 4. get_puzzle_and_solution_for_coin for every removed coin
    {
        let mut a = Allocator::new();
        let pnode = node_from_bytes_backrefs(&mut a, &program).expect("deserialize");
        let args = setup_generator_args(&mut a, &refs, flags).expect("args");
        let dialect = ChiaDialect::new(flags.to_clvm_flags());
        let Reduction(_, result) = run_program(&mut a, &dialect, pnode, args, u64::MAX / 4).expect("generator runs");
        let stride = if bulk != 0 { (validated.spends.len() / 6).max(1) } else { 1 };
        for (i, sp) in validated.spends.iter().enumerate() {
            if i % stride != 0 {
                continue;
            }
            let coin = Coin::new(sp.parent_id, sp.puzzle_hash, sp.coin_amount);
            match get_puzzle_and_solution_for_coin(&a, result, &coin) {
                Err(e) => {
                    if extra_kind != 0 {
                        ctx.known_or_fail(SIG_EXTRA_FIELD, || {
                            format!("get_puzzle_and_solution_for_coin fails with {e:?} for removed coin {i} of an accepted block in which a spend carries extra fields after the solution")
                        })?;
                        break;
                    }
                    vfail!("C09:get_puzzle_and_solution:removed-coin-not-found", "lookup of removed coin {i} failed with {e:?}");
                }
                Ok((pz, sol)) => {
                    let (pt, pr) = Tree::from_allocator(&a, pz, 1_000_000).expect("puzzle tree");
                    vensure!(treehash::tree_hash(&pt, pr) == *sp.puzzle_hash.as_slice(), "C09:get_puzzle_and_solution:wrong-puzzle", "coin {i}: tree hash of the returned puzzle is not the coin's puzzle hash");
                    let pz_bytes = node_to_bytes(&a, pz).unwrap();
                    let sol_bytes = node_to_bytes(&a, sol).unwrap();
                    vensure!(
                        pz_bytes == css[i].puzzle_reveal.as_slice() && sol_bytes == css[i].solution.as_slice(),
                        "C09:get_puzzle_and_solution:wrong-spend",
                        "coin {i}: returned puzzle/solution are not that spend's"
                    );
                }
            }
        }
    }

    // ---- 5. SpendBundle::additions ("on a valid spend bundle": a spend bundle is
    // what the mempool admits, so the relation is asserted for bundles that are
    // also valid under mempool strictness; in pure consensus mode a condition
    // whose opcode is a pair is ignored, while this non-consensus helper
    // refuses it)
    let mempool_valid = run_block_generator2(
        &program,
        &refs,
        u64::MAX / 4,
        flags | chia_consensus::flags::MEMPOOL_MODE,
        &Signature::default(),
        None,
        &TEST_CONSTANTS,
    )
    .is_ok();
    // (SpendBundle::additions runs the puzzles without any flags — documented as
    // not performing consensus validation — so bundles whose validity rests on an
    // operator flag are outside its contract)
    if mempool_valid && !probed {
        ctx.label("spendbundle-additions:checked");
        let sb = SpendBundle::new(css.clone(), Signature::default());
        match sb.additions() {
            Err(e) => vfail!("C09:spendbundle-additions:fails-on-valid-bundle", "SpendBundle::additions failed with {e:?}"),
            Ok(coins) => {
                let mut g: Vec<(Vec<u8>, Vec<u8>, u64)> = coins.iter().map(|c| (c.parent_coin_info.as_slice().to_vec(), c.puzzle_hash.as_slice().to_vec(), c.amount)).collect();
                g.sort();
                let mut w: Vec<(Vec<u8>, Vec<u8>, u64)> = vec![];
                for (cid, cc) in &want_additions {
                    for (ph, am, _) in cc {
                        w.push((cid.clone(), ph.clone(), *am));
                    }
                }
                w.sort();
                vensure!(g == w, "C09:spendbundle-additions:coins-differ", "SpendBundle::additions {g:?} vs validated {w:?}");
            }
        }
    }

    if validated.spends.iter().any(|s| s.create_coin.iter().any(|c| c.2.is_some())) || b.labels.iter().any(|l| l.starts_with("memo:") && l != "memo:absent") {
        let mut f = Fnv::new();
        f.write(&program);
        f.write_u64(u64::from(flags.bits()));
        ctx.nontrivial(f.finish());
    }
    Ok(())
}

fn hexs(b: &[u8]) -> String {
    b.iter().map(|x| format!("{x:02x}")).collect()
}

pub fn property() -> Property {
    Property {
        id: "C09",
        rule: "a case is a block generator (quoted output, plain or back-reference serialized) over bundles from the shared generator in careful mode — the full catalogue of CREATE_COIN memo shapes (absent, (), hint of 32/short/33 bytes, empty first memo, pair as first memo, improper memo list, several memos, atom instead of list), amounts of every encoding, unknown and non-atom opcodes in between, optional spend-level extra fields — under 8 flag sets x {byte pricing, INTERNED_GENERATOR pricing} x every subset of the six operator flags (RELAXED_BLS, keccak, sha256tree, secp, MALACHITE, GC); in a quarter of the cases the puzzles run a program taken from the solution (conditions computed at run time, optionally behind an operator probe whose outcome depends on those flags); about 1 case in 600 is instead a bulk block of ~0.5-1.3 MB of repetitive content (1500-3500 spends of one puzzle, or 50-120 spends carrying the same 10 kB atom; the lookups are then sampled). Only generators accepted by run_block_generator2 within the block cost limit are examined. Non-trivial = accepted generator with ≥1 CREATE_COIN carrying a memo structure; distinct by (program bytes, flags).",
        assumptions: &[
            "the validated conditions of run_block_generator2 are the reference; the helpers are compared with them",
            "generator output for get_puzzle_and_solution_for_coin is produced by the harness with clvmr::run_program and chia-consensus setup_generator_args",
        ],
        subchecks: vec![SubCheck {
            name: "helpers-vs-validation",
            about: "additions_and_removals, get_coinspends_for_trusted_block (+rebuild), get_coinspends_with_conditions_for_trusted_block, get_puzzle_and_solution_for_coin for every coin, SpendBundle::additions",
            source: Source::Random { len: 1536, quick: 120_000, thorough: 3_000_000 },
            run: case_trusted,
            inflight: false,
            min_nontrivial: 15_000,
            required_labels: &["accepted", "memo:hint32", "memo:empty-first", "memo:improper", "memo:several", "memo:pair-first", "spend-level-extra", "accepted:interned-pricing", "bulk:accepted-plain-generator>=900k", "puzzles:run-program-from-solution", "accepted:with-operator-probe"],
        }],
        death_is_violation: false,
    }
}
