fn main() {
    vcore::engine::main(c09::property());
}
