//! C13 — wire encoding is a canonical bijection consistent with hashing.
//!
//! For every type of the `vstream` registry (every Streamable type of
//! chia-protocol, chia-bls, chia-consensus, chia-datalayer + primitive and
//! combinator instantiations):
//!  (1) from_bytes(to_bytes(v)) = v and from_bytes_unchecked(to_bytes(v)) = v;
//!  (2) canonicity on bytes: from_bytes(b) = Ok(v') ⇒ to_bytes(v') = b for b =
//!      single-byte perturbations of a valid encoding, block perturbations,
//!      truncations and extensions;
//!  (3) v.hash() = sha256(to_bytes(v)); with a version-2 proof of space: of
//!      the encoding with the length-prefixed proof replaced by the quality
//!      commitment (from the repository's vector files where possible);
//!  (4) from_bytes(b) = Ok(v') ⇒ from_bytes_unchecked(b) = Ok(v').

use std::sync::atomic::{AtomicBool, Ordering};
use std::sync::OnceLock;

use chia_protocol::{Bytes32, ProofOfSpace};
use vcore::engine::{self, CaseResult, Ctx, Property, Source, SubCheck, Tier};
use vcore::{vensure, vfail, Fnv, Src};
use vstream::vectors::{vectors, PosVector};
use vstream::{registry, take_gen_labels, DynValue, Entry, HashExpect, HashSource, Walker};

fn hx(b: &[u8]) -> String {
    if b.len() <= 160 {
        hex::encode(b)
    } else {
        format!("{}…({} bytes)…{}", hex::encode(&b[..96]), b.len(), hex::encode(&b[b.len() - 32..]))
    }
}

// ---------------------------------------------------------------------------
// registry drift (reported as labels on exactly one case per run + a warning)

struct Drift {
    labels: Vec<String>,
}

fn drift() -> &'static Drift {
    static D: OnceLock<Drift> = OnceLock::new();
    D.get_or_init(|| {
        let rep = vstream::drift::scan(&vstream::vectors::repo_root());
        let mut labels = vec![
            format!("registry:entries={}", registry().len()),
            format!("registry:declarations-found-in-tree={}", rep.found.len()),
            format!("registry:types_uncovered={}", rep.uncovered.len()),
        ];
        if rep.files_scanned == 0 {
            labels.push("registry:tree-not-readable".to_string());
            println!("WARNING C13 registry drift: no source file readable under {}/crates", vstream::vectors::repo_root());
        }
        for u in &rep.uncovered {
            println!("WARNING C13 registry drift: Streamable type {u} is declared in the tree but has no registry entry (not covered by C13/C14)");
            labels.push(format!("types_uncovered:{u}"));
        }
        Drift { labels }
    })
}

static DRIFT_REPORTED: AtomicBool = AtomicBool::new(false);

fn report_drift_once(ctx: &mut Ctx) {
    let d = drift();
    if !ctx.want_render() && !DRIFT_REPORTED.swap(true, Ordering::SeqCst) {
        for l in &d.labels {
            ctx.label(l.clone());
        }
    }
}

// ---------------------------------------------------------------------------
// oracle pieces

fn type_sig(kind: &str) -> String {
    format!("C13:{kind}")
}

/// (1) and (3) on a well-formed value; returns its encoding
fn check_value(e: &Entry, v: &dyn DynValue, ctx: &mut Ctx) -> Result<Vec<u8>, engine::Failure> {
    let enc = match v.to_bytes() {
        Ok(b) => b,
        Err(err) => vfail!(
            type_sig("encode:well-formed-value-rejected"),
            "{}: to_bytes of a well-formed value fails with {err:?}: {}",
            e.name,
            v.debug()
        ),
    };
    // (1) untrusted
    match (e.from_bytes)(&enc) {
        Ok(d) => {
            vensure!(
                d.eq_dyn(v),
                type_sig("roundtrip:from_bytes-differs"),
                "{}: from_bytes(to_bytes(v)) != v\n  v  = {}\n  v' = {}\n  bytes = {}",
                e.name,
                v.debug(),
                d.debug(),
                hx(&enc)
            );
            let re = d.to_bytes();
            vensure!(
                re.as_ref().ok() == Some(&enc),
                type_sig("canonicity:valid-encoding-not-reproduced"),
                "{}: to_bytes(from_bytes(b)) != b for b = to_bytes(v) = {}",
                e.name,
                hx(&enc)
            );
        }
        Err(err) => vfail!(
            type_sig("roundtrip:from_bytes-rejects-valid"),
            "{}: from_bytes(to_bytes(v)) = Err({err:?}); v = {}; bytes = {}",
            e.name,
            v.debug(),
            hx(&enc)
        ),
    }
    // (1) trusted
    match (e.from_bytes_unchecked)(&enc) {
        Ok(d) => vensure!(
            d.eq_dyn(v),
            type_sig("roundtrip:from_bytes_unchecked-differs"),
            "{}: from_bytes_unchecked(to_bytes(v)) != v\n  v  = {}\n  v' = {}",
            e.name,
            v.debug(),
            d.debug()
        ),
        Err(err) => vfail!(
            type_sig("roundtrip:from_bytes_unchecked-rejects-valid"),
            "{}: from_bytes_unchecked(to_bytes(v)) = Err({err:?}); v = {}",
            e.name,
            v.debug()
        ),
    }
    // (3)
    check_hash(e, v, &enc, ctx, true)?;
    Ok(enc)
}

/// (3) the streaming hash against the rule computed from the encoding
fn check_hash(e: &Entry, v: &dyn DynValue, enc: &[u8], ctx: &mut Ctx, label: bool) -> CaseResult {
    match v.expected_hash(enc) {
        HashExpect::Defined { hash, source, v2_proofs } => {
            let got = v.hash();
            let what = match source {
                HashSource::Plain => "hash:plain",
                HashSource::Vectors => "hash:v2-commitment-from-vector-files",
                HashSource::Code => "hash:v2-commitment-from-quality_string",
            };
            if label {
                ctx.label(what);
            }
            vensure!(
                got == hash,
                type_sig(if v2_proofs == 0 { "hash:differs-from-sha256-of-encoding" } else { "hash:v2-rule-violated" }),
                "{}: hash() = {} but the rule ({what}, {v2_proofs} v2 proofs) gives {}; v = {}; bytes = {}",
                e.name,
                hex::encode(got),
                hex::encode(hash),
                v.debug(),
                hx(enc)
            );
        }
        HashExpect::Undefined { .. } => {
            // no defined hash (C14 finding F3): (3) is skipped and counted
            if label {
                ctx.label("hash:skipped-undefined-v2-proof");
            }
        }
        HashExpect::Unlocatable => vfail!(
            type_sig("hash:v2-proof-not-locatable-in-encoding"),
            "{}: flipping the bytes of an embedded v2 proof does not change the encoding in exactly one place of the proof's length; v = {}",
            e.name,
            v.debug()
        ),
    }
    Ok(())
}

/// (2) + (4) (+ (3)) on an arbitrary byte string; returns true if accepted
fn check_bytes(e: &Entry, b: &[u8], what: &str) -> Result<bool, engine::Failure> {
    let v = match (e.from_bytes)(b) {
        Ok(v) => v,
        Err(_) => return Ok(false),
    };
    match v.to_bytes() {
        Ok(re) => vensure!(
            re == b,
            type_sig("canonicity:accepted-bytes-not-reproduced"),
            "{}: from_bytes accepts a {what} of a valid encoding but re-encoding gives other bytes\n  accepted = {}\n  re-encoded = {}\n  value = {}",
            e.name,
            hx(b),
            hx(&re),
            v.debug()
        ),
        Err(err) => vfail!(
            type_sig("canonicity:accepted-bytes-do-not-re-encode"),
            "{}: from_bytes accepts {} ({what}) but to_bytes of the result fails: {err:?}",
            e.name,
            hx(b)
        ),
    }
    // (4)
    match (e.from_bytes_unchecked)(b) {
        Ok(t) => vensure!(
            t.eq_dyn(&*v),
            type_sig("trusted-decoder:different-value"),
            "{}: from_bytes and from_bytes_unchecked both accept {} ({what}) but return different values\n  untrusted = {}\n  trusted   = {}",
            e.name,
            hx(b),
            v.debug(),
            t.debug()
        ),
        Err(err) => vfail!(
            type_sig("trusted-decoder:rejects-what-untrusted-accepts"),
            "{}: from_bytes accepts {} ({what}) but from_bytes_unchecked fails with {err:?}",
            e.name,
            hx(b)
        ),
    }
    // (3) on the decoded value (bytes b are its encoding, just verified)
    match v.expected_hash(b) {
        HashExpect::Defined { hash, v2_proofs, .. } => {
            let got = v.hash();
            vensure!(
                got == hash,
                type_sig(if v2_proofs == 0 { "hash:differs-from-sha256-of-encoding" } else { "hash:v2-rule-violated" }),
                "{}: value decoded from {} ({what}) has hash() = {} but the rule gives {}",
                e.name,
                hx(b),
                hex::encode(got),
                hex::encode(hash)
            );
        }
        HashExpect::Undefined { .. } | HashExpect::Unlocatable => {}
    }
    Ok(true)
}

struct Lcg(u64);
impl Lcg {
    fn next(&mut self) -> u64 {
        self.0 = self.0.wrapping_mul(6364136223846793005).wrapping_add(1442695040888963407);
        self.0 >> 17
    }
    fn below(&mut self, n: usize) -> usize {
        (self.next() % n.max(1) as u64) as usize
    }
}

const POKE: [u8; 8] = [0, 1, 2, 3, 4, 0x7f, 0x80, 0xff];

/// every single-byte perturbation at `pos`: returns (#decodes, #accepted)
fn perturb_position(e: &Entry, enc: &[u8], buf: &mut [u8], pos: usize) -> Result<(u64, u64), engine::Failure> {
    let orig = enc[pos];
    let mut tried = [false; 256];
    tried[orig as usize] = true;
    let mut n = 0;
    let mut acc = 0;
    for val in POKE.iter().copied().chain([orig.wrapping_add(1), orig.wrapping_sub(1)]) {
        if tried[val as usize] {
            continue;
        }
        tried[val as usize] = true;
        buf[pos] = val;
        n += 1;
        if check_bytes(e, buf, "single-byte perturbation")? {
            acc += 1;
        }
    }
    buf[pos] = orig;
    Ok((n, acc))
}

/// Work of one case is sized by a *deterministic* cost estimate of one
/// decode (≈45 µs per embedded BLS element, ≈150 µs per v2 proof whose
/// commitment must be recomputed, ≈1 µs per 500 bytes): `budget_us / cost`
/// perturbation decodes. Where that covers every position (always for
/// encodings without BLS elements up to several KiB) every position is
/// perturbed; otherwise positions are sampled, structural candidates (bytes
/// 0..=3: Option/bool/version prefixes, high bytes of lengths) first.
fn perturbations(e: &Entry, v: &dyn DynValue, enc: &[u8], budget_us: usize, ctx: &mut Ctx) -> CaseResult {
    let len = enc.len();
    let mut buf = enc.to_vec();
    let mut rng = Lcg(vcore::fnv(enc) | 1);
    let mut decodes = 0u64;
    let mut accepted = 0u64;
    let v2 = match v.expected_hash(enc) {
        HashExpect::Defined { v2_proofs, .. } | HashExpect::Undefined { v2_proofs } => v2_proofs,
        HashExpect::Unlocatable => 0,
    };
    let cost_us = 1 + len / 500 + 45 * v.bls_elements() + 150 * v2;
    let budget_positions = (budget_us / cost_us / 9).max(8);
    // --- single-byte perturbations
    let positions: Vec<usize> = if len <= budget_positions {
        if e.has_fix && !vstream::version_prefix_positions(v, enc).is_empty() {
            ctx.label("perturbation:version-prefix-byte");
        }
        (0..len).collect()
    } else {
        let mut cand: Vec<usize> = (0..len).filter(|i| enc[*i] <= 3).collect();
        let mut other: Vec<usize> = (0..len).filter(|i| enc[*i] > 3).collect();
        let shuffle = |v: &mut Vec<usize>, rng: &mut Lcg| {
            for i in (1..v.len()).rev() {
                let j = rng.below(i + 1);
                v.swap(i, j);
            }
        };
        shuffle(&mut cand, &mut rng);
        shuffle(&mut other, &mut rng);
        let n_cand = cand.len().min(budget_positions * 3 / 4);
        let n_other = other.len().min(budget_positions - n_cand);
        cand.truncate(n_cand);
        other.truncate(n_other);
        cand.extend(other);
        // the version-packed prefix bytes of ProofOfSpace / FullBlock /
        // UnfinishedBlock are always perturbed
        if e.has_fix {
            for p in vstream::version_prefix_positions(v, enc) {
                if !cand.contains(&p) {
                    cand.push(p);
                }
                ctx.label("perturbation:version-prefix-byte");
            }
        }
        ctx.label(if len > 512 { "perturbation:sampled-positions(>512-bytes)" } else { "perturbation:sampled-positions(bls-heavy)" });
        cand
    };
    let heavy = cost_us > 40;
    for pos in positions {
        let (n, a) = perturb_position(e, enc, &mut buf, pos)?;
        decodes += n;
        accepted += a;
    }
    // --- block perturbations (a run of bytes replaced)
    if len >= 2 {
        for _ in 0..((if heavy { 3usize } else { 8 }).min(len)) {
            let start = rng.below(len);
            let n = 1 + rng.below(16.min(len - start));
            let mode = rng.below(3);
            for b in &mut buf[start..start + n] {
                *b = match mode {
                    0 => 0,
                    1 => 0xff,
                    _ => rng.next() as u8,
                };
            }
            decodes += 1;
            if check_bytes(e, &buf, "block perturbation")? {
                accepted += 1;
            }
            buf[start..start + n].copy_from_slice(&enc[start..start + n]);
        }
    }
    // --- layout alternatives: every 4-byte window that reads as the length L of
    // what follows it (p + 4 + L <= len) is a candidate length prefix; the same
    // field laid out differently — prefix removed and four zero bytes (or the
    // prefix itself) placed BEHIND the field, or the field moved in front of its
    // prefix — must not be accepted as another encoding of the value
    if len >= 5 {
        let mut windows: Vec<(usize, usize)> = vec![];
        for p in 0..len - 4 {
            let l = u32::from_be_bytes([enc[p], enc[p + 1], enc[p + 2], enc[p + 3]]) as usize;
            if l >= 1 && p + 4 + l <= len {
                windows.push((p, l));
            }
        }
        // the largest fields (real length prefixes) and an even sample of the rest
        let take = if heavy { 2 } else { 5 };
        let mut chosen: Vec<(usize, usize)> = vec![];
        let mut by_len = windows.clone();
        by_len.sort_by(|a, b| b.1.cmp(&a.1).then(a.0.cmp(&b.0)));
        // (a decode that fails early costs next to nothing: the large fields are
        // all tried, also for the expensive types)
        chosen.extend(by_len.iter().filter(|w| w.1 >= 8).take(12));
        chosen.extend(by_len.iter().take(take));
        chosen.dedup();
        let step = (windows.len() / take).max(1);
        for w in windows.iter().step_by(step).take(take) {
            if !chosen.contains(w) {
                chosen.push(*w);
            }
        }
        for (p, l) in chosen {
            for tail in [[0u8; 4], [enc[p], enc[p + 1], enc[p + 2], enc[p + 3]]] {
                let mut alt = Vec::with_capacity(len);
                alt.extend_from_slice(&enc[..p]);
                alt.extend_from_slice(&enc[p + 4..p + 4 + l]);
                alt.extend_from_slice(&tail);
                alt.extend_from_slice(&enc[p + 4 + l..]);
                if alt != enc {
                    decodes += 1;
                    if check_bytes(e, &alt, "length prefix moved behind its field")? {
                        accepted += 1;
                    }
                }
            }
            ctx.label("perturbation:length-prefix-relocated");
        }
    }
    // --- truncations
    let cuts: Vec<usize> = if len <= 96 && !heavy {
        (0..len).collect()
    } else {
        let mut c = vec![0, 1.min(len), len / 2, len.saturating_sub(4), len.saturating_sub(2), len.saturating_sub(1)];
        for _ in 0..(if heavy { 2 } else { 10 }) {
            c.push(rng.below(len));
        }
        c
    };
    for c in cuts {
        decodes += 1;
        if check_bytes(e, &enc[..c], "truncation")? {
            accepted += 1;
            ctx.label("accepted:truncation");
        }
    }
    // --- extensions
    for tail in [&[0u8][..], &[1], &[0xff], &[0, 0, 0, 0], &[0, 0, 0, 1, 0]] {
        let mut ext = enc.to_vec();
        ext.extend_from_slice(tail);
        decodes += 1;
        if check_bytes(e, &ext, "extension")? {
            accepted += 1;
            ctx.label("accepted:extension");
        }
    }
    ctx.add_inner(decodes);
    for _ in 0..accepted {
        ctx.label("perturbed-encodings-accepted");
    }
    Ok(())
}

// ---------------------------------------------------------------------------
// sub-check 1: generated values of every registry type

pub fn case_values(bytes: &[u8], ctx: &mut Ctx) -> CaseResult {
    report_drift_once(ctx);
    let mut s = Src::new(bytes);
    let reg = registry();
    // uniform over the registry (two choice bytes; monotone, 0 = first entry)
    let e = &reg[(usize::from(s.u16()) * reg.len()) >> 16];
    let v = (e.generate)(&mut s);
    let gl = take_gen_labels();
    let enc = check_value(e, &*v, ctx)?;
    ctx.label(format!("type:{}", e.name));
    for l in gl {
        ctx.label(l);
    }
    let budget_us = if ctx.tier == Tier::Thorough { 120_000 } else { 60_000 };
    perturbations(e, &*v, &enc, budget_us, ctx)?;
    if enc.len() > 8 && e.variable_len() {
        let mut f = Fnv::new();
        f.write(e.name.as_bytes()).write(&[0]).write(&enc);
        ctx.nontrivial(f.finish());
    }
    ctx.render(|| format!("{} = {}  encoding({} bytes) = {}", e.name, v.debug(), enc.len(), hx(&enc)));
    ctx.ran_dry(s.ran_dry());
    Ok(())
}

// ---------------------------------------------------------------------------
// sub-check 2: the 7 valid v2 vectors in every container of ProofOfSpace

struct ForceVector<'a> {
    vector: &'a PosVector,
    challenge_seed: u64,
    n: u64,
}

impl Walker for ForceVector<'_> {
    fn pos(&mut self, p: &mut ProofOfSpace) {
        // challenge varied freely: it does not enter the quality string
        let ch: [u8; 32] = if self.challenge_seed == 0 {
            self.vector.challenge
        } else {
            vstream::gen::expand(self.challenge_seed.wrapping_add(self.n), 32).try_into().unwrap()
        };
        self.n += 1;
        *p = self.vector.make(Bytes32::new(ch));
    }
}

fn pos_containers() -> &'static Vec<usize> {
    static C: OnceLock<Vec<usize>> = OnceLock::new();
    C.get_or_init(|| {
        // registry entries that can embed a proof of space: a value generated
        // from a rich choice sequence reaches a ProofOfSpace when walked
        struct Count(usize);
        impl Walker for Count {
            fn pos(&mut self, _p: &mut ProofOfSpace) {
                self.0 += 1;
            }
        }
        let mut out = vec![];
        for (i, e) in registry().iter().enumerate() {
            if !e.has_fix {
                continue;
            }
            let mut hit = false;
            for seed in 1..=6u64 {
                let bytes = vstream::gen::expand(seed, 1500);
                let mut v = (e.generate)(&mut Src::new(&bytes));
                let mut c = Count(0);
                v.walk(&mut c);
                if c.0 > 0 {
                    hit = true;
                    break;
                }
            }
            let _ = take_gen_labels();
            if hit {
                out.push(i);
            }
        }
        out
    })
}

fn enum_vectors(tier: Tier, shard: usize, n: usize, emit: &mut dyn FnMut(&[u8]) -> bool) {
    let seeds: u8 = match tier {
        Tier::Quick => 6,
        Tier::Thorough => 60,
    };
    let mut idx = 0usize;
    for vi in 0..vectors().len() as u8 {
        for ci in 0..pos_containers().len() as u8 {
            for seed in 0..seeds {
                let mine = idx % n == shard;
                idx += 1;
                if mine && !emit(&[vi, ci, seed]) {
                    return;
                }
            }
        }
    }
}

/// bytes = [vector index, container index, seed]
pub fn case_vectors(bytes: &[u8], ctx: &mut Ctx) -> CaseResult {
    let mut s = Src::new(bytes);
    let (vi, ci, seed) = (s.u8() as usize, s.u8() as usize, u64::from(s.u8()));
    let vs = vectors();
    let cs = pos_containers();
    if vs.is_empty() || cs.is_empty() {
        ctx.discard();
        return Ok(());
    }
    let vector = &vs[vi % vs.len()];
    let e = &registry()[cs[ci % cs.len()]];
    // the container value comes from a deterministic choice sequence derived from the seed
    let choice = vstream::gen::expand(0x5eed_0000 + seed * 131 + ci as u64, 1400);
    let mut v = (e.generate)(&mut Src::new(&choice));
    let _ = take_gen_labels();
    let mut f = ForceVector { vector, challenge_seed: seed, n: 0 };
    v.walk(&mut f);
    if f.n == 0 {
        // this particular value embeds no proof (empty Vec / None)
        ctx.label("vector-container:no-proof-embedded");
        return Ok(());
    }
    let enc = check_value(e, &*v, ctx)?;
    match v.expected_hash(&enc) {
        HashExpect::Defined { source: HashSource::Vectors, v2_proofs, .. } => {
            vensure!(v2_proofs as u64 == f.n, "C13:harness:vector-count", "forced {} proofs, found {}", f.n, v2_proofs);
        }
        other => vfail!(
            "C13:harness:vector-not-recognised",
            "{}: forced vector {} not recognised by the hash rule: {other:?}",
            e.name,
            vector.name
        ),
    }
    // the vector's own commitment, as the code computes it
    if e.name == "ProofOfSpace" {
        let p = v.as_any().downcast_ref::<ProofOfSpace>().expect("ProofOfSpace entry");
        let q = p.quality_string().map(|q| q.to_bytes());
        vensure!(
            q == Some(vector.quality),
            "C13:hash:quality-string-differs-from-vector-file",
            "vector {}: quality_string() = {:?}, file says {}",
            vector.name,
            q.map(hex::encode),
            hex::encode(vector.quality)
        );
    }
    // canonicity around the valid encoding (sampled)
    perturbations(e, &*v, &enc, 40_000, ctx)?;
    ctx.label(format!("vector:{}", vector.name));
    ctx.label(format!("vector-container:{}", e.name));
    let mut fp = Fnv::new();
    fp.write(e.name.as_bytes()).write(&[0]).write(&enc);
    ctx.nontrivial(fp.finish());
    ctx.render(|| format!("vector {} in {} ({} proofs), encoding {} bytes: {}", vector.name, e.name, f.n, enc.len(), hx(&enc)));
    Ok(())
}

// ---------------------------------------------------------------------------
// long lists (see vstream::biglist)

fn big() -> &'static Vec<vstream::biglist::BigList> {
    static B: OnceLock<Vec<vstream::biglist::BigList>> = OnceLock::new();
    B.get_or_init(vstream::biglist::big_lists)
}

fn big_lengths(b: &vstream::biglist::BigList, tier: Tier) -> Vec<usize> {
    let wire = (b.more)(0, 1, 0).len();
    let heavy = !b.slow || tier == Tier::Thorough;
    vstream::biglist::lengths(b.elem_size_of, wire, heavy)
}

fn enum_big(tier: Tier, shard: usize, n: usize, emit: &mut dyn FnMut(&[u8]) -> bool) {
    let seeds: u8 = match tier {
        Tier::Quick => 1,
        Tier::Thorough => 5,
    };
    let mut idx = 0usize;
    for (li, b) in big().iter().enumerate() {
        for ni in 0..big_lengths(b, tier).len() as u8 {
            for seed in 0..seeds {
                // spread the expensive (long) cases over the shards
                let mine = idx % n == shard;
                idx += 1;
                if mine && !emit(&[li as u8, ni, seed, u8::from(tier == Tier::Thorough)]) {
                    return;
                }
            }
        }
    }
}

/// bytes = [list type, length index, seed, tier of the length table]
pub fn case_big(bytes: &[u8], ctx: &mut Ctx) -> CaseResult {
    let mut s = Src::new(bytes);
    let (li, ni, seed, th) = (s.u8() as usize, s.u8() as usize, u64::from(s.u8()), s.u8());
    let b = &big()[li % big().len()];
    let lens = big_lengths(b, if th & 1 == 1 { Tier::Thorough } else { Tier::Quick });
    let n = lens[ni % lens.len()];
    let e = &b.entry;
    let v = (b.make)(n, seed);
    let what = format!("{} with {n} elements (pre-allocation limit of the element type: {} elements), seed {seed}", b.name, if b.elem_size_of > 0 { (vstream::biglist::PREALLOC_BYTES / b.elem_size_of).to_string() } else { "none".into() });
    let enc = match v.to_bytes() {
        Ok(x) => x,
        Err(err) => vfail!(type_sig("encode:well-formed-value-rejected"), "{what}: to_bytes fails with {err:?}"),
    };
    ctx.add_inner(2);
    match (e.from_bytes)(&enc) {
        Ok(d) => {
            vensure!(d.eq_dyn(&*v), type_sig("roundtrip:from_bytes-differs"), "{what}: from_bytes(to_bytes(v)) != v; encoding {} bytes", enc.len());
            vensure!(
                d.to_bytes().ok().as_ref() == Some(&enc),
                type_sig("canonicity:valid-encoding-not-reproduced"),
                "{what}: to_bytes(from_bytes(b)) != b for b = to_bytes(v) ({} bytes)",
                enc.len()
            );
        }
        Err(err) => vfail!(
            type_sig("roundtrip:from_bytes-rejects-valid"),
            "{what}: from_bytes(to_bytes(v)) = Err({err:?}); encoding {} bytes",
            enc.len()
        ),
    }
    match (e.from_bytes_unchecked)(&enc) {
        Ok(d) => vensure!(d.eq_dyn(&*v), type_sig("roundtrip:from_bytes_unchecked-differs"), "{what}: from_bytes_unchecked(to_bytes(v)) != v"),
        Err(err) => vfail!(
            type_sig("roundtrip:from_bytes_unchecked-rejects-valid"),
            "{what}: from_bytes_unchecked(to_bytes(v)) = Err({err:?}); encoding {} bytes",
            enc.len()
        ),
    }
    // (3): none of these types embeds a proof of space
    {
        use sha2::{Digest, Sha256};
        let want: [u8; 32] = Sha256::digest(&enc).into();
        vensure!(v.hash() == want, type_sig("hash:differs-from-sha256-of-encoding"), "{what}: hash() != sha256(to_bytes(v))");
    }
    let thr = if b.elem_size_of > 0 { vstream::biglist::PREALLOC_BYTES / b.elem_size_of } else { usize::MAX };
    ctx.label(format!("big:{}", b.name));
    ctx.label(if n > thr {
        "big-length:above-prealloc-limit"
    } else if n == thr {
        "big-length:at-prealloc-limit"
    } else {
        "big-length:below-prealloc-limit"
    });
    if enc.len() > vstream::biglist::PREALLOC_BYTES {
        ctx.label("big-encoding:above-2MiB");
    }
    if n >= thr {
        let mut fp = Fnv::new();
        fp.write(b.name.as_bytes()).write_u64(n as u64).write_u64(seed);
        ctx.nontrivial(fp.finish());
    }
    ctx.render(|| format!("{what}: encoding {} bytes {}", enc.len(), hx(&enc)));
    Ok(())
}

pub fn run_main() {
    let prop = Property {
        id: "C13",
        rule: "values: a registry type chosen by the choice sequence (every Streamable type of chia-protocol, chia-bls, chia-consensus, chia-datalayer + primitive/combinator instantiations), a well-formed value (derived Arbitrary + fix-up of ProofOfSpace/FullBlock/UnfinishedBlock/Program, or hand-written generator), its encoding, then every single-byte perturbation (each position set to 0,1,2,3,4,0x7f,0x80,0xff,b±1; all positions up to 512 bytes, sampled beyond with bytes 0..=3 preferred), block perturbations, truncations and extensions. vectors: each of the 7 valid v2 proof-of-space vectors forced into every proof of every container type, challenge varied. NON-TRIVIAL = encoding longer than 8 bytes of a type whose encoding has an Option/Vec/version prefix (variable length); DISTINCT by (type, encoding). labels type:<T> count values per type; perturbed-encodings-accepted counts perturbed byte strings that decoded successfully (each re-encoded to the same bytes, agreed with the trusted decoder and hashed to sha256 of the bytes); inner_evaluations counts all perturbed decodes.",
        assumptions: &[
            "sha2 crate as the reference SHA-256",
            "for v2 proofs of space that are not one of the 7 repository vectors the commitment is taken from ProofOfSpace::quality_string() (the structure of the hash pre-image is still checked independently); values whose v2 proof yields no quality string have no defined hash: (3) is skipped for them and counted (hash:skipped-undefined-v2-proof; C14 finding F3)",
            "the position of a v2 proof inside a container encoding is found by flipping the proof bytes and re-encoding",
            "equality of values is the types' own PartialEq",
            "types declared in the tree without a registry entry are listed under labels types_uncovered:* (warning, not a violation)",
        ],
        death_is_violation: false,
        subchecks: vec![
            SubCheck {
                name: "values",
                about: "round trip, hash rule, canonicity under byte perturbations, trusted/untrusted agreement for generated values of every registry type",
                source: Source::Random { len: 1024, quick: 60_000, thorough: 1_200_000 },
                run: case_values,
                inflight: false,
                min_nontrivial: 18_000,
                required_labels: &[
                    "type:FullBlock",
                    "type:UnfinishedBlock",
                    "type:ProofOfSpace",
                    "type:Program",
                    "type:datalayer::ProofOfInclusion",
                    "type:OwnedSpendBundleConditions",
                    "pos:v1-format",
                    "pos:v2-vector",
                    "pos:v2-shaped",
                    "pos:v2-unshaped",
                    "block:v0",
                    "block:v1",
                    "program:backrefs",
                    "hash:plain",
                    "hash:v2-commitment-from-vector-files",
                    "hash:skipped-undefined-v2-proof",
                    "perturbed-encodings-accepted",
                    "g1:computed-infinity",
                    "g2:computed-infinity",
                    "perturbation:length-prefix-relocated",
                ],
            },
            SubCheck {
                name: "v2-vectors",
                about: "the 7 valid v2 proof-of-space vectors (commitment from the vector files) in every container type, challenge varied",
                source: Source::Enumerate { f: enum_vectors, exhaustive: false },
                run: case_vectors,
                inflight: false,
                min_nontrivial: 300,
                required_labels: &[
                    "vector:pool-2-0-0",
                    "vector:contract-2-0-0",
                    "vector:contract-3-0-0",
                    "vector:pool-3-0-0",
                    "vector:pool-2-1-0",
                    "vector:pool-2-0-1",
                    "vector:pool-2-1000-7",
                    "vector-container:FullBlock",
                    "vector-container:WeightProof",
                    "hash:v2-commitment-from-vector-files",
                ],
            },
            SubCheck {
                name: "big-lists",
                about: "round trip, canonical re-encoding, trusted/untrusted agreement and hash rule for lists whose length lies around the decoder's 2 MiB pre-allocation limit of their element type (in memory and in wire bytes) and multiples of it; 18 element types x {bare list, list followed by a field} + RespondToPhUpdates",
                source: Source::Enumerate { f: enum_big, exhaustive: false },
                run: case_big,
                inflight: false,
                min_nontrivial: 150,
                required_labels: &[
                    "big-length:above-prealloc-limit",
                    "big-length:at-prealloc-limit",
                    "big-length:below-prealloc-limit",
                    "big-encoding:above-2MiB",
                    "big:Vec<CoinState>",
                    "big:(Vec<Option<u64>>,u32)",
                    "big:RespondToPhUpdates.coin_states",
                    "big:Vec<G1Element>",
                ],
            },
        ],
    };
    engine::main(prop);
}
