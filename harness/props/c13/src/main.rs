fn main() {
    c13::run_main();
}
