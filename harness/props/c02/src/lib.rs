//! C02 — accepted bundles conserve value and never duplicate coins.
//! An invariant checked on *every accepted result* of every entry point; the
//! generators try to construct violations (sums past 2^64, wrapped totals,
//! off-by-one balance and fee, duplicate outputs up to hint, double spends).

use chia_bls::Signature;
use chia_consensus::conditions::{parse_spends, EmptyVisitor, MempoolVisitor};
use chia_consensus::consensus_constants::TEST_CONSTANTS;
use chia_consensus::flags::ConsensusFlags;
use chia_consensus::owned_conditions::OwnedSpendBundleConditions;
use chia_consensus::run_block_generator::{run_block_generator, run_block_generator2};
use chia_consensus::solution_generator::solution_generator;
use chia_consensus::spendbundle_conditions::run_spendbundle;
use chia_consensus::spendbundle_validation::validate_clvm_and_signature;
use clvmr::Allocator;
use vcore::condgen::{self, GenCfg};
use vcore::engine::{CaseResult, Ctx, Property, Source, SubCheck};
use vcore::gentree::{self, BuildMode, Tid, Tree};
use vcore::model::conditions as mc;
use vcore::proglevel;
use vcore::{vensure, vensure_eq, Fnv, Src};

/// the invariant of the property, on one accepted result
pub fn check_invariant(o: &OwnedSpendBundleConditions, entry: &str, inputs: Option<&[([u8; 32], [u8; 32], u64)]>) -> CaseResult {
    let mut removal: u128 = 0;
    let mut addition: u128 = 0;
    let mut ids = std::collections::BTreeSet::new();
    for (i, sp) in o.spends.iter().enumerate() {
        removal += u128::from(sp.coin_amount);
        let mut outs = std::collections::BTreeSet::new();
        for (ph, am, _hint) in &sp.create_coin {
            addition += u128::from(*am);
            vensure!(
                outs.insert((ph.as_slice().to_vec(), *am)),
                format!("C02:{entry}:duplicate-output-accepted"),
                "spend {i} creates two coins with the same puzzle hash and amount {am}"
            );
        }
        let pid: [u8; 32] = sp.parent_id.as_slice().try_into().unwrap();
        let ph: [u8; 32] = sp.puzzle_hash.as_slice().try_into().unwrap();
        let want = mc::coin_id(&pid, &ph, sp.coin_amount);
        vensure!(
            sp.coin_id.as_slice() == want,
            format!("C02:{entry}:coin-id-not-sha256-of-canonical-fields"),
            "spend {i}: reported coin id is not sha256(parent | puzzle hash | minimal amount {})",
            sp.coin_amount
        );
        vensure!(
            ids.insert(want),
            format!("C02:{entry}:coin-spent-twice-accepted"),
            "coin id of spend {i} appears twice in an accepted result"
        );
        if let Some(inp) = inputs {
            // the result may list the spends in another order than they were
            // offered (the generator builders reverse them): match by coin
            let same_coin: Vec<&([u8; 32], [u8; 32], u64)> = inp.iter().filter(|(ip, _, iam)| *ip == pid && *iam == sp.coin_amount).collect();
            vensure!(
                !same_coin.is_empty(),
                format!("C02:{entry}:spend-identity"),
                "spend {i}: reported parent/amount {} do not belong to any offered coin",
                sp.coin_amount
            );
            vensure!(
                same_coin.iter().any(|(_, iph, _)| *iph == ph),
                format!("C02:{entry}:puzzle-hash-not-tree-hash-of-reveal"),
                "spend {i}: reported puzzle hash is not the tree hash of the revealed puzzle"
            );
        }
    }
    if let Some(inp) = inputs {
        vensure_eq!(o.spends.len(), inp.len(), format!("C02:{entry}:spend-dropped"), "number of spends reported vs offered");
    }
    vensure_eq!(o.removal_amount, removal, format!("C02:{entry}:removal-total"), "removal_amount vs sum over listed spends");
    vensure_eq!(o.addition_amount, addition, format!("C02:{entry}:addition-total"), "addition_amount vs sum over listed outputs");
    vensure!(
        addition + u128::from(o.reserve_fee) <= removal,
        format!("C02:{entry}:value-not-conserved"),
        "created {addition} + reserved fee {} exceeds spent {removal}",
        o.reserve_fee
    );
    Ok(())
}

fn flags_for(s: &mut Src<'_>) -> ConsensusFlags {
    let mut f = ConsensusFlags::DONT_VALIDATE_SIGNATURE;
    let bits = s.below(16);
    if bits & 1 != 0 {
        f |= ConsensusFlags::NO_UNKNOWN_CONDS;
    }
    if bits & 2 != 0 {
        f |= ConsensusFlags::STRICT_ARGS_COUNT;
    }
    if bits & 4 != 0 {
        f |= ConsensusFlags::COST_CONDITIONS;
    }
    if bits & 8 != 0 {
        f |= ConsensusFlags::LIMIT_SPENDS;
    }
    f
}

const BIG: [u64; 8] = [
    u64::MAX,
    u64::MAX - 1,
    1 << 63,
    (1 << 63) + 1,
    (1 << 63) - 1,
    1 << 62,
    0xffff_ffff_0000_0000,
    0x8000_0000_8000_0000,
];

struct Frontier {
    tree: Tree,
    root: Tid,
    kind: &'static str,
    n_spends: usize,
    /// per spend: parent, puzzle hash, amount, puzzle node, condition list node
    spends: Vec<([u8; 32], [u8; 32], u64, Tid, Tid)>,
    sum_over_64_bits: bool,
    /// the true sum of all RESERVE_FEE conditions in the bundle
    fee_sum: u128,
}

fn split_amount(mut total: u128, s: &mut Src<'_>) -> Vec<u64> {
    let mut out = vec![];
    while total > 0 && out.len() < 40 {
        let max = total.min(u128::from(u64::MAX)) as u64;
        let piece = match s.below(4) {
            0 => max,
            1 => max / 2 + 1,
            2 => (max / 3).max(1),
            _ => max.min(1 + s.below(1000) as u64),
        };
        out.push(piece);
        total -= u128::from(piece);
    }
    if total > 0 {
        // leave the rest as fee (still conserving)
    }
    out
}

/// bundles at the frontier of the value rules
fn gen_frontier(s: &mut Src<'_>) -> Frontier {
    let mut t = Tree::new();
    let phs = condgen::tag_puzzle_hashes();
    let n_spends = match s.weighted(&[60, 80, 60, 40, 20, 1]) {
        0 => 1,
        1 => 2,
        2 => 3,
        3 => s.range(4, 8),
        4 => s.range(20, 60),
        _ => s.range(1000, 3000),
    };
    let many = n_spends > 100;
    let mut amounts: Vec<u64> = vec![];
    for _ in 0..n_spends {
        let a = if many {
            if s.chance(30) { u64::MAX } else { s.below(1000) as u64 }
        } else {
            match s.weighted(&[6, 3, 2, 2]) {
                0 => *s.pick(&BIG),
                1 => s.below(1000) as u64,
                2 => condgen::interesting_u64(s),
                _ => 0,
            }
        };
        amounts.push(a);
    }
    let total_in: u128 = amounts.iter().map(|a| u128::from(*a)).sum();
    let kind_idx = s.weighted(&[80, 60, 60, 60, 80, 40, 40, 40, 30, 40, 3]);
    let kinds = [
        "exact-balance",
        "mint-by-one",
        "exact-fee",
        "fee-one-too-many",
        "wrapped-output-sum",
        "wrapped-fee-sum",
        "duplicate-output-differing-hint",
        "same-coin-twice",
        "surplus",
        "same-coin-twice-padded-amount",
        "many-outputs-in-one-spend",
    ];
    let kind = kinds[kind_idx];
    // outputs: (amount) list and fees
    let mut outs: Vec<u64> = vec![];
    let mut fees: Vec<u64> = vec![];
    match kind_idx {
        0 => outs = split_amount(total_in, s),
        1 => {
            outs = split_amount(total_in, s);
            let placed: u128 = outs.iter().map(|a| u128::from(*a)).sum();
            // total_in - placed is an implicit fee; mint exactly one more than affordable
            let extra = total_in - placed + 1;
            outs.extend(split_amount(extra, s));
        }
        2 => {
            let fee = (total_in / 3).min(u128::from(u64::MAX)) as u64;
            outs = split_amount(total_in - u128::from(fee), s);
            let placed: u128 = outs.iter().map(|a| u128::from(*a)).sum();
            let surplus = total_in - placed;
            // reserve exactly the surplus (may need several conditions)
            fees = split_amount(surplus.min(u128::from(u64::MAX)), s);
            let fsum: u128 = fees.iter().map(|a| u128::from(*a)).sum();
            if fsum != surplus.min(u128::from(u64::MAX)) {
                fees.clear();
                fees.push(surplus.min(u128::from(u64::MAX)) as u64);
            }
        }
        3 => {
            let keep = total_in / 2;
            outs = split_amount(keep, s);
            let placed: u128 = outs.iter().map(|a| u128::from(*a)).sum();
            let surplus = total_in - placed;
            if surplus < u128::from(u64::MAX) {
                fees.push(surplus as u64 + 1);
            } else {
                fees.push(u64::MAX);
                fees.push(1);
            }
        }
        4 => {
            // true sum exceeds the inputs, but the sum modulo 2^64 does not
            let target = (total_in & u128::from(u64::MAX)) as u64;
            let t = if target == 0 { 0 } else { s.below(target.min(1000) as usize + 1) as u64 };
            let o1 = u64::MAX - s.below(1000) as u64;
            let o2 = t.wrapping_sub(o1);
            outs.push(o1);
            outs.push(o2);
            if total_in >= u128::from(o1) + u128::from(o2) {
                // inputs are large enough that this is affordable: add a full wrap
                outs.push(u64::MAX);
                outs.push(1);
            }
        }
        5 => {
            outs = split_amount(total_in / 2, s);
            fees.push(u64::MAX);
            fees.push(s.below(5) as u64 + 1);
        }
        6 => {
            let a = (total_in / 4).min(u128::from(u64::MAX)) as u64;
            outs.push(a);
            outs.push(a);
        }
        7 | 9 => {}
        10 => {
            // 1000..2600 small outputs, all created by the first spend (an airdrop / payout)
            let n = 1000 + s.below(1600);
            let per = ((total_in / (n as u128 + 1)).min(1000)) as u64;
            outs = vec![per; n];
        }
        _ => outs = split_amount(total_in / 2, s),
    }
    // ---- build
    let mut conds: Vec<Vec<Tid>> = vec![vec![]; n_spends];
    let mut hint_toggle = false;
    for (k, am) in outs.iter().enumerate() {
        let target = if kind_idx == 10 { 0 } else { s.below(n_spends) };
        let op = t.atom(&[51]);
        let mut ph = [0x51u8; 32];
        if kind_idx == 6 {
            // identical puzzle hash and amount, in the same spend, hints differ
            let opn = t.atom(&[51]);
            let phn = t.atom(&ph);
            let amn = t.int(u128::from(*am));
            let node = if hint_toggle {
                let h = t.atom(&[0xab; 32]);
                let memos = t.list(&[h]);
                t.list(&[opn, phn, amn, memos])
            } else {
                t.list(&[opn, phn, amn])
            };
            hint_toggle = !hint_toggle;
            conds[0].push(node);
            continue;
        }
        ph[28..32].copy_from_slice(&(k as u32).to_be_bytes());
        let phn = t.atom(&ph);
        let amn = t.int(u128::from(*am));
        conds[target].push(t.list(&[op, phn, amn]));
    }
    for f in &fees {
        let target = s.below(n_spends);
        let op = t.atom(&[52]);
        let a = t.int(u128::from(*f));
        conds[target].push(t.list(&[op, a]));
    }
    let mut spends = vec![];
    let mut nodes = vec![];
    for i in 0..n_spends {
        let mut parent = [0x41u8; 32];
        parent[28..32].copy_from_slice(&(i as u32).to_be_bytes());
        let tag = (i % condgen::NUM_TAGS) as u8 + 1;
        let ph = phs[(tag - 1) as usize];
        let cl = t.list(&conds[i]);
        let pz = condgen::tagged_identity(&mut t, tag);
        let pa = t.atom(&parent);
        let phn = t.atom(&ph);
        let am = t.int(u128::from(amounts[i]));
        nodes.push(t.list(&[pa, phn, am, cl]));
        spends.push((parent, ph, amounts[i], pz, cl));
    }
    if kind_idx == 7 || kind_idx == 9 {
        // the same coin at a second position (with other conditions); in the
        // padded variant its amount is written with redundant leading zeros, up
        // to the full 9 bytes an 8-byte value with sign byte may occupy
        let k = s.below(n_spends);
        let (parent, ph, am, pz, _) = spends[k];
        let cl = t.nil();
        let pa = t.atom(&parent);
        let phn = t.atom(&ph);
        let amn = if kind_idx == 9 {
            let canon = vcore::model::int::enc_u64(am);
            let total = match s.below(4) {
                0 => canon.len() + 1,
                1 => 9,
                2 => 10,
                _ => canon.len() + 1 + s.below(9),
            };
            let mut b = vec![0u8; total.saturating_sub(canon.len()).max(1)];
            b.extend_from_slice(&canon);
            t.atom(&b)
        } else {
            t.int(u128::from(am))
        };
        let node = t.list(&[pa, phn, amn, cl]);
        let pos = s.below(nodes.len() + 1);
        nodes.insert(pos, node);
        spends.insert(pos, (parent, ph, am, pz, cl));
    }
    let sl = t.list(&nodes);
    let nil = t.nil();
    let root = t.pair(sl, nil);
    Frontier {
        tree: t,
        root,
        kind,
        n_spends: spends.len(),
        spends,
        sum_over_64_bits: total_in > u128::from(u64::MAX),
        fee_sum: fees.iter().map(|f| u128::from(*f)).sum(),
    }
}

pub fn case_parse_frontier(bytes: &[u8], ctx: &mut Ctx) -> CaseResult {
    let mut s = Src::new(bytes);
    let flags = flags_for(&mut s);
    let mempool = s.bool();
    let mode = BuildMode::from_src(&mut s);
    let f = gen_frontier(&mut s);
    ctx.ran_dry(s.ran_dry());
    let mut a = Allocator::new();
    let root = gentree::build(&mut a, &f.tree, f.root, mode);
    let sig = Signature::default();
    let r = if mempool {
        parse_spends::<MempoolVisitor>(&a, root, u64::MAX / 2, 0, flags, &sig, None, &TEST_CONSTANTS)
    } else {
        parse_spends::<EmptyVisitor>(&a, root, u64::MAX / 2, 0, flags, &sig, None, &TEST_CONSTANTS)
    };
    ctx.render(|| format!("kind={} spends={} flags={flags:?} tree={}", f.kind, f.n_spends, f.tree.render(f.root)));
    ctx.label(format!("kind:{}", f.kind));
    if f.sum_over_64_bits {
        ctx.label("sum-exceeds-64-bits");
    }
    if f.n_spends >= 1000 {
        ctx.label("spends>=1000");
    }
    match r {
        Err(_) => ctx.label(format!("rejected:{}", f.kind)),
        Ok(c) => {
            ctx.label(format!("accepted:{}", f.kind));
            let o = OwnedSpendBundleConditions::from(&a, c);
            check_invariant(&o, "parse_spends", None)?;
            // the reserved fee is the sum of all RESERVE_FEE conditions (the
            // generator knows them): it must not be reported wrapped or saturated
            vensure!(
                u128::from(o.reserve_fee) == f.fee_sum,
                "C02:parse_spends:reserved-fee-not-the-sum-of-its-conditions",
                "reported reserve_fee {} but the RESERVE_FEE conditions add up to {}",
                o.reserve_fee,
                f.fee_sum
            );
            if o.spends.len() >= 2 || o.spends.iter().any(|s| !s.create_coin.is_empty()) {
                let mut h = Fnv::new();
                h.write(&f.tree.serialize(f.root));
                h.write_u64(u64::from(flags.bits()));
                ctx.nontrivial(h.finish());
                if f.sum_over_64_bits {
                    ctx.label("accepted:sum-exceeds-64-bits");
                }
            }
        }
    }
    Ok(())
}

pub fn case_parse_standard(bytes: &[u8], ctx: &mut Ctx) -> CaseResult {
    let mut s = Src::new(bytes);
    let flags = flags_for(&mut s);
    let mempool = s.bool();
    let mode = BuildMode::from_src(&mut s);
    let mut cfg = GenCfg::standard();
    cfg.careful_rate = 160;
    let b = condgen::gen_bundle(&mut s, &cfg);
    ctx.ran_dry(s.ran_dry());
    let mut a = Allocator::new();
    let root = gentree::build(&mut a, &b.tree, b.root, mode);
    let sig = Signature::default();
    let r = if mempool {
        parse_spends::<MempoolVisitor>(&a, root, u64::MAX / 2, 0, flags, &sig, None, &TEST_CONSTANTS)
    } else {
        parse_spends::<EmptyVisitor>(&a, root, u64::MAX / 2, 0, flags, &sig, None, &TEST_CONSTANTS)
    };
    ctx.render(|| format!("flags={flags:?} tree={}", b.tree.render(b.root)));
    match r {
        Err(_) => ctx.label("rejected"),
        Ok(c) => {
            ctx.label("accepted");
            let o = OwnedSpendBundleConditions::from(&a, c);
            check_invariant(&o, "parse_spends", None)?;
            if o.spends.len() >= 2 || o.spends.iter().any(|s| !s.create_coin.is_empty()) {
                let mut h = Fnv::new();
                h.write(&b.tree.serialize(b.root));
                h.write_u64(u64::from(flags.bits()));
                ctx.nontrivial(h.finish());
            }
        }
    }
    Ok(())
}

/// the four program-level entry points on the same bundle
pub fn case_program(bytes: &[u8], ctx: &mut Ctx) -> CaseResult {
    let mut s = Src::new(bytes);
    let fl = proglevel::flag_set(s.below(proglevel::NUM_FLAG_SETS));
    let use_frontier = s.bool();
    let (mut coin_spends, mut inputs, desc): (Vec<chia_protocol::CoinSpend>, Vec<([u8; 32], [u8; 32], u64)>, String) = if use_frontier {
        let f = gen_frontier(&mut s);
        // keep program-level cases moderate
        let take = f.spends.len().min(400);
        let cs = f.spends[..take]
            .iter()
            .map(|(p, ph, am, pz, cl)| proglevel::coin_spend(&f.tree, *p, *ph, *am, *pz, *cl))
            .collect();
        let inp = f.spends[..take].iter().map(|(p, ph, am, _, _)| (*p, *ph, *am)).collect();
        ctx.label(format!("kind:{}", f.kind));
        (cs, inp, format!("frontier kind={} tree={}", f.kind, f.tree.render(f.root)))
    } else {
        let mut cfg = GenCfg::standard();
        cfg.shape_mutations = false;
        cfg.huge = false;
        cfg.careful_rate = 170;
        let b = condgen::gen_bundle(&mut s, &cfg);
        let inp = b.spends.iter().map(|sp| (sp.parent, sp.puzzle_hash, sp.amount)).collect();
        (proglevel::coin_spends(&b), inp, format!("bundle tree={}", b.tree.render(b.root)))
    };
    // one case in twelve: a spend of the STANDARD transaction puzzle (the module
    // of chia-puzzles curried with a pool key; solution (() (q . conditions) ())),
    // genuine or with the curried environment taken from another path of the
    // solution — `(a (q . MOD) (c (q . KEY) p))` for p in {2, 3, 5, 7} instead of 1,
    // with the solution wrapped so that path p holds the genuine solution. Such a
    // reveal differs from the genuine one only in its last bytes, RUNS exactly like
    // it and emits the same conditions, but it is a different program: its coin
    // keeps claiming the genuine puzzle hash. (Real-world puzzles are the inputs a
    // pattern-matching fast path would be written for.)
    if coin_spends.len() <= 60 && s.chance(21) {
        let path = [1u8, 1, 2, 3, 5, 7][s.below(6)];
        let key = condgen::key_pool().pks[s.below(condgen::NUM_KEYS)];
        let mut t = Tree::new();
        let mk = |t: &mut Tree, path: u8| -> Tid {
            // (a (q . MOD) (c (q . KEY) path))
            let mut al = Allocator::new();
            let m = clvmr::serde::node_from_bytes(&mut al, &chia_puzzles::P2_DELEGATED_PUZZLE_OR_HIDDEN_PUZZLE).expect("module");
            let (mt, mroot) = Tree::from_allocator(&al, m, 100_000).expect("module tree");
            // copy the module into t
            fn copy(src: &Tree, id: Tid, dst: &mut Tree) -> Tid {
                match src.get(id).clone() {
                    gentree::TNode::Atom(b) => dst.atom(&b),
                    gentree::TNode::Pair(l, r) => {
                        let l2 = copy(src, l, dst);
                        let r2 = copy(src, r, dst);
                        dst.pair(l2, r2)
                    }
                }
            }
            let module = copy(&mt, mroot, t);
            let q = t.atom(&[1]);
            let qm = t.pair(q, module);
            let k = t.atom(&key);
            let qk = t.pair(q, k);
            let c = t.atom(&[4]);
            let pa = t.atom(&[path]);
            let env = t.list(&[c, qk, pa]);
            let a2 = t.atom(&[2]);
            t.list(&[a2, qm, env])
        };
        let genuine = mk(&mut t, 1);
        let genuine_ph = vcore::model::treehash::tree_hash(&t, genuine);
        let reveal = mk(&mut t, path);
        let reveal_ph = vcore::model::treehash::tree_hash(&t, reveal);
        // the genuine solution: (() (q . ((51 ph 400))) ())
        let amount = 1000 + s.below(7) as u64 * 2;
        let nil = t.nil();
        let cc = t.atom(&[51]);
        let ph = t.atom(&[0x6b; 32]);
        let am = t.int(400);
        let cond = t.list(&[cc, ph, am]);
        let conds = t.list(&[cond]);
        let q = t.atom(&[1]);
        let delegated = t.pair(q, conds);
        let sol = t.list(&[nil, delegated, nil]);
        let junk = t.atom(b"junk");
        let wrapped = match path {
            1 => sol,
            2 => t.pair(sol, junk),
            3 => t.pair(junk, sol),
            5 => {
                let r = t.pair(sol, junk);
                t.pair(junk, r)
            }
            _ => {
                let r = t.pair(junk, sol);
                t.pair(junk, r)
            }
        };
        let mut parent = [0x5du8; 32];
        parent[31] = path;
        coin_spends.push(chia_protocol::CoinSpend::new(
            chia_protocol::Coin::new(parent.into(), genuine_ph.into(), amount),
            chia_protocol::Program::from(t.serialize(reveal)),
            chia_protocol::Program::from(t.serialize(wrapped)),
        ));
        inputs.push((parent, reveal_ph, amount));
        ctx.label(if path == 1 { "standard-puzzle:genuine" } else { "standard-puzzle:environment-path-shifted" });
    }
    // one case in ten: the reveal of one spend is replaced by a DIFFERENT puzzle
    // while its coin keeps claiming the old puzzle hash — preferably a spend whose
    // predecessor claims (truthfully) the very same hash. The mempool entry points
    // have to refuse it; the block paths derive the hash from the reveal. `inputs`
    // holds the tree hash of what is actually revealed.
    let mut swapped: Option<usize> = None;
    if !coin_spends.is_empty() && coin_spends.len() <= 60 && s.chance(26) {
        let n = coin_spends.len();
        let twins: Vec<usize> = (1..n).filter(|i| coin_spends[*i].coin.puzzle_hash == coin_spends[*i - 1].coin.puzzle_hash).collect();
        let i = if !twins.is_empty() && s.chance(200) { twins[s.below(twins.len())] } else { s.below(n) };
        let claimed: [u8; 32] = coin_spends[i].coin.puzzle_hash.as_slice().try_into().unwrap();
        let phs = condgen::tag_puzzle_hashes();
        let start = s.below(condgen::NUM_TAGS);
        if let Some(tg) = (0..condgen::NUM_TAGS).map(|k| (start + k) % condgen::NUM_TAGS).find(|k| phs[*k] != claimed) {
            let mut t = Tree::new();
            let pz = condgen::tagged_identity(&mut t, tg as u8 + 1);
            coin_spends[i].puzzle_reveal = chia_protocol::Program::from(t.serialize(pz));
            inputs[i].1 = phs[tg];
            swapped = Some(i);
            ctx.label(if twins.contains(&i) { "reveal-swapped:predecessor-claims-the-same-hash" } else { "reveal-swapped" });
        }
    }
    ctx.ran_dry(s.ran_dry());
    ctx.render(|| format!("flags={fl:?} reveal swapped at {swapped:?} {desc}"));
    let nosig = fl | ConsensusFlags::DONT_VALIDATE_SIGNATURE;
    let max_cost = u64::MAX / 4;
    let sig = Signature::default();
    let mut fp = Fnv::new();
    for cs in &coin_spends {
        fp.write(cs.coin.parent_coin_info.as_slice()).write_u64(cs.coin.amount).write(cs.solution.as_slice());
    }
    fp.write_u64(u64::from(fl.bits()));
    let mut accepted_any = false;

    // the generator a farmer would build
    let generator = solution_generator(coin_spends.iter().map(|cs| (cs.coin, cs.puzzle_reveal.as_slice(), cs.solution.as_slice()))).expect("solution_generator");
    let no_refs: Vec<Vec<u8>> = vec![];

    match run_block_generator2(&generator, &no_refs, max_cost, nosig, &sig, None, &TEST_CONSTANTS) {
        Err(_) => ctx.label("rbg2:rejected"),
        Ok((a, c)) => {
            ctx.label("rbg2:accepted");
            let o = proglevel::owned(&a, c);
            check_invariant(&o, "run_block_generator2", Some(&inputs))?;
            accepted_any = true;
        }
    }
    if coin_spends.len() <= 60 {
        match run_block_generator(&generator, &no_refs, max_cost, nosig, &sig, None, &TEST_CONSTANTS) {
            Err(_) => ctx.label("rbg:rejected"),
            Ok((a, c)) => {
                ctx.label("rbg:accepted");
                let o = proglevel::owned(&a, c);
                check_invariant(&o, "run_block_generator", Some(&inputs))?;
                accepted_any = true;
            }
        }
    }
    let bundle = proglevel::spend_bundle(coin_spends.clone(), &sig);
    let mut a = Allocator::new();
    match run_spendbundle(&mut a, &bundle, max_cost, nosig, &TEST_CONSTANTS) {
        Err(_) => ctx.label("run_spendbundle:rejected"),
        Ok((c, _pairs)) => {
            ctx.label("run_spendbundle:accepted");
            let o = proglevel::owned(&a, c);
            check_invariant(&o, "run_spendbundle", Some(&inputs))?;
            accepted_any = true;
        }
    }
    // mempool pre-validation with a real signature over the pairs it reports
    if s.chance(40) || coin_spends.len() <= 3 {
        let mut a2 = Allocator::new();
        if let Ok((_, pairs)) = run_spendbundle(&mut a2, &bundle, max_cost, fl, &TEST_CONSTANTS) {
            let raw: Vec<(Vec<u8>, Vec<u8>)> = pairs.iter().map(|(k, m)| (k.to_bytes().to_vec(), m.as_slice().to_vec())).collect();
            if let Some(good) = condgen::sign_pairs(&raw) {
                let signed = proglevel::spend_bundle(coin_spends.clone(), &good);
                match validate_clvm_and_signature(&signed, max_cost, &TEST_CONSTANTS, fl) {
                    Err(e) => {
                        ctx.label(format!("validate:rejected:{e:?}"));
                    }
                    Ok((mut o, _)) => {
                        ctx.label("validate:accepted");
                        for sp in &mut o.spends {
                            sp.create_coin.sort();
                        }
                        check_invariant(&o, "validate_clvm_and_signature", Some(&inputs))?;
                        accepted_any = true;
                    }
                }
            }
        }
    }
    if accepted_any && (coin_spends.len() >= 2 || !generator.is_empty()) {
        ctx.nontrivial(fp.finish());
    }
    Ok(())
}

pub fn property() -> Property {
    Property {
        id: "C02",
        rule: "cases are (a) 'frontier' bundles built to violate the value rules: amounts from {2^64-1, 2^63±1, …} so that sums need 65+ bits, exact balance, balance+1, exact fee, fee+1, outputs whose sum modulo 2^64 is affordable while the true sum is not, reserve fees summing past 2^64, duplicate outputs differing only in hint, the same coin at two positions, 1..3000 spends; (b) bundles from the shared generator; each run through parse_spends (both visitors, all strictness/fork flags) and — as CoinSpends with tagged-identity puzzles — through run_block_generator, run_block_generator2, run_spendbundle and validate_clvm_and_signature (signed by the harness). The invariant is asserted on every Ok. Non-trivial = an accepted result with ≥2 spends or ≥1 created coin; distinct by (tree/coin spends, flags).",
        assumptions: &[
            "the invariant is only checked on accepted results; that violating bundles are rejected follows because an acceptance would break the invariant",
            "program-level puzzle hashes are compared with the harness's reference tree hash of the revealed puzzle",
        ],
        subchecks: vec![
            SubCheck {
                name: "parse-frontier",
                about: "frontier bundles at parse_spends",
                source: Source::Random { len: 1024, quick: 300_000, thorough: 8_000_000 },
                run: case_parse_frontier,
                inflight: false,
                min_nontrivial: 20_000,
                required_labels: &["accepted:exact-balance", "accepted:exact-fee", "rejected:mint-by-one", "rejected:fee-one-too-many", "rejected:wrapped-output-sum", "rejected:wrapped-fee-sum", "rejected:duplicate-output-differing-hint", "rejected:same-coin-twice", "rejected:same-coin-twice-padded-amount", "accepted:many-outputs-in-one-spend", "accepted:sum-exceeds-64-bits", "spends>=1000"],
            },
            SubCheck {
                name: "parse-standard",
                about: "shared-generator bundles at parse_spends",
                source: Source::Random { len: 1536, quick: 300_000, thorough: 8_000_000 },
                run: case_parse_standard,
                inflight: false,
                min_nontrivial: 20_000,
                required_labels: &["accepted", "rejected"],
            },
            SubCheck {
                name: "program-entry-points",
                about: "run_block_generator, run_block_generator2, run_spendbundle, validate_clvm_and_signature on the same coin spends",
                source: Source::Random { len: 1536, quick: 300_000, thorough: 6_000_000 },
                run: case_program,
                inflight: false,
                min_nontrivial: 30_000,
                required_labels: &["rbg2:accepted", "rbg:accepted", "run_spendbundle:accepted", "validate:accepted", "reveal-swapped", "reveal-swapped:predecessor-claims-the-same-hash", "standard-puzzle:genuine", "standard-puzzle:environment-path-shifted"],
            },
        ],
        death_is_violation: false,
    }
}
