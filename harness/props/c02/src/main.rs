fn main() {
    vcore::engine::main(c02::property());
}
