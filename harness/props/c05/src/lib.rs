//! C05 — signature acceptance binds each AGG_SIG condition to its
//! domain-separated text.
//!
//! The harness owns the secret keys. For a generated bundle it computes, from
//! its *own* table (opcode -> appended coin attributes, then the network's
//! constant for that opcode), the `(public key, final message)` pairs the rules
//! prescribe, signs them and aggregates. Then
//!  (c) what `run_spendbundle` reports as verified pairs and what
//!      `make_aggsig_final_message` recomputes must both be that multiset;
//!  (a) the correctly signed bundle is accepted at every entry point, with and
//!      without a pairing cache (cold, warm, filled from pre-validation);
//!  (b) every single-point tampering (of the signature, a key, a message byte,
//!      a coin attribute, the opcode, the domain constant, the network) that
//!      changes the multiset is rejected, at >= 2 entry points incl. a cache path;
//!  (d) banned AGG_SIG_UNSAFE suffixes and unacceptable keys are rejected
//!      whatever the signature is; near misses are not.

use chia_bls::{sign, BlsCache, PublicKey, Signature};
use chia_consensus::conditions::{parse_spends, EmptyVisitor, MempoolVisitor};
use chia_consensus::consensus_constants::{ConsensusConstants, TEST_CONSTANTS};
use chia_consensus::flags::ConsensusFlags;
use chia_consensus::make_aggsig_final_message::make_aggsig_final_message;
use chia_consensus::owned_conditions::OwnedSpendBundleConditions;
use chia_consensus::run_block_generator::{run_block_generator, run_block_generator2};
use chia_consensus::solution_generator::solution_generator;
use chia_consensus::spendbundle_conditions::run_spendbundle;
use chia_consensus::spendbundle_validation::validate_clvm_and_signature;
use chia_protocol::{Bytes32, CoinSpend, SpendBundle};
use clvmr::Allocator;
use std::collections::BTreeMap;
use std::sync::OnceLock;
use vcore::condgen;
use vcore::engine::{CaseResult, Ctx, Property, Source, SubCheck, Tier};
use vcore::gentree::{self, BuildMode, Tid, Tree};
use vcore::model::conditions as mc;
use vcore::model::int::enc_u64;
use vcore::proglevel;
use vcore::{vensure, vfail, Fnv, Src};

// ---------------------------------------------------------------------------
// the rules, as the harness states them

/// the 8 signature opcodes; index 0 is the simplest choice
pub const OPS: [u16; 8] = [
    mc::AGG_SIG_ME,
    mc::AGG_SIG_UNSAFE,
    mc::AGG_SIG_PARENT,
    mc::AGG_SIG_PUZZLE,
    mc::AGG_SIG_AMOUNT,
    mc::AGG_SIG_PUZZLE_AMOUNT,
    mc::AGG_SIG_PARENT_AMOUNT,
    mc::AGG_SIG_PARENT_PUZZLE,
];

pub fn op_name(op: u16) -> &'static str {
    match op {
        mc::AGG_SIG_PARENT => "AGG_SIG_PARENT",
        mc::AGG_SIG_PUZZLE => "AGG_SIG_PUZZLE",
        mc::AGG_SIG_AMOUNT => "AGG_SIG_AMOUNT",
        mc::AGG_SIG_PUZZLE_AMOUNT => "AGG_SIG_PUZZLE_AMOUNT",
        mc::AGG_SIG_PARENT_AMOUNT => "AGG_SIG_PARENT_AMOUNT",
        mc::AGG_SIG_PARENT_PUZZLE => "AGG_SIG_PARENT_PUZZLE",
        mc::AGG_SIG_UNSAFE => "AGG_SIG_UNSAFE",
        mc::AGG_SIG_ME => "AGG_SIG_ME",
        _ => "?",
    }
}

fn uses_parent(op: u16) -> bool {
    matches!(op, mc::AGG_SIG_ME | mc::AGG_SIG_PARENT | mc::AGG_SIG_PARENT_AMOUNT | mc::AGG_SIG_PARENT_PUZZLE)
}
fn uses_puzzle(op: u16) -> bool {
    matches!(op, mc::AGG_SIG_ME | mc::AGG_SIG_PUZZLE | mc::AGG_SIG_PUZZLE_AMOUNT | mc::AGG_SIG_PARENT_PUZZLE)
}
fn uses_amount(op: u16) -> bool {
    matches!(op, mc::AGG_SIG_ME | mc::AGG_SIG_AMOUNT | mc::AGG_SIG_PUZZLE_AMOUNT | mc::AGG_SIG_PARENT_AMOUNT)
}

/// coin attributes an opcode appends to the message (before the constant)
pub fn coin_attrs(op: u16, parent: &[u8; 32], ph: &[u8; 32], amount: u64) -> Vec<u8> {
    let mut v = Vec::new();
    match op {
        mc::AGG_SIG_ME => v.extend_from_slice(&mc::coin_id(parent, ph, amount)),
        mc::AGG_SIG_PARENT => v.extend_from_slice(parent),
        mc::AGG_SIG_PUZZLE => v.extend_from_slice(ph),
        mc::AGG_SIG_AMOUNT => v.extend_from_slice(&enc_u64(amount)),
        mc::AGG_SIG_PUZZLE_AMOUNT => {
            v.extend_from_slice(ph);
            v.extend_from_slice(&enc_u64(amount));
        }
        mc::AGG_SIG_PARENT_AMOUNT => {
            v.extend_from_slice(parent);
            v.extend_from_slice(&enc_u64(amount));
        }
        mc::AGG_SIG_PARENT_PUZZLE => {
            v.extend_from_slice(parent);
            v.extend_from_slice(ph);
        }
        _ => {}
    }
    v
}

/// a network: the consensus constants handed to the code under test and the
/// harness's own opcode -> domain constant table (index = opcode - 43)
pub struct Net {
    pub name: &'static str,
    pub consts: ConsensusConstants,
    pub table: [Option<[u8; 32]>; 8],
}

impl Net {
    pub fn domain(&self, op: u16) -> Option<[u8; 32]> {
        self.table[(op - 43) as usize]
    }
    pub fn all_domains(&self) -> Vec<[u8; 32]> {
        self.table.iter().flatten().copied().collect()
    }
    pub fn final_message(&self, op: u16, msg: &[u8], parent: &[u8; 32], ph: &[u8; 32], amount: u64) -> Vec<u8> {
        self.final_message_under(op, op, msg, parent, ph, amount)
    }
    /// coin attributes of `op`, domain constant of `dom_op`
    pub fn final_message_under(&self, op: u16, dom_op: u16, msg: &[u8], parent: &[u8; 32], ph: &[u8; 32], amount: u64) -> Vec<u8> {
        let mut m = msg.to_vec();
        m.extend_from_slice(&coin_attrs(op, parent, ph, amount));
        if let Some(d) = self.domain(dom_op) {
            m.extend_from_slice(&d);
        }
        m
    }
}

fn b32(x: &Bytes32) -> [u8; 32] {
    x.as_slice().try_into().expect("32 bytes")
}

fn table_of(c: &ConsensusConstants) -> [Option<[u8; 32]>; 8] {
    [
        Some(b32(&c.agg_sig_parent_additional_data)),        // 43
        Some(b32(&c.agg_sig_puzzle_additional_data)),        // 44
        Some(b32(&c.agg_sig_amount_additional_data)),        // 45
        Some(b32(&c.agg_sig_puzzle_amount_additional_data)), // 46
        Some(b32(&c.agg_sig_parent_amount_additional_data)), // 47
        Some(b32(&c.agg_sig_parent_puzzle_additional_data)), // 48
        None,                                                // 49 AGG_SIG_UNSAFE
        Some(b32(&c.agg_sig_me_additional_data)),            // 50
    ]
}

pub const NUM_NETS: usize = 3;

/// 0: TEST_CONSTANTS; 1: fresh distinct constants; 2: TEST_CONSTANTS' seven
/// values rotated by one opcode (same set of values, other assignment)
pub fn nets() -> &'static [Net; NUM_NETS] {
    static NETS: OnceLock<[Net; NUM_NETS]> = OnceLock::new();
    NETS.get_or_init(|| {
        let test = TEST_CONSTANTS.clone();
        let mut alt = TEST_CONSTANTS.clone();
        let h = |name: &str| Bytes32::new(condgen::sha(&[b"C05 alternative network/", name.as_bytes()]));
        alt.agg_sig_me_additional_data = h("me");
        alt.agg_sig_parent_additional_data = h("parent");
        alt.agg_sig_puzzle_additional_data = h("puzzle");
        alt.agg_sig_amount_additional_data = h("amount");
        alt.agg_sig_puzzle_amount_additional_data = h("puzzle_amount");
        alt.agg_sig_parent_amount_additional_data = h("parent_amount");
        alt.agg_sig_parent_puzzle_additional_data = h("parent_puzzle");
        let mut rot = TEST_CONSTANTS.clone();
        rot.agg_sig_me_additional_data = test.agg_sig_parent_additional_data;
        rot.agg_sig_parent_additional_data = test.agg_sig_puzzle_additional_data;
        rot.agg_sig_puzzle_additional_data = test.agg_sig_amount_additional_data;
        rot.agg_sig_amount_additional_data = test.agg_sig_puzzle_amount_additional_data;
        rot.agg_sig_puzzle_amount_additional_data = test.agg_sig_parent_amount_additional_data;
        rot.agg_sig_parent_amount_additional_data = test.agg_sig_parent_puzzle_additional_data;
        rot.agg_sig_parent_puzzle_additional_data = test.agg_sig_me_additional_data;
        let mk = |name, consts: ConsensusConstants| {
            let table = table_of(&consts);
            Net { name, consts, table }
        };
        [mk("test", test), mk("alt", alt), mk("rotated", rot)]
    })
}

// ---------------------------------------------------------------------------
// the case: a bundle of spends with AGG_SIG conditions

#[derive(Clone, Debug, PartialEq, Eq)]
pub struct Cond {
    pub op: u16,
    pub key: [u8; 48],
    pub msg: Vec<u8>,
}

#[derive(Clone, Debug, PartialEq, Eq)]
pub struct Spend {
    pub parent: [u8; 32],
    pub tag: u8,
    pub amount: u64,
    pub conds: Vec<Cond>,
}

impl Spend {
    pub fn ph(&self) -> [u8; 32] {
        condgen::tag_puzzle_hashes()[(self.tag - 1) as usize]
    }
}

pub type Bundle = Vec<Spend>;
/// (public key bytes, final message)
pub type Pair = (Vec<u8>, Vec<u8>);

/// the pairs the rules prescribe, in emission order, with (spend, condition) provenance
pub fn expected_pairs(b: &Bundle, net: &Net) -> (Vec<Pair>, Vec<(usize, usize)>) {
    let mut pairs = vec![];
    let mut prov = vec![];
    for (si, sp) in b.iter().enumerate() {
        let ph = sp.ph();
        for (ci, c) in sp.conds.iter().enumerate() {
            pairs.push((c.key.to_vec(), net.final_message(c.op, &c.msg, &sp.parent, &ph, sp.amount)));
            prov.push((si, ci));
        }
    }
    (pairs, prov)
}

pub fn multiset(p: &[Pair]) -> Vec<Pair> {
    let mut v = p.to_vec();
    v.sort();
    v
}

fn key_index(pk: &[u8]) -> Option<usize> {
    condgen::key_pool().pks.iter().position(|k| k[..] == pk[..])
}

/// signs with the pool's secret keys; shares are memoised per case
#[derive(Default)]
pub struct Signer {
    shares: BTreeMap<(usize, Vec<u8>), Signature>,
}

impl Signer {
    pub fn share(&mut self, key: usize, msg: &[u8]) -> Signature {
        if let Some(s) = self.shares.get(&(key, msg.to_vec())) {
            return s.clone();
        }
        let s = sign(&condgen::key_pool().sks[key], msg);
        self.shares.insert((key, msg.to_vec()), s.clone());
        s
    }
    /// aggregate over pairs whose keys are all pool keys
    pub fn aggregate(&mut self, pairs: &[Pair]) -> Signature {
        let mut sig = Signature::default();
        for (pk, m) in pairs {
            let k = key_index(pk).expect("pool key");
            sig.aggregate(&self.share(k, m));
        }
        sig
    }
}

fn hexs(b: &[u8]) -> String {
    if b.len() <= 72 {
        hex::encode(b)
    } else {
        format!("{}..({} bytes)..{}", hex::encode(&b[..16]), b.len(), hex::encode(&b[b.len() - 36..]))
    }
}

fn key_name(k: &[u8; 48]) -> String {
    match key_index(k) {
        Some(i) => format!("pk{i}"),
        None => format!("key:{}", hex::encode(k)),
    }
}

pub fn render_bundle(b: &Bundle) -> String {
    let mut out = String::new();
    for (i, sp) in b.iter().enumerate() {
        out.push_str(&format!(
            "[spend {i}: parent={} tag={} ph={} amount={:#x} conds:",
            hex::encode(sp.parent),
            sp.tag,
            hex::encode(&sp.ph()[..4]),
            sp.amount
        ));
        for c in &sp.conds {
            out.push_str(&format!(" ({} {} msg[{}]={})", op_name(c.op), key_name(&c.key), c.msg.len(), hexs(&c.msg)));
        }
        out.push(']');
    }
    out
}

fn fingerprint(b: &Bundle, extra: &[u64]) -> u64 {
    let mut f = Fnv::new();
    for sp in b {
        f.write(&sp.parent).write(&[sp.tag]).write_u64(sp.amount).write_u64(sp.conds.len() as u64);
        for c in &sp.conds {
            f.write_u64(u64::from(c.op)).write(&c.key).write_u64(c.msg.len() as u64).write(&c.msg);
        }
    }
    for e in extra {
        f.write_u64(*e);
    }
    f.finish()
}

// ---------------------------------------------------------------------------
// generator

/// one or two values in every class of encoded length 0..=9
pub const AMOUNTS: [u64; 33] = [
    1,
    0,
    0x7f,
    0x80,
    0xff,
    0x100,
    0x7fff,
    0x8000,
    0xffff,
    0x1_0000,
    0x7f_ffff,
    0x80_0000,
    0xff_ffff,
    0x100_0000,
    0x7fff_ffff,
    0x8000_0000,
    0xffff_ffff,
    0x1_0000_0000,
    0x7f_ffff_ffff,
    0x80_0000_0000,
    0xff_ffff_ffff,
    0x100_0000_0000,
    0x7fff_ffff_ffff,
    0x8000_0000_0000,
    0xffff_ffff_ffff,
    0x1_0000_0000_0000,
    0x7f_ffff_ffff_ffff,
    0x80_0000_0000_0000,
    0xff_ffff_ffff_ffff,
    0x100_0000_0000_0000,
    0x7fff_ffff_ffff_ffff,
    0x8000_0000_0000_0000,
    0xffff_ffff_ffff_ffff,
];

fn gen_amount(s: &mut Src<'_>) -> u64 {
    match s.weighted(&[6, 3]) {
        0 => AMOUNTS[s.below(AMOUNTS.len())],
        _ => {
            let bits = s.range(1, 64);
            let raw = s.u64();
            if bits == 64 {
                raw | (1 << 63)
            } else {
                (raw & ((1u64 << bits) - 1)) | (1u64 << (bits - 1))
            }
        }
    }
}

/// deterministic expansion of a short seed (long messages must not eat the
/// choice sequence)
fn stream(seed: &[u8], n: usize) -> Vec<u8> {
    let mut out = Vec::with_capacity(n + 32);
    let mut ctr = 0u32;
    while out.len() < n {
        out.extend_from_slice(&condgen::sha(&[b"C05 stream", seed, &ctr.to_be_bytes()]));
        ctr += 1;
    }
    out.truncate(n);
    out
}

fn ends_with_domain(net: &Net, msg: &[u8]) -> bool {
    msg.len() >= 32 && net.all_domains().iter().any(|d| msg.ends_with(d))
}

fn gen_bytes(s: &mut Src<'_>, n: usize) -> Vec<u8> {
    if n <= 40 {
        s.bytes(n)
    } else {
        let seed = s.bytes(3);
        stream(&seed, n)
    }
}

fn msg_len_class(n: usize) -> &'static str {
    match n {
        0 => "0",
        1..=30 => "1-30",
        31 => "31",
        32 => "32",
        33 => "33",
        34..=62 => "34-62",
        63..=65 => "63-65",
        66..=1022 => "66-1022",
        1023 => "1023",
        1024 => "1024",
        _ => ">1024",
    }
}

/// message of a condition with opcode `op` in a spend with the given attributes
fn gen_msg(s: &mut Src<'_>, op: u16, net: &Net, sp: &Spend, labels: &mut Vec<String>) -> Vec<u8> {
    let mut m = match s.weighted(&[3, 6, 4, 3, 5, 3, 3, 3]) {
        0 => vec![],
        1 => {
            let n = s.range(1, 8);
            s.bytes(n)
        }
        2 => {
            let n = *s.pick(&[32usize, 31, 33]);
            gen_bytes(s, n)
        }
        3 => {
            let n = *s.pick(&[64usize, 63, 65]);
            gen_bytes(s, n)
        }
        4 => {
            let n = s.below(1025);
            gen_bytes(s, n)
        }
        5 => {
            let n = *s.pick(&[1024usize, 1023]);
            gen_bytes(s, n)
        }
        6 => {
            // ends in one of the network's domain constants (allowed for every
            // opcode except AGG_SIG_UNSAFE, where it is repaired below)
            labels.push("msg:ends-in-domain-constant".into());
            let n = s.below(41);
            let mut m = s.bytes(n);
            let doms = net.all_domains();
            let d: [u8; 32] = doms[s.below(doms.len())];
            m.extend_from_slice(&d);
            m
        }
        _ => {
            // ends in a coin attribute of its own spend (the unframed
            // concatenation must still bind)
            labels.push("msg:ends-in-coin-attribute".into());
            let n = s.below(9);
            let mut m = s.bytes(n);
            match s.below(4) {
                0 => m.extend_from_slice(&sp.parent),
                1 => m.extend_from_slice(&sp.ph()),
                2 => m.extend_from_slice(&enc_u64(sp.amount)),
                _ => m.extend_from_slice(&mc::coin_id(&sp.parent, &sp.ph(), sp.amount)),
            }
            m
        }
    };
    if op == mc::AGG_SIG_UNSAFE {
        while ends_with_domain(net, &m) {
            let n = m.len();
            m[n - 1] ^= 0x01;
        }
    }
    m
}

pub struct GenParams {
    pub max_spends: usize,
    pub min_conds: usize,
    pub max_conds: usize,
}

pub fn gen_bundle(s: &mut Src<'_>, net: &Net, p: &GenParams, labels: &mut Vec<String>) -> Bundle {
    let n_spends = 1 + s.below(p.max_spends);
    let mut b: Bundle = vec![];
    for i in 0..n_spends {
        let seed = s.bytes(2);
        let pbytes = stream(&seed, 32);
        let mut parent = [0u8; 32];
        parent.copy_from_slice(&pbytes);
        parent[1] = i as u8 + 1; // distinct coins
        let tag = 1 + s.below(condgen::NUM_TAGS) as u8;
        let amount = gen_amount(s);
        b.push(Spend { parent, tag, amount, conds: vec![] });
    }
    let n_conds = s.range(p.min_conds, p.max_conds);
    let mut placed: Vec<(usize, usize)> = vec![];
    for _ in 0..n_conds {
        let si = s.below(n_spends);
        let cond = if !placed.is_empty() && s.chance(24) {
            // the same (opcode, key, message) once more, possibly in another spend
            labels.push("cond:copy-of-earlier".into());
            let (psi, pci) = placed[s.below(placed.len())];
            b[psi].conds[pci].clone()
        } else {
            let op = OPS[s.below(8)];
            let key = condgen::key_pool().pks[s.below(condgen::NUM_KEYS)];
            let msg = gen_msg(s, op, net, &b[si], labels);
            Cond { op, key, msg }
        };
        b[si].conds.push(cond);
        placed.push((si, b[si].conds.len() - 1));
    }
    b
}

// ---------------------------------------------------------------------------
// running the code under test

#[derive(Clone, Copy, PartialEq, Eq, Debug)]
pub enum Entry {
    ParseBlock,
    ParseMempool,
    Rbg2,
    Rbg,
    Validate,
}

impl Entry {
    pub fn name(self) -> &'static str {
        match self {
            Entry::ParseBlock => "parse_spends-block",
            Entry::ParseMempool => "parse_spends-mempool",
            Entry::Rbg2 => "run_block_generator2",
            Entry::Rbg => "run_block_generator",
            Entry::Validate => "validate_clvm_and_signature",
        }
    }
}

pub struct Env {
    pub net: &'static Net,
    pub flags: ConsensusFlags,
    pub mode: BuildMode,
    pub max_cost: u64,
}

/// `((parent puzzle_hash amount (conditions…)) …)` plus per spend (puzzle, condition list)
pub fn build_tree(b: &Bundle) -> (Tree, Tid, Vec<(Tid, Tid)>) {
    let mut t = Tree::new();
    let mut nodes = vec![];
    let mut parts = vec![];
    for sp in b {
        let mut conds = vec![];
        for c in &sp.conds {
            let op = t.atom(&[c.op as u8]);
            let k = t.atom(&c.key);
            let m = t.atom(&c.msg);
            conds.push(t.list(&[op, k, m]));
        }
        let cl = t.list(&conds);
        let pz = condgen::tagged_identity(&mut t, sp.tag);
        let pa = t.atom(&sp.parent);
        let ph = t.atom(&sp.ph());
        let am = t.atom(&enc_u64(sp.amount));
        nodes.push(t.list(&[pa, ph, am, cl]));
        parts.push((pz, cl));
    }
    let sl = t.list(&nodes);
    let nil = t.nil();
    let root = t.pair(sl, nil);
    (t, root, parts)
}

pub fn coin_spends(b: &Bundle) -> Vec<CoinSpend> {
    let (t, _, parts) = build_tree(b);
    b.iter()
        .zip(parts.iter())
        .map(|(sp, (pz, cl))| proglevel::coin_spend(&t, sp.parent, sp.ph(), sp.amount, *pz, *cl))
        .collect()
}

fn generator_of(b: &Bundle) -> Vec<u8> {
    let cs = coin_spends(b);
    solution_generator(cs.iter().map(|c| (c.coin, c.puzzle_reveal.as_slice(), c.solution.as_slice()))).expect("solution_generator")
}

/// Ok = accepted; Err = the rejection, rendered
pub fn run_entry(e: Entry, b: &Bundle, sig: &Signature, cache: Option<&BlsCache>, env: &Env) -> Result<(), String> {
    match e {
        Entry::ParseBlock | Entry::ParseMempool => {
            let (t, root, _) = build_tree(b);
            let mut a = Allocator::new();
            let r = gentree::build(&mut a, &t, root, env.mode);
            let res = if e == Entry::ParseMempool {
                parse_spends::<MempoolVisitor>(&a, r, env.max_cost, 0, env.flags, sig, cache, &env.net.consts)
            } else {
                parse_spends::<EmptyVisitor>(&a, r, env.max_cost, 0, env.flags, sig, cache, &env.net.consts)
            };
            res.map(|_| ()).map_err(|e| format!("{e:?}"))
        }
        Entry::Rbg2 | Entry::Rbg => {
            let generator = generator_of(b);
            let no_refs: Vec<Vec<u8>> = vec![];
            let res = if e == Entry::Rbg2 {
                run_block_generator2(&generator, &no_refs, env.max_cost, env.flags, sig, cache, &env.net.consts)
            } else {
                run_block_generator(&generator, &no_refs, env.max_cost, env.flags, sig, cache, &env.net.consts)
            };
            res.map(|_| ()).map_err(|e| format!("{e:?}"))
        }
        Entry::Validate => {
            assert!(cache.is_none(), "validate_clvm_and_signature takes no cache");
            let bundle = SpendBundle::new(coin_spends(b), sig.clone());
            validate_clvm_and_signature(&bundle, env.max_cost, &env.net.consts, env.flags)
                .map(|_| ())
                .map_err(|e| format!("{e:?}"))
        }
    }
}

/// what `make_aggsig_final_message` yields for every signature condition of a result
pub fn helper_pairs(o: &OwnedSpendBundleConditions, consts: &ConsensusConstants) -> Vec<Pair> {
    let mut out = vec![];
    for sp in &o.spends {
        let lists: [(u16, &Vec<(PublicKey, chia_protocol::Bytes)>); 7] = [
            (mc::AGG_SIG_ME, &sp.agg_sig_me),
            (mc::AGG_SIG_PARENT, &sp.agg_sig_parent),
            (mc::AGG_SIG_PUZZLE, &sp.agg_sig_puzzle),
            (mc::AGG_SIG_AMOUNT, &sp.agg_sig_amount),
            (mc::AGG_SIG_PUZZLE_AMOUNT, &sp.agg_sig_puzzle_amount),
            (mc::AGG_SIG_PARENT_AMOUNT, &sp.agg_sig_parent_amount),
            (mc::AGG_SIG_PARENT_PUZZLE, &sp.agg_sig_parent_puzzle),
        ];
        for (op, list) in lists {
            for (pk, msg) in list {
                let mut m = msg.as_slice().to_vec();
                make_aggsig_final_message(op, &mut m, sp, consts);
                out.push((pk.to_bytes().to_vec(), m));
            }
        }
    }
    for (pk, msg) in &o.agg_sig_unsafe {
        let mut m = msg.as_slice().to_vec();
        if let Some(sp) = o.spends.first() {
            // an unsafe message is signed as it is, whichever spend emitted it
            make_aggsig_final_message(mc::AGG_SIG_UNSAFE, &mut m, sp, consts);
        }
        out.push((pk.to_bytes().to_vec(), m));
    }
    out
}

fn first_difference(want: &[Pair], got: &[Pair]) -> String {
    for (i, w) in want.iter().enumerate() {
        match got.get(i) {
            None => return format!("sorted pair {i} missing: rules prescribe ({}, {})", hexs(&w.0[..6]), hexs(&w.1)),
            Some(g) if g != w => {
                return format!(
                    "sorted pair {i}: rules prescribe key {}… message {} but got key {}… message {}",
                    hex::encode(&w.0[..6]),
                    hexs(&w.1),
                    hex::encode(&g.0[..6]),
                    hexs(&g.1)
                )
            }
            _ => {}
        }
    }
    format!("{} pairs prescribed, {} obtained", want.len(), got.len())
}

/// part (c): consensus' verified pairs and the helper's messages are the rules' messages
fn check_final_messages(b: &Bundle, env: &Env, want_sorted: &[Pair]) -> CaseResult {
    let bundle = SpendBundle::new(coin_spends(b), Signature::default());
    let mut a = Allocator::new();
    let (conds, pkm) = match run_spendbundle(&mut a, &bundle, env.max_cost, env.flags, &env.net.consts) {
        Ok(x) => x,
        Err(e) => vfail!(
            "C05:run_spendbundle-rejects-well-formed-bundle",
            "run_spendbundle (which does not check the signature) rejected a bundle of well-formed AGG_SIG conditions: {e:?}"
        ),
    };
    let got: Vec<Pair> = pkm.iter().map(|(k, m)| (k.to_bytes().to_vec(), m.as_slice().to_vec())).collect();
    let got = multiset(&got);
    vensure!(
        got == want_sorted,
        "C05:consensus-verifies-other-message-than-rules-prescribe",
        "pkm_pairs of run_spendbundle differ from the rules' pairs: {}",
        first_difference(want_sorted, &got)
    );
    let owned = proglevel::owned(&a, conds);
    let helper = multiset(&helper_pairs(&owned, &env.net.consts));
    vensure!(
        helper == want_sorted,
        "C05:make_aggsig_final_message-differs-from-rules",
        "make_aggsig_final_message over the spends reported by run_spendbundle: {}",
        first_difference(want_sorted, &helper)
    );
    vensure!(
        helper == got,
        "C05:make_aggsig_final_message-differs-from-verified-pairs",
        "make_aggsig_final_message vs pkm_pairs: {}",
        first_difference(&got, &helper)
    );
    Ok(())
}

// ---------------------------------------------------------------------------
// tamperings

pub const KINDS: [&str; 19] = [
    "sig-share-omitted",
    "sig-share-extra",
    "cond-msg-byte-flipped",
    "sig-msg-byte-flipped",
    "cond-key-replaced",
    "sig-key-replaced",
    "coin-parent-changed",
    "coin-puzzle-changed",
    "coin-amount-changed-same-length",
    "coin-amount-changed-across-sign-boundary",
    "signed-under-other-domain",
    "opcodes-swapped",
    "opcode-changed",
    "sig-negated",
    "sig-identity",
    "cond-omitted",
    "cond-duplicated",
    "cond-moved-to-other-spend",
    "validated-under-other-network",
];

/// opcode labels a tampering kind can carry
fn kind_ops(kind: &str) -> Vec<String> {
    let f = |ops: &[u16]| ops.iter().map(|o| format!("op{o}")).collect::<Vec<_>>();
    match kind {
        "coin-parent-changed" => f(&[43, 47, 48, 50]),
        "coin-puzzle-changed" => f(&[44, 46, 48, 50]),
        "coin-amount-changed-same-length" | "coin-amount-changed-across-sign-boundary" => f(&[45, 46, 47, 50]),
        "sig-negated" | "sig-identity" => vec!["any".to_string()],
        "cond-moved-to-other-spend" | "validated-under-other-network" => f(&[43, 44, 45, 46, 47, 48, 50]),
        _ => f(&[43, 44, 45, 46, 47, 48, 49, 50]),
    }
}

struct Base {
    bundle: Bundle,
    net_idx: usize,
    pairs: Vec<Pair>,
    prov: Vec<(usize, usize)>,
    sig: Signature,
}

struct Tamper {
    bundle: Bundle,
    sig: Signature,
    net_idx: usize,
    op_label: String,
    /// the (expected multiset, signature) relation is really broken
    differs: bool,
    note: String,
}

fn other_pool_key(s: &mut Src<'_>, cur: &[u8]) -> [u8; 48] {
    let pool = condgen::key_pool();
    let i = key_index(cur).unwrap_or(0);
    pool.pks[(i + 1 + s.below(condgen::NUM_KEYS - 1)) % condgen::NUM_KEYS]
}

fn same_length_amount(a: u64) -> Option<u64> {
    let n = enc_u64(a).len();
    [a ^ 1, a ^ 2, a.wrapping_add(1), a.wrapping_sub(1), a ^ 4]
        .into_iter()
        .find(|c| *c != a && enc_u64(*c).len() == n)
}

/// flips the bit that decides whether the minimal encoding carries a leading
/// zero byte (0x7f -> 0xff, 0 -> 0x80, 0x80 -> 0, 0xff -> 0x7f, …)
fn across_sign_boundary(a: u64) -> u64 {
    let nbytes = ((64 - a.leading_zeros() as usize) + 7) / 8;
    let top = 0x80u64 << (8 * (nbytes.max(1) - 1));
    a ^ top
}

fn make_tamper(kind: &str, base: &Base, s: &mut Src<'_>, signer: &mut Signer) -> Option<Tamper> {
    let nets = nets();
    let net = &nets[base.net_idx];
    let n = base.pairs.len();
    let j = s.below(n);
    let (sj, cj) = base.prov[j];
    let cond_j = base.bundle[sj].conds[cj].clone();
    let mut bundle = base.bundle.clone();
    let mut signed: Option<Vec<Pair>> = None;
    let mut sig_override: Option<Signature> = None;
    let mut net_idx = base.net_idx;
    let mut op_label = format!("op{}", cond_j.op);
    let mut note = String::new();
    // a spend holding a condition that depends on the attribute, and that condition's opcode
    let pick_dependent = |s: &mut Src<'_>, dep: fn(u16) -> bool, ok_spend: &dyn Fn(&Spend) -> bool| -> Option<(usize, u16)> {
        let cands: Vec<(usize, u16)> = base
            .bundle
            .iter()
            .enumerate()
            .filter(|(_, sp)| ok_spend(sp))
            .flat_map(|(i, sp)| sp.conds.iter().filter(|c| dep(c.op)).map(move |c| (i, c.op)))
            .collect();
        if cands.is_empty() {
            None
        } else {
            Some(cands[s.below(cands.len())])
        }
    };
    match kind {
        "sig-share-omitted" => {
            let mut p = base.pairs.clone();
            p.remove(j);
            note = format!("the share of condition {j} is left out of the aggregate");
            signed = Some(p);
        }
        "sig-share-extra" => {
            let mut p = base.pairs.clone();
            let extra = match s.below(3) {
                0 => base.pairs[j].clone(),
                1 => {
                    let mut m = base.pairs[j].1.clone();
                    m.push(0x00);
                    (base.pairs[j].0.clone(), m)
                }
                _ => (other_pool_key(s, &base.pairs[j].0).to_vec(), base.pairs[j].1.clone()),
            };
            note = format!("one more share ({}…, {}) is aggregated in", hex::encode(&extra.0[..4]), hexs(&extra.1));
            p.push(extra);
            signed = Some(p);
        }
        "cond-msg-byte-flipped" => {
            let m = &mut bundle[sj].conds[cj].msg;
            if m.is_empty() {
                m.push(0x01);
                note = format!("condition {j}: empty message becomes 01 after signing");
            } else {
                let pos = s.below(m.len());
                let bit = 1u8 << s.below(8);
                m[pos] ^= bit;
                note = format!("condition {j}: message byte {pos} ^= {bit:#x} after signing");
            }
        }
        "sig-msg-byte-flipped" => {
            let mut p = base.pairs.clone();
            let m = &mut p[j].1;
            if m.is_empty() {
                m.push(0x01);
            } else {
                // anywhere in the final message: message, coin attribute or constant
                let pos = s.below(m.len());
                let bit = 1u8 << s.below(8);
                m[pos] ^= bit;
                note = format!("share {j} signs the final message with byte {pos} of {} ^= {bit:#x}", m.len());
            }
            signed = Some(p);
        }
        "cond-key-replaced" => {
            let k = other_pool_key(s, &cond_j.key);
            bundle[sj].conds[cj].key = k;
            note = format!("condition {j}: key becomes {} after signing", key_name(&k));
        }
        "sig-key-replaced" => {
            let mut p = base.pairs.clone();
            p[j].0 = other_pool_key(s, &cond_j.key).to_vec();
            note = format!("share {j} is made with another pool key");
            signed = Some(p);
        }
        "coin-parent-changed" => {
            let (si, op) = pick_dependent(s, uses_parent, &|_| true)?;
            let pos = s.range(2, 31);
            let bit = 1u8 << s.below(8);
            bundle[si].parent[pos] ^= bit;
            op_label = format!("op{op}");
            note = format!("spend {si}: parent byte {pos} ^= {bit:#x} after signing");
        }
        "coin-puzzle-changed" => {
            let (si, op) = pick_dependent(s, uses_puzzle, &|_| true)?;
            let t = bundle[si].tag;
            bundle[si].tag = ((t - 1) as usize + 1 + s.below(condgen::NUM_TAGS - 1)) as u8 % condgen::NUM_TAGS as u8 + 1;
            op_label = format!("op{op}");
            note = format!("spend {si}: puzzle tag {t} -> {} after signing", bundle[si].tag);
        }
        "coin-amount-changed-same-length" => {
            let (si, op) = pick_dependent(s, uses_amount, &|sp| same_length_amount(sp.amount).is_some())?;
            let a = bundle[si].amount;
            bundle[si].amount = same_length_amount(a)?;
            op_label = format!("op{op}");
            note = format!("spend {si}: amount {a:#x} -> {:#x} after signing (same encoded length)", bundle[si].amount);
        }
        "coin-amount-changed-across-sign-boundary" => {
            let (si, op) = pick_dependent(s, uses_amount, &|_| true)?;
            let a = bundle[si].amount;
            bundle[si].amount = across_sign_boundary(a);
            op_label = format!("op{op}");
            note = format!(
                "spend {si}: amount {a:#x} -> {:#x} after signing (encoding {} -> {})",
                bundle[si].amount,
                hex::encode(enc_u64(a)),
                hex::encode(enc_u64(bundle[si].amount))
            );
        }
        "signed-under-other-domain" => {
            let others: Vec<u16> = OPS.iter().copied().filter(|o| *o != cond_j.op).collect();
            let dom = others[s.below(others.len())];
            let sp = &base.bundle[sj];
            let mut p = base.pairs.clone();
            p[j].1 = net.final_message_under(cond_j.op, dom, &cond_j.msg, &sp.parent, &sp.ph(), sp.amount);
            note = format!("share {j} ({}) is made under the domain constant of {}", op_name(cond_j.op), op_name(dom));
            signed = Some(p);
        }
        "opcodes-swapped" => {
            let cands: Vec<usize> = (0..n)
                .filter(|i| {
                    let (si, ci) = base.prov[*i];
                    base.bundle[si].conds[ci].op != cond_j.op
                })
                .collect();
            if cands.is_empty() {
                return None;
            }
            let i = cands[s.below(cands.len())];
            let (si, ci) = base.prov[i];
            let other = base.bundle[si].conds[ci].op;
            bundle[si].conds[ci].op = cond_j.op;
            bundle[sj].conds[cj].op = other;
            note = format!("conditions {j} and {i} exchange opcodes ({} <-> {}) after signing", op_name(cond_j.op), op_name(other));
        }
        "opcode-changed" => {
            let others: Vec<u16> = OPS.iter().copied().filter(|o| *o != cond_j.op).collect();
            let o = others[s.below(others.len())];
            bundle[sj].conds[cj].op = o;
            note = format!("condition {j}: {} becomes {} after signing", op_name(cond_j.op), op_name(o));
        }
        "sig-negated" => {
            let mut g = base.sig.clone();
            g.negate();
            sig_override = Some(g);
            op_label = "any".into();
            note = "the aggregate is negated".into();
        }
        "sig-identity" => {
            sig_override = Some(Signature::default());
            op_label = "any".into();
            note = "the aggregate is replaced by the identity".into();
        }
        "cond-omitted" => {
            bundle[sj].conds.remove(cj);
            note = format!("condition {j} is removed after signing");
        }
        "cond-duplicated" => {
            bundle[sj].conds.insert(cj, cond_j.clone());
            note = format!("condition {j} occurs twice, signed once");
        }
        "cond-moved-to-other-spend" => {
            if bundle.len() < 2 {
                return None;
            }
            let dst = (sj + 1 + s.below(bundle.len() - 1)) % bundle.len();
            let c = bundle[sj].conds.remove(cj);
            bundle[dst].conds.push(c);
            note = format!("condition {j} moves from spend {sj} to spend {dst} after signing");
        }
        "validated-under-other-network" => {
            net_idx = (base.net_idx + 1 + s.below(NUM_NETS - 1)) % NUM_NETS;
            let first = base.bundle.iter().flat_map(|sp| sp.conds.iter()).find(|c| c.op != mc::AGG_SIG_UNSAFE)?;
            op_label = format!("op{}", first.op);
            note = format!("signed for network '{}', validated under '{}'", net.name, nets[net_idx].name);
        }
        _ => unreachable!("unknown tampering kind"),
    }
    let (sig, differs) = if let Some(g) = sig_override {
        let d = g.to_bytes() != base.sig.to_bytes();
        (g, d)
    } else {
        let want = multiset(&expected_pairs(&bundle, &nets[net_idx]).0);
        match signed {
            Some(p) => {
                let d = multiset(&p) != want;
                (signer.aggregate(&p), d)
            }
            None => (base.sig.clone(), multiset(&base.pairs) != want),
        }
    };
    Some(Tamper { bundle, sig, net_idx, op_label, differs, note })
}

// ---------------------------------------------------------------------------
// sub-check 1: bundles, positive case and tamperings

const NOCACHE_ROTATION: [Entry; 5] = [Entry::Rbg2, Entry::Validate, Entry::Rbg, Entry::ParseBlock, Entry::ParseMempool];
const COLD_ROTATION: [Entry; 3] = [Entry::Rbg2, Entry::ParseMempool, Entry::Rbg];

pub const SIG_POSITIVE: &str = "C05:correctly-signed-bundle-rejected";

pub fn case_bundle(bytes: &[u8], ctx: &mut Ctx) -> CaseResult {
    let mut s = Src::new(bytes);
    let nets = nets();
    // configuration first
    let net_idx = s.weighted(&[3, 2, 2]);
    let flag_idx = s.below(proglevel::NUM_FLAG_SETS);
    let mode = BuildMode::from_src(&mut s);
    let salt = s.below(15);
    let visitor_bit = s.bool();
    let mut labels: Vec<String> = vec![];
    let bundle = gen_bundle(&mut s, &nets[net_idx], &GenParams { max_spends: 3, min_conds: 1, max_conds: 6 }, &mut labels);
    let env = Env { net: &nets[net_idx], flags: proglevel::flag_set(flag_idx), mode, max_cost: 11_000_000_000 };

    let (pairs, prov) = expected_pairs(&bundle, env.net);
    let want_sorted = multiset(&pairs);
    let mut signer = Signer::default();
    let sig = signer.aggregate(&pairs);

    ctx.render(|| {
        format!(
            "net={} flags={:?} build={:?} salt={salt} bundle={} signature={}",
            env.net.name,
            env.flags,
            mode,
            render_bundle(&bundle),
            hex::encode(sig.to_bytes())
        )
    });
    for l in labels {
        ctx.label(l);
    }
    ctx.label(format!("net:{}", env.net.name));
    ctx.label(format!("spends:{}", bundle.len()));
    ctx.label(format!("conds:{}", pairs.len()));
    let mut ops: Vec<u16> = vec![];
    let mut keys: Vec<[u8; 48]> = vec![];
    for sp in &bundle {
        ctx.label(format!("amount-enc-len:{}", enc_u64(sp.amount).len()));
        for c in &sp.conds {
            ctx.label(format!("op{}", c.op));
            ctx.label(format!("msg-len:{}", msg_len_class(c.msg.len())));
            if uses_amount(c.op) {
                ctx.label(format!("amount-signed:enc-len:{}", enc_u64(sp.amount).len()));
            }
            if !ops.contains(&c.op) {
                ops.push(c.op);
            }
            if !keys.contains(&c.key) {
                keys.push(c.key);
            }
        }
    }
    if want_sorted.windows(2).any(|w| w[0] == w[1]) {
        ctx.label("has-duplicate-pair");
    }

    // (c) what consensus verifies / what the helper recomputes
    check_final_messages(&bundle, &env, &want_sorted)?;

    // (a) the correctly signed bundle is accepted everywhere, cache or not
    let warm = BlsCache::default();
    let warm2 = BlsCache::default();
    let (v1, v2) = if visitor_bit { (Entry::ParseMempool, Entry::ParseBlock) } else { (Entry::ParseBlock, Entry::ParseMempool) };
    let positive: [(Entry, Option<&BlsCache>, &str); 10] = [
        (Entry::ParseBlock, None, "none"),
        (Entry::ParseMempool, None, "none"),
        (v1, Some(&warm), "cold"),
        (v2, Some(&warm), "warm"),
        (Entry::Rbg2, None, "none"),
        (Entry::Rbg2, Some(&warm2), "cold"),
        (Entry::Rbg2, Some(&warm2), "warm"),
        (Entry::Rbg, None, "none"),
        (Entry::Rbg, Some(&warm), "warm"),
        (Entry::Validate, None, "none"),
    ];
    let mut rejected: Vec<String> = vec![];
    for (e, cache, state) in positive {
        match run_entry(e, &bundle, &sig, cache, &env) {
            Ok(()) => ctx.label(format!("positive:{}:cache-{state}", e.name())),
            Err(err) => rejected.push(format!("{} (cache {state}): {err}", e.name())),
        }
    }
    // a cache filled the way the mempool does it: from the pairings that
    // pre-validation returns
    {
        let sb = SpendBundle::new(coin_spends(&bundle), sig.clone());
        match validate_clvm_and_signature(&sb, env.max_cost, &env.net.consts, env.flags) {
            Err(err) => rejected.push(format!("validate_clvm_and_signature (second run): {err:?}")),
            Ok((_, gts)) => {
                // (sha256(key | message), pairing) as the mempool would hand
                // them to the block validation cache; matched by hash, not by
                // position
                let pre = BlsCache::default();
                let mut matched = 0usize;
                for (pk, m) in &pairs {
                    let mut aug = pk.clone();
                    aug.extend_from_slice(m);
                    let h = condgen::sha(&[&aug]);
                    if let Some((_, gt)) = gts.iter().find(|(gh, _)| *gh == h) {
                        pre.update(&aug, gt.clone());
                        matched += 1;
                    }
                }
                if matched == pairs.len() {
                    ctx.label("prevalidation:every-rules-pair-has-a-returned-pairing");
                }
                match run_entry(v1, &bundle, &sig, Some(&pre), &env) {
                    Ok(()) => ctx.label("positive:parse_spends:cache-prevalidated"),
                    Err(err) => rejected.push(format!("{} (cache filled with the pairings returned by pre-validation): {err}", v1.name())),
                }
            }
        }
    }
    vensure!(
        rejected.is_empty(),
        SIG_POSITIVE,
        "the aggregate of the harness's shares over the messages the rules prescribe was rejected at: {}",
        rejected.join("; ")
    );
    for o in &ops {
        ctx.label(format!("accepted:op{o}"));
    }
    // (a') the same spends WITHOUT any signature condition: the empty set of pairs
    // is signed by the identity and by nothing else — a non-identity aggregate
    // (the one that was right a moment ago) must be refused at every entry point
    {
        let stripped: Bundle = bundle.iter().map(|sp| Spend { conds: vec![], ..sp.clone() }).collect();
        let mut wrong: Vec<String> = vec![];
        for e in ALL_ENTRIES {
            if let Err(err) = run_entry(e, &stripped, &Signature::default(), None, &env) {
                wrong.push(format!("{} rejects the identity signature: {err}", e.name()));
            }
            if sig != Signature::default() && run_entry(e, &stripped, &sig, None, &env).is_ok() {
                wrong.push(format!("{} accepts a non-identity signature", e.name()));
            }
        }
        vensure!(
            wrong.is_empty(),
            "C05:no-signature-conditions:wrong-verdict",
            "spends without any AGG_SIG condition (identity signature must be accepted, the non-identity aggregate {} refused): {}",
            hex::encode(sig.to_bytes()),
            wrong.join("; ")
        );
        ctx.label("no-signature-conditions:checked");
    }

    // (b) single-point tamperings
    let base = Base { bundle: bundle.clone(), net_idx, pairs, prov, sig };
    let mut executed = 0usize;
    for (idx, kind) in KINDS.iter().enumerate() {
        let Some(t) = make_tamper(kind, &base, &mut s, &mut signer) else {
            ctx.label(format!("tamper-inapplicable:{kind}"));
            continue;
        };
        if !t.differs {
            // the change leaves the signed multiset intact: nothing to demand
            ctx.label(format!("tamper-without-effect:{kind}"));
            continue;
        }
        let tenv = Env { net: &nets[t.net_idx], flags: env.flags, mode, max_cost: env.max_cost };
        let parse = if (idx + salt) % 2 == 0 { Entry::ParseBlock } else { Entry::ParseMempool };
        let cold = BlsCache::default();
        let mut runs: Vec<(Entry, Option<&BlsCache>, &str)> = vec![(parse, Some(&warm), "warm"), (NOCACHE_ROTATION[(idx + salt) % 5], None, "none")];
        if (idx + salt) % 3 == 0 {
            runs.push((COLD_ROTATION[(idx / 3 + salt) % 3], Some(&cold), "cold"));
        }
        let mut accepted_cached: Vec<String> = vec![];
        let mut accepted_plain: Vec<String> = vec![];
        for (e, cache, state) in runs {
            match run_entry(e, &t.bundle, &t.sig, cache, &tenv) {
                Err(err) => {
                    ctx.label(format!("tamper:{kind}:{}:cache-{state}", t.op_label));
                    ctx.label(format!("tamper:{kind}:{}", e.name()));
                    let code = err.split(['(', ')']).nth(1).unwrap_or("other").to_string();
                    ctx.label(format!("tamper-rejected-as:{code}"));
                }
                Ok(()) => {
                    if cache.is_some() {
                        accepted_cached.push(format!("{} (cache {state})", e.name()));
                    } else {
                        accepted_plain.push(e.name().to_string());
                    }
                }
            }
        }
        if !accepted_plain.is_empty() || !accepted_cached.is_empty() {
            let detail = format!(
                "{} [{}]; tampered bundle={} signature={}",
                t.note,
                kind,
                render_bundle(&t.bundle),
                hex::encode(t.sig.to_bytes())
            );
            if accepted_plain.is_empty() {
                vfail!(
                    "C05:cache-path-accepts-what-plain-verification-rejects",
                    "accepted at {} although verification without a cache rejects: {detail}",
                    accepted_cached.join(", ")
                );
            }
            vfail!(
                format!("C05:tampered-accepted:{kind}"),
                "accepted at {}: {detail}",
                accepted_plain.iter().chain(accepted_cached.iter()).cloned().collect::<Vec<_>>().join(", ")
            );
        }
        executed += 1;
    }
    ctx.add_inner(executed as u64);
    ctx.ran_dry(s.ran_dry());
    if (ops.len() >= 2 || keys.len() >= 2) && executed >= 12 {
        ctx.label("nontrivial");
        ctx.nontrivial(fingerprint(&bundle, &[net_idx as u64, flag_idx as u64]));
    }
    Ok(())
}

// ---------------------------------------------------------------------------
// sub-check 2: final messages only (no pairing; many more attribute combinations)

pub fn case_final_message(bytes: &[u8], ctx: &mut Ctx) -> CaseResult {
    let mut s = Src::new(bytes);
    let nets = nets();
    let net_idx = s.weighted(&[3, 2, 2]);
    let flag_idx = s.below(proglevel::NUM_FLAG_SETS);
    let mode = BuildMode::from_src(&mut s);
    let mempool = s.bool();
    let mut labels: Vec<String> = vec![];
    let bundle = gen_bundle(&mut s, &nets[net_idx], &GenParams { max_spends: 3, min_conds: 1, max_conds: 8 }, &mut labels);
    ctx.ran_dry(s.ran_dry());
    let env = Env { net: &nets[net_idx], flags: proglevel::flag_set(flag_idx), mode, max_cost: 11_000_000_000 };
    ctx.render(|| format!("net={} flags={:?} build={:?} bundle={}", env.net.name, env.flags, mode, render_bundle(&bundle)));
    let (pairs, _) = expected_pairs(&bundle, env.net);
    let want_sorted = multiset(&pairs);
    check_final_messages(&bundle, &env, &want_sorted)?;

    // the helper over the spends as the parser reports them (the helper's
    // input is the reported spend, wherever it came from; the signature is not
    // involved, so it is not checked here)
    let (t, root, _) = build_tree(&bundle);
    let mut a = Allocator::new();
    let r = gentree::build(&mut a, &t, root, mode);
    let fl = env.flags | ConsensusFlags::DONT_VALIDATE_SIGNATURE;
    let sig = Signature::default();
    let res = if mempool {
        parse_spends::<MempoolVisitor>(&a, r, env.max_cost, 0, fl, &sig, None, &env.net.consts)
    } else {
        parse_spends::<EmptyVisitor>(&a, r, env.max_cost, 0, fl, &sig, None, &env.net.consts)
    };
    match res {
        Err(e) => vfail!("C05:parse_spends-rejects-well-formed-bundle", "parse_spends (signature not checked) rejected well-formed AGG_SIG conditions: {e:?}"),
        Ok(c) => {
            let owned = proglevel::owned(&a, c);
            let helper = multiset(&helper_pairs(&owned, &env.net.consts));
            vensure!(
                helper == want_sorted,
                "C05:make_aggsig_final_message-differs-from-rules",
                "make_aggsig_final_message over the spends reported by parse_spends: {}",
                first_difference(&want_sorted, &helper)
            );
        }
    }
    for l in labels {
        ctx.label(l);
    }
    ctx.label(format!("net:{}", env.net.name));
    let mut ops: Vec<u16> = vec![];
    for sp in &bundle {
        let n = enc_u64(sp.amount).len();
        for c in &sp.conds {
            ctx.label(format!("final-message:op{}:amount-enc-len:{n}", c.op));
            ctx.label(format!("msg-len:{}", msg_len_class(c.msg.len())));
            if !ops.contains(&c.op) {
                ops.push(c.op);
            }
        }
    }
    if !pairs.is_empty() {
        ctx.nontrivial(fingerprint(&bundle, &[net_idx as u64]));
    }
    Ok(())
}

// ---------------------------------------------------------------------------
// sub-check 3: banned AGG_SIG_UNSAFE suffixes, unacceptable keys

/// keys that must never be accepted: (name, bytes)
pub fn unacceptable_keys() -> &'static Vec<(&'static str, [u8; 48])> {
    static K: OnceLock<Vec<(&'static str, [u8; 48])>> = OnceLock::new();
    K.get_or_init(|| {
        let bad = condgen::bad_keys();
        let mut v = vec![("infinity", bad[0]), ("all-ff", bad[1]), ("all-zero", bad[2]), ("coordinate-changed", bad[3])];
        // a point of the curve outside the prime-order subgroup: the first
        // small x that decompresses but fails the checked constructor
        let mut found = 0;
        for x in 1u32..4000 {
            let mut b = [0u8; 48];
            b[0] = 0x80;
            b[44..48].copy_from_slice(&x.to_be_bytes());
            if PublicKey::from_bytes_unchecked(&b).is_ok() && PublicKey::from_bytes(&b).is_err() {
                v.push((if found == 0 { "on-curve-not-in-subgroup" } else { "on-curve-not-in-subgroup-2" }, b));
                found += 1;
                if found == 2 {
                    break;
                }
            }
        }
        assert!(found >= 1, "no off-subgroup point found");
        // the infinity point with the sign bit set (non-canonical infinity)
        let mut inf2 = [0u8; 48];
        inf2[0] = 0xe0;
        v.push(("infinity-with-sign-bit", inf2));
        v
    })
}

const ALL_ENTRIES: [Entry; 5] = [Entry::ParseBlock, Entry::ParseMempool, Entry::Rbg2, Entry::Rbg, Entry::Validate];

/// the special bundle must be rejected by every entry point, whatever the
/// signature and cache
fn must_reject_everywhere(
    b: &Bundle,
    env: &Env,
    sigs: &[(&str, Signature)],
    warm_pairs: &[Pair],
    signer: &mut Signer,
    sig_name: &str,
    what: &str,
    ctx: &mut Ctx,
    label: &str,
) -> CaseResult {
    // a cache that already holds the pairings of every acceptable pair of the bundle
    let warm = BlsCache::default();
    if !warm_pairs.is_empty() {
        let agg = signer.aggregate(warm_pairs);
        let pks: Vec<PublicKey> = warm_pairs.iter().map(|(k, _)| PublicKey::from_bytes(k[..].try_into().unwrap()).expect("pool key")).collect();
        let ok = warm.aggregate_verify(pks.iter().zip(warm_pairs.iter().map(|(_, m)| m.as_slice())), &agg);
        assert!(ok, "harness: warming aggregate did not verify");
    }
    for (sname, sig) in sigs {
        for e in ALL_ENTRIES {
            let cold = BlsCache::default();
            let caches: Vec<(Option<&BlsCache>, &str)> = if e == Entry::Validate { vec![(None, "none")] } else { vec![(None, "none"), (Some(&cold), "cold"), (Some(&warm), "warm")] };
            for (cache, state) in caches {
                match run_entry(e, b, sig, cache, env) {
                    Err(_) => ctx.label(format!("{label}:rejected:{}:cache-{state}", e.name())),
                    Ok(()) => vfail!(sig_name, "{what}: accepted at {} (cache {state}) with signature '{sname}' = {}", e.name(), hex::encode(sig.to_bytes())),
                }
            }
        }
    }
    Ok(())
}

/// accept-type scenario: correct signature, three entry points in rotation
#[allow(clippy::too_many_arguments)]
fn must_accept(
    b: &Bundle,
    control: &Bundle,
    env: &Env,
    signer: &mut Signer,
    salt: usize,
    sig_name: &str,
    what: &str,
    ctx: &mut Ctx,
    label: &str,
) -> CaseResult {
    let sig = signer.aggregate(&expected_pairs(b, env.net).0);
    let cache = BlsCache::default();
    let plain = NOCACHE_ROTATION[salt % 5];
    let c1 = COLD_ROTATION[salt % 3];
    let c2 = COLD_ROTATION[(salt / 3 + 1) % 3];
    for (e, c, state) in [(plain, None, "none"), (c1, Some(&cache), "cold"), (c2, Some(&cache), "warm")] {
        match run_entry(e, b, &sig, c, env) {
            Ok(()) => ctx.label(format!("{label}:accepted:{}:cache-{state}", e.name())),
            Err(err) => {
                // root cause: the special message, or the surrounding conditions?
                let csig = signer.aggregate(&expected_pairs(control, env.net).0);
                let fresh = BlsCache::default();
                if let Err(cerr) = run_entry(e, control, &csig, c.map(|_| &fresh), env) {
                    vfail!(
                        SIG_POSITIVE,
                        "the correctly signed bundle {} (the case's bundle without its special AGG_SIG_UNSAFE condition) was rejected at {}: {cerr}",
                        render_bundle(control),
                        e.name()
                    );
                }
                vfail!(sig_name, "{what}: correctly signed, but rejected at {} (cache {state}): {err}", e.name());
            }
        }
    }
    Ok(())
}

pub fn case_unsafe_and_keys(bytes: &[u8], ctx: &mut Ctx) -> CaseResult {
    let mut s = Src::new(bytes);
    let nets = nets();
    let net_idx = s.weighted(&[3, 2, 2]);
    let net = &nets[net_idx];
    let flag_idx = s.below(proglevel::NUM_FLAG_SETS);
    let mode = BuildMode::from_src(&mut s);
    let salt = s.below(15);
    let scenario = s.weighted(&[5, 3, 2, 2, 2, 6]);
    let mut labels = vec![];
    // the other, acceptable conditions around the special one
    let mut bundle = gen_bundle(&mut s, net, &GenParams { max_spends: 2, min_conds: 0, max_conds: 2 }, &mut labels);
    let env = Env { net, flags: proglevel::flag_set(flag_idx), mode, max_cost: 11_000_000_000 };
    let (others, _) = expected_pairs(&bundle, net);
    let si = s.below(bundle.len());
    let pos = s.below(bundle[si].conds.len() + 1);
    let key_idx = s.below(condgen::NUM_KEYS);
    let key = condgen::key_pool().pks[key_idx];
    let doms = net.all_domains();
    let k = s.below(7);
    let dom_ops = [43u16, 44, 45, 46, 47, 48, 50];
    let prefix_len = match s.weighted(&[4, 3, 2, 2, 2, 2]) {
        0 => 0,
        1 => s.range(1, 8),
        2 => *s.pick(&[31usize, 32, 33]),
        3 => s.below(993),
        4 => 992, // 992 + 32 = 1024, the longest message
        _ => 64,
    };
    let prefix = gen_bytes(&mut s, prefix_len);
    let mut signer = Signer::default();
    let insert = |bundle: &mut Bundle, c: Cond| bundle[si].conds.insert(pos, c);
    ctx.label(format!("net:{}", net.name));
    match scenario {
        0 => {
            // banned: an AGG_SIG_UNSAFE message of >= 32 bytes ending in a domain constant
            let mut msg = prefix.clone();
            msg.extend_from_slice(&doms[k]);
            insert(&mut bundle, Cond { op: mc::AGG_SIG_UNSAFE, key, msg: msg.clone() });
            ctx.render(|| format!("scenario=unsafe-banned net={} flags={:?} build={mode:?} bundle={}", net.name, env.flags, render_bundle(&bundle)));
            let mut all = others.clone();
            all.push((key.to_vec(), msg.clone()));
            let full = signer.aggregate(&all);
            let sigs = [("valid aggregate over all pairs incl. the unsafe message", full), ("identity", Signature::default())];
            let sigs = if s.chance(64) { &sigs[..] } else { &sigs[..1] };
            ctx.label(format!("unsafe-banned:constant-of-op{}", dom_ops[k]));
            ctx.label(format!("unsafe-banned:prefix-len:{}", msg_len_class(prefix.len())));
            let warm_pairs = if s.chance(64) { all.clone() } else { vec![] };
            must_reject_everywhere(
                &bundle,
                &env,
                sigs,
                &warm_pairs,
                &mut signer,
                "C05:unsafe-message-ending-in-domain-constant-accepted",
                &format!("AGG_SIG_UNSAFE message of {} bytes ends in the {} constant of network '{}'", msg.len(), op_name(dom_ops[k]), net.name),
                ctx,
                "unsafe-banned",
            )?;
            ctx.nontrivial(fingerprint(&bundle, &[net_idx as u64, 0]));
        }
        1..=4 => {
            let (name, msg): (&str, Vec<u8>) = match scenario {
                1 => {
                    // one bit of the constant differs
                    let mut d = doms[k];
                    let p = s.below(32);
                    d[p] ^= 1u8 << s.below(8);
                    ctx.label(format!("unsafe-near-miss:byte:{p}"));
                    let mut m = prefix.clone();
                    m.extend_from_slice(&d);
                    ("unsafe-near-miss", m)
                }
                2 => {
                    // shorter than 32 bytes: a proper suffix, or a proper prefix, of the constant
                    let n = s.range(1, 31);
                    ctx.label(format!("unsafe-short:len:{n}"));
                    if s.bool() {
                        ("unsafe-short", doms[k][32 - n..].to_vec())
                    } else {
                        ("unsafe-short", doms[k][..n].to_vec())
                    }
                }
                3 => {
                    // the constant is there, but not at the end
                    let mut m = prefix.clone();
                    m.truncate(900);
                    m.extend_from_slice(&doms[k]);
                    let n = s.range(1, 4);
                    m.extend_from_slice(&s.bytes(n));
                    ("unsafe-constant-not-last", m)
                }
                _ => {
                    // a constant of another network
                    let other = if net_idx == 1 { &nets[0] } else { &nets[1] };
                    let mut m = prefix.clone();
                    m.extend_from_slice(&other.all_domains()[k]);
                    ("unsafe-constant-of-other-network", m)
                }
            };
            if ends_with_domain(net, &msg) {
                ctx.discard();
                return Ok(());
            }
            let control = bundle.clone();
            insert(&mut bundle, Cond { op: mc::AGG_SIG_UNSAFE, key, msg: msg.clone() });
            ctx.render(|| format!("scenario={name} net={} flags={:?} build={mode:?} bundle={}", net.name, env.flags, render_bundle(&bundle)));
            ctx.label(format!("{name}:constant-of-op{}", dom_ops[k]));
            must_accept(
                &bundle,
                &control,
                &env,
                &mut signer,
                salt,
                "C05:unsafe-message-not-ending-in-domain-constant-rejected",
                &format!("AGG_SIG_UNSAFE message {} ({name}; the nearby constant is that of {})", hexs(&msg), op_name(dom_ops[k])),
                ctx,
                name,
            )?;
            ctx.nontrivial(fingerprint(&bundle, &[net_idx as u64, scenario as u64]));
        }
        _ => {
            // an unacceptable key in any of the 8 opcodes
            let bad = unacceptable_keys();
            let (kname, kbytes) = bad[s.below(bad.len())];
            let op = OPS[s.below(8)];
            let mut msg = prefix.clone();
            msg.truncate(64);
            if op == mc::AGG_SIG_UNSAFE {
                while ends_with_domain(net, &msg) {
                    let n = msg.len();
                    msg[n - 1] ^= 1;
                }
            }
            insert(&mut bundle, Cond { op, key: kbytes, msg: msg.clone() });
            ctx.render(|| format!("scenario=bad-key:{kname} net={} flags={:?} build={mode:?} bundle={}", net.name, env.flags, render_bundle(&bundle)));
            let sp = &bundle[si];
            let fm = net.final_message(op, &msg, &sp.parent, &sp.ph(), sp.amount);
            let over_others = signer.aggregate(&others);
            let mut with_pool_share = over_others.clone();
            with_pool_share.aggregate(&signer.share(key_idx, &fm));
            let all_sigs = [
                ("aggregate over the other conditions only (identity if there are none)", over_others),
                ("identity", Signature::default()),
                ("aggregate incl. a pool key's share over the bad-key condition's message", with_pool_share),
            ];
            let first = s.below(3);
            let sigs = [all_sigs[first].clone(), all_sigs[(first + 1) % 3].clone()];
            let sigs = if s.chance(80) { &sigs[..] } else { &sigs[..1] };
            ctx.label(format!("bad-key:{kname}:op{op}"));
            if others.is_empty() {
                ctx.label(format!("bad-key:{kname}:only-condition"));
            }
            let warm_pairs = if s.chance(64) { others.clone() } else { vec![] };
            must_reject_everywhere(
                &bundle,
                &env,
                sigs,
                &warm_pairs,
                &mut signer,
                &format!("C05:unacceptable-key-accepted:{kname}"),
                &format!("{} with the key {} ({kname})", op_name(op), hex::encode(kbytes)),
                ctx,
                "bad-key",
            )?;
            ctx.nontrivial(fingerprint(&bundle, &[net_idx as u64, 5]));
        }
    }
    for l in labels {
        ctx.label(l);
    }
    ctx.ran_dry(s.ran_dry());
    Ok(())
}

// ---------------------------------------------------------------------------

// ---------------------------------------------------------------------------
// sub-check 4: many signature conditions in one bundle. The other sub-checks
// keep bundles at 1-6 conditions because every case pays ~20 verifications; an
// implementation is free to treat long pair lists differently (batching,
// chunking, parallel verification, capacity limits), so the number of
// conditions itself is generated here: small counts, counts around every power
// of two from 64 to 2048 (±3) and arbitrary counts up to 1500. Every pair is
// distinct, so leaving out ANY single share must be noticed.

pub const SIG_MANY_POSITIVE: &str = "C05:many:correctly-signed-bundle-rejected";

/// the condition counts of a tier: small ones, every power of two from 64 to
/// 2048 with its neighbours, 1000, 1500 (thorough: wider neighbourhoods and
/// more in-between values)
fn many_counts(tier: Tier) -> Vec<usize> {
    let mut v: Vec<usize> = vec![1, 2, 3, 4, 5, 7, 8, 9, 15, 16, 17, 31, 32, 33, 1000, 1500];
    let (lo, hi): (usize, usize) = if tier == Tier::Thorough { (5, 9) } else { (1, 3) };
    for b in [64usize, 128, 256, 512, 1024, 2048] {
        for c in b - lo..=b + hi {
            v.push(c);
        }
    }
    if tier == Tier::Thorough {
        for k in 0..40 {
            v.push(41 + k * 37);
        }
    }
    v.sort_unstable();
    v.dedup();
    v
}

fn enum_many(tier: Tier, shard: usize, n: usize, emit: &mut dyn FnMut(&[u8]) -> bool) {
    let seeds: u64 = if tier == Tier::Thorough { 6 } else { 1 };
    // large counts first and interleaved over the shards (they dominate the cost)
    let mut counts = many_counts(tier);
    counts.reverse();
    let mut idx = 0usize;
    for seed in 0..seeds {
        for c in &counts {
            let mine = idx % n == shard;
            idx += 1;
            if !mine {
                continue;
            }
            let mut f = Fnv::new();
            f.write_u64(*c as u64).write_u64(seed);
            let mut bytes = (*c as u16).to_be_bytes().to_vec();
            bytes.extend_from_slice(&f.finish().to_le_bytes());
            if !emit(&bytes) {
                return;
            }
        }
    }
}

pub fn case_many(bytes: &[u8], ctx: &mut Ctx) -> CaseResult {
    let mut s = Src::new(bytes);
    let nets = nets();
    // bytes = [count (2 bytes, big endian), 8 bytes of further choices]
    let n = usize::from(s.u16()).clamp(1, 2100);
    let net_idx = s.weighted(&[3, 2, 2]);
    let flag_idx = s.below(proglevel::NUM_FLAG_SETS);
    let n_spends = 1 + s.below(3);
    let salt = s.u16();
    let mut bundle: Bundle = vec![];
    for i in 0..n_spends {
        let mut parent = [0x4du8; 32];
        parent[1] = i as u8 + 1;
        parent[2..4].copy_from_slice(&salt.to_be_bytes());
        bundle.push(Spend { parent, tag: 1 + s.below(condgen::NUM_TAGS) as u8, amount: gen_amount(&mut s), conds: vec![] });
    }
    let op_mix = s.below(3);
    for j in 0..n {
        // spread over the spends in blocks, so that a spend boundary falls anywhere
        let si = (j * n_spends) / n;
        let op = match op_mix {
            0 => OPS[j % 8],
            1 => OPS[(j / 7) % 8],
            _ => OPS[s.below(8)],
        };
        let key = condgen::key_pool().pks[(j + usize::from(salt)) % condgen::NUM_KEYS];
        let mut msg = (j as u32).to_be_bytes().to_vec();
        msg.extend_from_slice(&salt.to_be_bytes());
        if ends_with_domain(&nets[net_idx], &msg) {
            msg.push(0);
        }
        bundle[si].conds.push(Cond { op, key, msg });
    }
    let env = Env { net: &nets[net_idx], flags: proglevel::flag_set(flag_idx), mode: BuildMode::PLAIN, max_cost: 11_000_000_000 };
    let (pairs, _) = expected_pairs(&bundle, env.net);
    let mut signer = Signer::default();
    let shares: Vec<Signature> = pairs.iter().map(|(pk, m)| signer.share(key_index(pk).expect("pool key"), m)).collect();
    let mut full = Signature::default();
    for sh in &shares {
        full.aggregate(sh);
    }
    ctx.label(format!(
        "many:conds:{}",
        match n {
            0..=40 => "1-40",
            41..=1023 => "41-1023",
            1024 => "1024",
            1025..=1031 => "1025-1031",
            _ => "1032+",
        }
    ));
    ctx.label(format!("many:conds-mod-4:{}", n % 4));
    ctx.render(|| {
        format!(
            "net={} flags={:?} {n} AGG_SIG conditions over {n_spends} spends (op mix {op_mix}, salt {salt}); first spend: {}",
            env.net.name,
            env.flags,
            render_bundle(&bundle[..1].to_vec())
        )
    });
    // entry points: the mempool's pre-validation and block validation, for
    // moderate sizes also the remaining ones
    let mut entries = vec![Entry::Rbg2];
    if n <= 200 {
        entries.push(Entry::ParseMempool);
        entries.push(Entry::Rbg);
    }
    let mut rejected = vec![];
    for e in &entries {
        if let Err(err) = run_entry(*e, &bundle, &full, None, &env) {
            rejected.push(format!("{}: {err}", e.name()));
        }
    }
    // pre-validation, and the pairings it returns: one per condition
    let sb = SpendBundle::new(coin_spends(&bundle), full.clone());
    let gts = match validate_clvm_and_signature(&sb, env.max_cost, &env.net.consts, env.flags) {
        Ok((_, gts)) => Some(gts),
        Err(e) => {
            rejected.push(format!("validate_clvm_and_signature: {e:?}"));
            None
        }
    };
    vensure!(
        rejected.is_empty(),
        SIG_MANY_POSITIVE,
        "{n} AGG_SIG conditions, signed with the aggregate of one share per (key, final message) pair the rules prescribe, rejected at: {}",
        rejected.join("; ")
    );
    if let Some(gts) = gts {
        let mut want: Vec<[u8; 32]> = pairs
            .iter()
            .map(|(pk, m)| {
                let mut aug = pk.clone();
                aug.extend_from_slice(m);
                condgen::sha(&[&aug])
            })
            .collect();
        let mut got: Vec<[u8; 32]> = gts.iter().map(|(h, _)| *h).collect();
        want.sort_unstable();
        got.sort_unstable();
        vensure!(
            want == got,
            "C05:many:prevalidation-pairings-differ-from-conditions",
            "validate_clvm_and_signature returned {} pairings for {} signature conditions (as multisets of sha256(key | message) they differ)",
            got.len(),
            want.len()
        );
    }
    // leave out one share. Small bundles: last three, first, a middle one, at both
    // entry points; large ones (cost!): the last at both, one other (first or a
    // middle one) at one of them
    let other = if s.bool() { 0 } else { s.below(n) };
    let mut runs: Vec<(usize, Entry)> = vec![];
    if n <= 200 {
        let mut idxs = vec![n - 1, n.saturating_sub(2), n.saturating_sub(3), 0, other];
        idxs.sort_unstable();
        idxs.dedup();
        for i in idxs {
            runs.push((i, Entry::Validate));
            runs.push((i, Entry::Rbg2));
        }
    } else {
        runs.push((n - 1, Entry::Validate));
        runs.push((n - 1, Entry::Rbg2));
        runs.push((other, if salt % 2 == 0 { Entry::Validate } else { Entry::Rbg2 }));
    }
    let mut executed = 0u64;
    for (i, e) in runs {
        let mut sig = Signature::default();
        for (j, sh) in shares.iter().enumerate() {
            if j != i {
                sig.aggregate(sh);
            }
        }
        if run_entry(e, &bundle, &sig, None, &env).is_ok() {
            vfail!(
                "C05:many:accepted-with-one-share-missing",
                "{n} AGG_SIG conditions (all pairs distinct): the aggregate WITHOUT the share of pair #{i} is accepted at {}",
                e.name()
            );
        }
        executed += 1;
    }
    ctx.add_inner(executed);
    ctx.ran_dry(s.ran_dry());
    if n >= 2 {
        ctx.nontrivial(fingerprint(&bundle, &[net_idx as u64, flag_idx as u64, n as u64]));
    }
    Ok(())
}

fn leak(v: Vec<String>) -> &'static [&'static str] {
    let v: Vec<&'static str> = v.into_iter().map(|s| &*Box::leak(s.into_boxed_str())).collect();
    Box::leak(v.into_boxed_slice())
}

fn required_bundle_labels() -> &'static [&'static str] {
    let mut v: Vec<String> = vec![];
    for kind in KINDS {
        for op in kind_ops(kind) {
            for state in ["none", "cold", "warm"] {
                v.push(format!("tamper:{kind}:{op}:cache-{state}"));
            }
        }
        for e in ALL_ENTRIES {
            v.push(format!("tamper:{kind}:{}", e.name()));
        }
    }
    for op in 43..=50 {
        v.push(format!("accepted:op{op}"));
    }
    for n in 0..=9 {
        v.push(format!("amount-signed:enc-len:{n}"));
    }
    for l in ["0", "1-30", "31", "32", "33", "63-65", "66-1022", "1023", "1024"] {
        v.push(format!("msg-len:{l}"));
    }
    for net in ["test", "alt", "rotated"] {
        v.push(format!("net:{net}"));
    }
    for (e, states) in [
        ("parse_spends-block", &["none", "cold", "warm"][..]),
        ("parse_spends-mempool", &["none", "cold", "warm"][..]),
        ("run_block_generator2", &["none", "cold", "warm"][..]),
        ("run_block_generator", &["none", "warm"][..]),
        ("validate_clvm_and_signature", &["none"][..]),
    ] {
        for st in states {
            v.push(format!("positive:{e}:cache-{st}"));
        }
    }
    v.push("positive:parse_spends:cache-prevalidated".into());
    v.push("prevalidation:every-rules-pair-has-a-returned-pairing".into());
    v.push("tamper-rejected-as:BadAggregateSignature".into());
    v.push("has-duplicate-pair".into());
    v.push("msg:ends-in-domain-constant".into());
    v.push("msg:ends-in-coin-attribute".into());
    v.push("nontrivial".into());
    leak(v)
}

fn required_final_labels() -> &'static [&'static str] {
    let mut v = vec![];
    for op in 43..=50 {
        for n in 0..=9 {
            v.push(format!("final-message:op{op}:amount-enc-len:{n}"));
        }
    }
    leak(v)
}

fn required_unsafe_labels() -> &'static [&'static str] {
    let mut v = vec![];
    for op in [43, 44, 45, 46, 47, 48, 50] {
        v.push(format!("unsafe-banned:constant-of-op{op}"));
        v.push(format!("unsafe-near-miss:constant-of-op{op}"));
    }
    for p in 0..32 {
        v.push(format!("unsafe-near-miss:byte:{p}"));
    }
    for n in [1, 31] {
        v.push(format!("unsafe-short:len:{n}"));
    }
    for l in ["0", "1-30", "31", "32", "33", "63-65", "66-1022"] {
        v.push(format!("unsafe-banned:prefix-len:{l}"));
    }
    for (kname, _) in unacceptable_keys() {
        for op in 43..=50 {
            v.push(format!("bad-key:{kname}:op{op}"));
        }
    }
    v.push("bad-key:infinity:only-condition".into());
    for e in ALL_ENTRIES {
        for st in ["none", "cold", "warm"] {
            if e == Entry::Validate && st != "none" {
                continue;
            }
            v.push(format!("unsafe-banned:rejected:{}:cache-{st}", e.name()));
            v.push(format!("bad-key:rejected:{}:cache-{st}", e.name()));
            if st == "none" || COLD_ROTATION.contains(&e) {
                v.push(format!("unsafe-near-miss:accepted:{}:cache-{st}", e.name()));
            }
        }
    }
    v.push("unsafe-constant-not-last:accepted:run_block_generator2:cache-cold".into());
    v.push("unsafe-constant-of-other-network:accepted:run_block_generator2:cache-cold".into());
    v.push("unsafe-short:accepted:run_block_generator2:cache-cold".into());
    leak(v)
}

pub fn property() -> Property {
    Property {
        id: "C05",
        rule: "bundle sub-check: a case is (network in {TEST_CONSTANTS, fresh distinct additional-data constants, TEST_CONSTANTS' seven values rotated by one opcode}, flag set, allocator representation, 1-3 spends with tagged-identity puzzles and amounts from every encoded-length class 0..9 bytes, 1-6 AGG_SIG conditions over the 8 opcodes with pool keys and messages of 0..1024 bytes incl. ones ending in a domain constant or in a coin attribute and repeated conditions). The harness derives the (key, final message) multiset from its own opcode table, signs it, requires acceptance at 11 entry-point x cache combinations, then applies 19 single-point tamperings; each that changes the (multiset, signature) relation is run at parse_spends with the warm cache, at one cache-less entry point in rotation and every third time at an entry point with a cold cache, and must be rejected. Non-trivial = >=2 distinct AGG_SIG opcodes or >=2 keys, positive case accepted everywhere, every applicable tampering (at least 12 of 19) executed and rejected; distinct by (bundle, network, flags). final-message sub-check: non-trivial = bundle with >=1 condition whose rules-derived multiset was compared with run_spendbundle's pkm_pairs and make_aggsig_final_message. many-signatures sub-check: see its description; non-trivial = >= 2 conditions. unsafe-and-keys sub-check: non-trivial = every generated scenario (banned suffix, near miss, short, constant not last, other network's constant, unacceptable key) that ran to its verdict.",
        assumptions: &[
            "the harness's own table: ME coin id; PARENT parent id; PUZZLE puzzle hash; AMOUNT minimal amount encoding; PUZZLE_AMOUNT ph+amount; PARENT_AMOUNT parent+amount; PARENT_PUZZLE parent+ph; UNSAFE nothing; then the constants field named after the opcode; coin id = sha256(parent|ph|minimal amount)",
            "shares are made with chia_bls::sign (augmented scheme) and aggregated by the harness; BLS arithmetic itself is decided by C15/C16",
            "two different (key, message) multisets do not share a valid aggregate (cryptographic assumption); tamperings that leave the multiset intact are counted, not judged",
            "error codes are recorded as labels only, never compared",
        ],
        death_is_violation: false,
        subchecks: vec![
            SubCheck {
                name: "bundle",
                about: "correctly signed bundles accepted at every entry point x cache state; 19 single-point tamperings rejected",
                source: Source::Random { len: 768, quick: 3_600, thorough: 60_000 },
                run: case_bundle,
                inflight: false,
                min_nontrivial: 2_000,
                required_labels: required_bundle_labels(),
            },
            SubCheck {
                name: "final-message",
                about: "rules' messages == run_spendbundle's pkm_pairs == make_aggsig_final_message, no pairing involved",
                source: Source::Random { len: 768, quick: 80_000, thorough: 2_000_000 },
                run: case_final_message,
                inflight: false,
                min_nontrivial: 50_000,
                required_labels: required_final_labels(),
            },
            SubCheck {
                name: "unsafe-and-keys",
                about: "AGG_SIG_UNSAFE suffix ban (and its near misses), infinity / malformed / off-subgroup keys, at every entry point",
                source: Source::Random { len: 512, quick: 12_000, thorough: 240_000 },
                run: case_unsafe_and_keys,
                inflight: false,
                min_nontrivial: 6_000,
                required_labels: required_unsafe_labels(),
            },
            SubCheck {
                name: "many-signatures",
                about: "bundles with 1-2052 distinct AGG_SIG conditions (counts around every power of two from 64 to 2048, around 1000, and arbitrary ones up to 1500): the full aggregate is accepted by pre-validation and block validation, pre-validation returns one pairing per condition, the aggregate with any one share left out (last three, first, a middle one) is rejected",
                source: Source::Enumerate { f: enum_many, exhaustive: false },
                run: case_many,
                inflight: false,
                min_nontrivial: 40,
                required_labels: &["many:conds:1-40", "many:conds:41-1023", "many:conds:1025-1031", "many:conds:1032+", "many:conds-mod-4:1", "many:conds-mod-4:2", "many:conds-mod-4:3"],
            },
        ],
    }
}
