fn main() {
    vcore::engine::main(c05::property());
}
