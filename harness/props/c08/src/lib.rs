//! C08 — what the mempool validated is what the block yields.
//! Differential over five paths under the same flags, plus the cost relations
//! between them and the generator-length predictor.

use chia_bls::Signature;
use chia_consensus::build_compressed_block::BlockBuilder;
use chia_consensus::build_interned_block::InternedBlockBuilder;
use chia_consensus::conditions::{ELIGIBLE_FOR_DEDUP, ELIGIBLE_FOR_FF};
use chia_consensus::consensus_constants::TEST_CONSTANTS;
use chia_consensus::flags::ConsensusFlags;
use chia_consensus::owned_conditions::OwnedSpendBundleConditions;
use chia_consensus::run_block_generator::run_block_generator2;
use chia_consensus::solution_generator::{calculate_generator_length, solution_generator, solution_generator_backrefs};
use chia_consensus::spendbundle_conditions::run_spendbundle;
use chia_consensus::validation_error::ValidationErr;
use chia_protocol::{Bytes, CoinSpend, SpendBundle};
use clvmr::Allocator;
use vcore::condgen::{self, GenCfg};
use vcore::engine::{CaseResult, Ctx, Failure, Property, Source, SubCheck};
use vcore::gentree::Tree;
use vcore::proglevel;
use vcore::{vensure, vensure_eq, vfail, Fnv, Src};

type RunResult = Result<OwnedSpendBundleConditions, ValidationErr>;

fn block(generator: &[u8], flags: ConsensusFlags) -> RunResult {
    let refs: Vec<Vec<u8>> = vec![];
    run_block_generator2(generator, &refs, u64::MAX / 4, flags, &Signature::default(), None, &TEST_CONSTANTS).map(|(a, c)| proglevel::owned(&a, c))
}

/// the conditions as the property compares them: everything except the
/// mempool-only eligibility bits, the fingerprint and per-path costs
fn normalise(o: &OwnedSpendBundleConditions) -> OwnedSpendBundleConditions {
    let mut n = o.clone();
    for s in &mut n.spends {
        s.flags &= !(ELIGIBLE_FOR_DEDUP | ELIGIBLE_FOR_FF);
        s.fingerprint = Bytes::default();
    }
    n.spends.sort_by(|a, b| a.coin_id.cmp(&b.coin_id));
    // bundle-level unsafe signatures are listed in spend order, and the
    // generator builders list the spends in reverse: compare as a multiset
    n.agg_sig_unsafe.sort_by(|a, b| (a.0.to_bytes(), a.1.as_slice()).cmp(&(b.0.to_bytes(), b.1.as_slice())));
    n.cost = 0;
    n.execution_cost = 0;
    n.num_atoms = 0;
    n.num_pairs = 0;
    n.heap_size = 0;
    n
}

fn same_conditions(mempool: &OwnedSpendBundleConditions, blk: &OwnedSpendBundleConditions, path: &str) -> CaseResult {
    let a = normalise(mempool);
    let b = normalise(blk);
    if a != b {
        // report the first difference only
        let mut what = String::new();
        if a.spends.len() != b.spends.len() {
            what = format!("{} vs {} spends", a.spends.len(), b.spends.len());
        } else if let Some((x, y)) = a.spends.iter().zip(b.spends.iter()).find(|(x, y)| x != y) {
            what = format!("spend differs:\n mempool {x:?}\n block   {y:?}");
        } else {
            let (mut x, mut y) = (a.clone(), b.clone());
            x.spends.clear();
            y.spends.clear();
            what = format!("bundle-level fields differ:\n mempool {x:?}\n block   {y:?}");
        }
        vfail!(format!("C08:{path}:conditions-differ"), "mempool path vs {path}: {what}");
    }
    Ok(())
}

/// spends with richer reveals: solutions padded with REMARK conditions that
/// share sub-trees between spends, so that compression and interning bite
fn gen_coin_spends(s: &mut Src<'_>) -> (Vec<CoinSpend>, Tree, u32, usize, Vec<String>) {
    let mut cfg = GenCfg::standard();
    cfg.shape_mutations = false;
    cfg.huge = false;
    cfg.careful_rate = 215;
    cfg.mutation_rate = 30;
    // a quarter of the bundles use puzzles that RUN a program from the solution
    // (conditions computed at run time, optionally behind an operator probe whose
    // outcome depends on the operator flags)
    let eval_mode = s.chance(64);
    cfg.eval_puzzles = eval_mode;
    let mut b = condgen::gen_bundle(s, &cfg);
    let shared = s.chance(120);
    let mut out = vec![];
    // rarely: a bundle whose PLAIN serialization approaches or exceeds a
    // megabyte while its content is highly repetitive (two spends carrying the
    // same very large atom, or thousands of spends sharing one puzzle) — the
    // regime where byte pricing, interned pricing and compression differ most
    let bulk = s.below(500);
    if bulk >= 498 {
        let t = &mut b.tree;
        let phs = condgen::tag_puzzle_hashes();
        let pz = condgen::tagged_identity(t, 1);
        let mut spends = vec![];
        if bulk == 498 {
            let n = 400_000 + s.below(120_000);
            let big = vec![0x5au8; n];
            let op = t.atom(&[1]);
            let ba = t.atom(&big);
            let remark = t.list(&[op, ba]);
            let sol = t.list(&[remark]);
            for i in 0..2u8 {
                let mut parent = [0x77u8; 32];
                parent[31] = i;
                spends.push(proglevel::coin_spend(t, parent, phs[0], 1000 + u64::from(i), pz, sol));
            }
        } else {
            let n = 2800 + s.below(600);
            let filler = vec![0x33u8; 280];
            let op = t.atom(&[1]);
            let fa = t.atom(&filler);
            let remark = t.list(&[op, fa]);
            let sol = t.list(&[remark]);
            for i in 0..n {
                let mut parent = [0x78u8; 32];
                parent[28..32].copy_from_slice(&(i as u32).to_be_bytes());
                spends.push(proglevel::coin_spend(t, parent, phs[0], 1, pz, sol));
            }
        }
        return (spends, b.tree, 1, 1, vec!["bulk-repetitive-bundle".to_string(), "shared-subtrees".to_string()]);
    }
    // a blob shared between several spends
    let blob_len = s.range(1, 200);
    let blob = s.bytes(blob_len);
    let shared_node = {
        let t = &mut b.tree;
        let a1 = t.atom(&blob);
        let a2 = t.atom(b"shared-subtree");
        let inner = t.list(&[a1, a2, a1]);
        let op = t.atom(&[1]);
        t.list(&[op, inner, inner])
    };
    let mut probe_labels: Vec<String> = vec![];
    for sp in b.spends.clone().iter() {
        let mut sol = if shared && s.bool() {
            // prepend a REMARK carrying the shared sub-tree to this spend's conditions
            b.tree.pair(shared_node, sp.cond_list)
        } else {
            sp.cond_list
        };
        if eval_mode {
            let mut budget = 30usize;
            let mut prog = proglevel::computed_program(&mut b.tree, sol, s, &mut budget, 0);
            if s.chance(90) {
                let (p, name) = proglevel::with_probe(&mut b.tree, prog, s);
                prog = p;
                probe_labels.push(name.to_string());
            }
            sol = b.tree.list(&[prog]);
        }
        out.push(proglevel::coin_spend(&b.tree, sp.parent, sp.puzzle_hash, sp.amount, sp.puzzle, sol));
    }
    let amount_classes: std::collections::BTreeSet<usize> = b.spends.iter().map(|sp| vcore::model::int::enc_u64(sp.amount).len()).collect();
    let mut labels: Vec<String> = b.labels.iter().filter(|l| l.starts_with("plan:") || l.starts_with("spends:")).cloned().collect();
    if shared {
        labels.push("shared-subtrees".into());
    }
    if eval_mode {
        labels.push("puzzles:run-program-from-solution".into());
    }
    labels.extend(probe_labels);
    let n_conds = b.n_conds;
    (out, b.tree, amount_classes.len() as u32, n_conds, labels)
}

pub fn case_paths(bytes: &[u8], ctx: &mut Ctx) -> CaseResult {
    let mut s = Src::new(bytes);
    let mut flags = proglevel::flag_set(s.below(proglevel::NUM_FLAG_SETS)) | ConsensusFlags::DONT_VALIDATE_SIGNATURE;
    let interned = s.chance(100);
    if interned {
        flags |= ConsensusFlags::INTERNED_GENERATOR;
    }
    let (coin_spends, _tree, amount_classes, n_conds, labels) = gen_coin_spends(&mut s);
    // operator flags (hard-fork activations): every subset, the same for all paths
    flags |= proglevel::op_flag_subset(s.below(64));
    // the mempool's own bookkeeping flag (the real mempool runs
    // MEMPOOL_MODE | COMPUTE_FINGERPRINT)
    let fingerprint = s.chance(90);
    if fingerprint {
        flags |= ConsensusFlags::COMPUTE_FINGERPRINT;
        ctx.label("flags:compute-fingerprint");
    }
    ctx.ran_dry(s.ran_dry());
    for l in labels.iter() {
        ctx.label(l.clone());
    }
    ctx.label(if interned { "pricing:interned" } else { "pricing:bytes" });
    let cpb = TEST_CONSTANTS.cost_per_byte;
    let bundle = SpendBundle::new(coin_spends.clone(), Signature::default());
    ctx.render(|| {
        let mut d = format!("flags={flags:?} coin_spends=[");
        for cs in &coin_spends {
            d.push_str(&format!(
                "{{parent={} amount={} puzzle={} solution={}}} ",
                &hex(cs.coin.parent_coin_info.as_slice())[..8],
                cs.coin.amount,
                hex(cs.puzzle_reveal.as_slice()),
                hex_cut(cs.solution.as_slice(), 160)
            ));
        }
        d.push(']');
        d
    });

    // ---- predicted vs actual generator length
    let it = || coin_spends.iter().map(|cs| (cs.coin, cs.puzzle_reveal.as_slice(), cs.solution.as_slice()));
    let plain = solution_generator(it()).expect("solution_generator");
    let predicted = calculate_generator_length(&coin_spends);
    vensure_eq!(predicted, plain.len(), "C08:predicted-generator-length", "calculate_generator_length vs solution_generator().len()");
    let compressed = solution_generator_backrefs(it()).expect("solution_generator_backrefs");

    // ---- the five paths
    let mut a = Allocator::new();
    let mempool = run_spendbundle(&mut a, &bundle, u64::MAX / 4, flags, &TEST_CONSTANTS).map(|(c, _)| proglevel::owned(&a, c));
    let b_plain = block(&plain, flags);
    let b_comp = block(&compressed, flags);

    // builders (declared cost 0: only the generator bytes matter here)
    let built_compressed: Option<Vec<u8>> = (|| {
        let mut bb = BlockBuilder::new().ok()?;
        let (added, _) = bb.add_spend_bundles([&bundle], 0, &TEST_CONSTANTS).ok()?;
        if !added {
            return None;
        }
        let (g, _sig, _cost) = bb.finalize(&TEST_CONSTANTS).ok()?;
        Some(g)
    })();
    let built_interned: Option<Vec<u8>> = (|| {
        let mut ib = InternedBlockBuilder::new(&TEST_CONSTANTS);
        let (added, _) = ib.add_spend_bundles([&bundle], 0).ok()?;
        if !added {
            return None;
        }
        let (g, _sig, _cost) = ib.finalize().ok()?;
        Some(g)
    })();
    let bulk_case = labels.iter().any(|l| l == "bulk-repetitive-bundle");
    if !bulk_case {
        vensure!(built_compressed.is_some(), "C08:builder:compressed-builder-refused-small-bundle", "BlockBuilder did not add a single small bundle with declared cost 0");
        vensure!(built_interned.is_some(), "C08:builder:interned-builder-refused-small-bundle", "InternedBlockBuilder did not add a single small bundle with declared cost 0");
    }
    let b_bc = built_compressed.as_ref().map(|g| block(g, flags));
    let b_bi = built_interned.as_ref().map(|g| block(g, flags));

    let mut paths: Vec<(&str, &RunResult, &[u8])> = vec![("plain-generator", &b_plain, &plain), ("backref-generator", &b_comp, &compressed)];
    if let (Some(r), Some(g)) = (&b_bc, &built_compressed) {
        paths.push(("compressed-builder", r, g));
    }
    if let (Some(r), Some(g)) = (&b_bi, &built_interned) {
        paths.push(("interned-builder", r, g));
    }
    match &mempool {
        Err(e) => {
            ctx.label("mempool:rejected");
            for (name, r, _) in &paths {
                if r.is_ok() {
                    let lenient_fingerprint = fingerprint
                        && !flags.contains(ConsensusFlags::NO_UNKNOWN_CONDS)
                        && matches!(e, chia_consensus::validation_error::ValidationErr::Err(chia_consensus::validation_error::ErrorCode::InvalidConditionOpcode));
                    if lenient_fingerprint {
                        ctx.known_or_fail("C08:fingerprint-of-lenient-mode-bundle-fails:block-accepts-what-mempool-rejected", || {
                            format!("with COMPUTE_FINGERPRINT but without mempool strictness, run_spendbundle rejects with {e:?} (the fingerprint cannot be computed) while the {name} is accepted by run_block_generator2 under the same flags")
                        })?;
                        continue;
                    }
                    vfail!(format!("C08:{name}:block-accepts-what-mempool-rejected"), "run_spendbundle rejected with {e:?} but the {name} is accepted by run_block_generator2");
                }
            }
        }
        Ok(m) => {
            ctx.label("mempool:accepted");
            let mut plain_cost = 0u64;
            let mut plain_exec = 0u64;
            for (name, r, gen) in &paths {
                let blk = match r {
                    Ok(b) => b,
                    Err(e) => vfail!(format!("C08:{name}:block-rejects-what-mempool-accepted"), "run_spendbundle accepted but the {name} is rejected by run_block_generator2: {e:?}"),
                };
                same_conditions(m, blk, name)?;
                vensure_eq!(blk.condition_cost, m.condition_cost, format!("C08:{name}:condition-cost"), "condition_cost block vs mempool");
                // the generator itself is a quote: 20 of execution cost on the block side
                vensure_eq!(blk.execution_cost, m.execution_cost + 20, format!("C08:{name}:execution-cost"), "execution_cost block vs mempool + quote");
                if *name == "plain-generator" {
                    plain_cost = blk.cost;
                    plain_exec = blk.execution_cost;
                    let want = if interned { 20 } else { 20 + 2 * cpb };
                    vensure_eq!(blk.cost - m.cost, want, "C08:quote-wrapper-overhead", "cost(block from plain generator) - cost(mempool)");
                } else if interned {
                    // interned pricing does not depend on the serialization
                    vensure_eq!(blk.cost, plain_cost, format!("C08:{name}:interned-cost-depends-on-serialization"), "cost under INTERNED_GENERATOR vs the plain generator's");
                } else {
                    // byte pricing: everything but the byte cost is the same
                    vensure_eq!(
                        blk.cost - gen.len() as u64 * cpb,
                        plain_cost - plain.len() as u64 * cpb,
                        format!("C08:{name}:non-byte-cost-differs"),
                        "cost minus byte cost vs the plain generator's"
                    );
                }
                let _ = plain_exec;
            }
            if n_conds > 0 && (amount_classes >= 2 || labels.iter().any(|l| l == "shared-subtrees")) {
                let mut f = Fnv::new();
                f.write(&plain);
                f.write_u64(u64::from(flags.bits()));
                ctx.nontrivial(f.finish());
            }
        }
    }
    Ok(())
}

fn hex(b: &[u8]) -> String {
    b.iter().map(|x| format!("{x:02x}")).collect()
}
fn hex_cut(b: &[u8], n: usize) -> String {
    let mut s: String = b.iter().take(n).map(|x| format!("{x:02x}")).collect();
    if b.len() > n {
        s.push('…');
    }
    s
}

#[allow(dead_code)]
fn unused(_: Failure) {}

pub fn property() -> Property {
    Property {
        id: "C08",
        rule: "a case is a spend bundle (1-12 spends from the shared generator with tagged-identity puzzle reveals whose declared puzzle hashes match, amounts of every encoding length, solutions optionally padded with REMARK conditions sharing sub-trees across spends; plainly serialized reveals) and a flag set (8 fork/strictness sets × byte / INTERNED_GENERATOR pricing), run through run_spendbundle and through run_block_generator2 on four generators built from it (solution_generator, solution_generator_backrefs, BlockBuilder, InternedBlockBuilder). Non-trivial = the bundle was accepted, has ≥1 condition and (≥2 amount-length classes or shared sub-trees); distinct by (plain generator bytes, flags).",
        assumptions: &[
            "mempool-only outputs (ELIGIBLE_FOR_DEDUP/FF bits, fingerprint) and per-path cost/allocator statistics are excluded from the condition comparison; spends are matched by coin id",
            "the fixed quote-wrapper overhead is 20 (execution of the quote) plus 2 bytes at cost_per_byte in byte mode, 20 in interned mode",
            "reveals are plainly (canonically) serialized: the statement's precondition",
        ],
        subchecks: vec![SubCheck {
            name: "five-paths",
            about: "run_spendbundle vs run_block_generator2 over plain, back-reference, BlockBuilder and InternedBlockBuilder generators; cost relations; predicted length",
            source: Source::Random { len: 1536, quick: 120_000, thorough: 3_000_000 },
            run: case_paths,
            inflight: false,
            min_nontrivial: 10_000,
            required_labels: &["mempool:accepted", "mempool:rejected", "pricing:interned", "pricing:bytes", "shared-subtrees", "bulk-repetitive-bundle"],
        }],
        death_is_violation: false,
    }
}
