fn main() {
    vcore::engine::main(c08::property());
}
