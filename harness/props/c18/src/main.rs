fn main() {
    c18::run_main();
}
