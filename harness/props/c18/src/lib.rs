//! C18 — DataLayer Merkle blob stays a valid authenticated map under any history.
//!
//! Stateful model-based check. A case is a history of operations decoded from
//! the choice sequence and applied to one `MerkleBlob`; the reference is a
//! `BTreeMap<key, (value, leaf hash)>` that is updated **iff the operation
//! returned `Ok`** (the model has no failure policy of its own).
//!
//! After EVERY step (`check_state`):
//!   * `check_integrity()` is `Ok`;
//!   * `get_keys_values()` equals the model;
//!   * on a clone with hashes recomputed: the leaves reachable from index 0
//!     (walked with `get_node`) are exactly the model's (key, value, hash);
//!     `get_hash_at_index(0)` equals the harness's own bottom-up recomputation
//!     (`sha256(0x02 | left | right)`, re-implemented here with the `sha2`
//!     crate); every key has a proof of inclusion whose `node_hash` is the key's
//!     leaf hash, `valid()`, `root_hash()` = root, and whose layers fold to the
//!     root with the harness's own fold;
//!   * `MerkleBlob::new(read_blob().clone())` succeeds, has the same content,
//!     passes integrity and has the same root;
//!   * if the operation returned `Err` (or is not a mutation at all) the leaf
//!     count and root are what they were before (content equality with the
//!     unchanged model covers key/value content).
//! No panics anywhere: every call into the code under test runs under
//! `catch_unwind` so that a panic is attributed to the operation kind.
//!
//! Failure signatures are `C18:<operation kind>:<ok-but|err-but>-<invariant>`
//! (or `C18:<operation kind>:panic`): the operation kind is a *class* of the
//! operation (e.g. `batch_insert-dup`, `upsert-foreign-hash`,
//! `insert-at-free`), never input data. Known findings are keyed on them.

use std::collections::{BTreeMap, BTreeSet};
use std::panic::{catch_unwind, AssertUnwindSafe};

use chia_datalayer::{
    Hash, InsertLocation, KeyId, MerkleBlob, Node, ProofOfInclusion, Side, TreeIndex, ValueId,
    BLOCK_SIZE,
};
use chia_protocol::Bytes32;
use sha2::{Digest, Sha256};
use vcore::engine::{self, CaseResult, Ctx, Failure, Property, Source, SubCheck};
use vcore::{Fnv, Src};

type H32 = [u8; 32];
/// key -> (value, leaf hash)
type Model = BTreeMap<i64, (i64, H32)>;

// --------------------------------------------------------------------------
// harness-side hashing (independent of chia-datalayer / chia-sha2)

fn sha(parts: &[&[u8]]) -> H32 {
    let mut h = Sha256::new();
    for p in parts {
        h.update(p);
    }
    h.finalize().into()
}

/// definition of an internal node's hash, re-implemented from the statement
/// of `internal_hash` in blob.rs: sha256(0x02 | left | right)
fn internal(l: &H32, r: &H32) -> H32 {
    sha(&[&[2u8], l, r])
}

fn derived_hash(key: i64, value: i64) -> H32 {
    sha(&[b"c18-leaf", &key.to_be_bytes(), &value.to_be_bytes()])
}

fn pool_hash(i: usize) -> H32 {
    sha(&[b"c18-pool", &[i as u8]])
}

fn rnd_hash(x: u32) -> H32 {
    sha(&[b"c18-rand", &x.to_be_bytes()])
}

fn mix64(x: u64) -> u64 {
    let mut z = x.wrapping_add(0x9e37_79b9_7f4a_7c15);
    z = (z ^ (z >> 30)).wrapping_mul(0xbf58_476d_1ce4_e5b9);
    z = (z ^ (z >> 27)).wrapping_mul(0x94d0_49bb_1331_11eb);
    z ^ (z >> 31)
}

fn to_hash(h: &H32) -> Hash {
    Hash(Bytes32::new(*h))
}

fn from_hash(h: &Hash) -> H32 {
    <[u8; 32]>::from(h.0)
}

fn hx(h: &H32) -> String {
    let mut s = String::new();
    for b in &h[..4] {
        s.push_str(&format!("{b:02x}"));
    }
    s.push('…');
    s
}

// --------------------------------------------------------------------------
// running code under test

fn guard<T>(f: impl FnOnce() -> T) -> Result<T, String> {
    catch_unwind(AssertUnwindSafe(f)).map_err(|e| {
        if let Some(s) = e.downcast_ref::<&str>() {
            (*s).to_string()
        } else if let Some(s) = e.downcast_ref::<String>() {
            s.clone()
        } else {
            "<non-string panic>".to_string()
        }
    })
}

/// (invariant name, human message)
type Broken = (&'static str, String);

#[derive(Default, Clone)]
struct Obs {
    root: Option<H32>,
    /// recomputed hashes of the internal nodes: a caller can compute them from the
    /// tree or read them off any inclusion proof, and may well hand one in as the
    /// hash of a new leaf
    internal_hashes: Vec<H32>,
    leaves: usize,
    leaf_idx: Vec<u32>,
    internal_idx: Vec<u32>,
    free_idx: Vec<u32>,
    nblocks: u32,
}

struct Walk {
    root: Option<H32>,
    /// key -> (value, hash, index)
    leaves: BTreeMap<i64, (i64, H32, u32)>,
    leaf_idx: Vec<u32>,
    internal_idx: Vec<u32>,
    /// recomputed hashes of the internal nodes (the root's included)
    internal_hashes: Vec<H32>,
    dup_key: Option<i64>,
}

/// walk the tree from index 0 with `get_node`, recomputing every internal hash
/// bottom-up from the leaf hashes (stored internal hashes are not used)
fn walk(blob: &MerkleBlob) -> Result<Walk, String> {
    let nblocks = blob.read_blob().len() / BLOCK_SIZE;
    let mut w = Walk {
        root: None,
        leaves: BTreeMap::new(),
        leaf_idx: vec![],
        internal_idx: vec![],
        internal_hashes: vec![],
        dup_key: None,
    };
    if nblocks == 0 {
        return Ok(w);
    }
    let mut seen: BTreeSet<u32> = BTreeSet::new();
    // explicit stack: (index, expected parent, state, left hash)
    enum Frame {
        Enter(u32, Option<u32>),
        Right(u32, u32),       // index, right child: left hash is on the value stack
        Combine(u32),
    }
    let mut stack = vec![Frame::Enter(0, None)];
    let mut vals: Vec<H32> = vec![];
    while let Some(f) = stack.pop() {
        match f {
            Frame::Enter(idx, _parent) => {
                if !seen.insert(idx) {
                    return Err(format!("index {idx} reached twice (cycle or shared child)"));
                }
                if seen.len() > nblocks {
                    return Err("more reachable nodes than blocks".into());
                }
                let node = guard(|| blob.get_node(TreeIndex(idx)))
                    .map_err(|p| format!("get_node({idx}) panicked: {p}"))?
                    .map_err(|e| format!("get_node({idx}) = Err({e})"))?;
                match node {
                    Node::Leaf(l) => {
                        let h = from_hash(&l.hash);
                        if w.leaves.insert(l.key.0, (l.value.0, h, idx)).is_some() {
                            w.dup_key = Some(l.key.0);
                        }
                        w.leaf_idx.push(idx);
                        vals.push(h);
                    }
                    Node::Internal(n) => {
                        w.internal_idx.push(idx);
                        stack.push(Frame::Right(idx, n.right.0));
                        stack.push(Frame::Enter(n.left.0, Some(idx)));
                    }
                }
            }
            Frame::Right(idx, right) => {
                stack.push(Frame::Combine(idx));
                stack.push(Frame::Enter(right, Some(idx)));
            }
            Frame::Combine(_idx) => {
                let r = vals.pop().expect("value stack");
                let l = vals.pop().expect("value stack");
                let h = internal(&l, &r);
                w.internal_hashes.push(h);
                vals.push(h);
            }
        }
    }
    w.root = vals.pop();
    Ok(w)
}

fn kv_of(model: &Model) -> BTreeMap<i64, i64> {
    model.iter().map(|(k, (v, _))| (*k, *v)).collect()
}

fn diff_maps(got: &BTreeMap<i64, i64>, want: &BTreeMap<i64, i64>) -> String {
    for (k, v) in want {
        match got.get(k) {
            None => return format!("key {k} (value {v}) is in the model but not in the blob"),
            Some(g) if g != v => return format!("key {k}: blob has value {g}, model has {v}"),
            _ => {}
        }
    }
    for (k, v) in got {
        if !want.contains_key(k) {
            return format!("key {k} (value {v}) is in the blob but not in the model");
        }
    }
    "equal".into()
}

fn fold_proof(p: &ProofOfInclusion) -> Result<H32, String> {
    let mut h = from_hash(&p.node_hash);
    for (i, l) in p.layers.iter().enumerate() {
        let other = from_hash(&l.other_hash);
        h = match l.other_hash_side {
            Side::Left => internal(&other, &h),
            Side::Right => internal(&h, &other),
        };
        if h != from_hash(&l.combined_hash) {
            return Err(format!(
                "layer {i}: sha256(02|…) of the running hash and other_hash (side {:?}) is {}, layer says combined_hash {}",
                l.other_hash_side,
                hx(&h),
                hx(&from_hash(&l.combined_hash))
            ));
        }
    }
    Ok(h)
}

/// all the invariants the statement gives for "after any sequence"
fn check_state(blob: &MerkleBlob, model: &Model) -> Result<Obs, Broken> {
    // 1. the blob's own integrity check
    match guard(|| blob.check_integrity()) {
        Ok(Ok(())) => {}
        Ok(Err(e)) => return Err(("integrity-fails", format!("check_integrity() = Err({e})"))),
        Err(p) => return Err(("integrity-fails", format!("check_integrity() panicked: {p}"))),
    }
    // 2. key/value content through the API
    let kv = match guard(|| blob.get_keys_values()) {
        Ok(Ok(m)) => m,
        Ok(Err(e)) => return Err(("content-unreadable", format!("get_keys_values() = Err({e})"))),
        Err(p) => return Err(("content-unreadable", format!("get_keys_values() panicked: {p}"))),
    };
    let kv: BTreeMap<i64, i64> = kv.into_iter().map(|(k, v)| (k.0, v.0)).collect();
    let want = kv_of(model);
    if kv != want {
        return Err((
            "content-differs",
            format!("get_keys_values() differs from the model: {}", diff_maps(&kv, &want)),
        ));
    }
    // 3. recompute hashes on a clone; walk the tree
    let mut c = blob.clone();
    c.check_integrity_on_drop = false;
    match guard(|| c.calculate_lazy_hashes()) {
        Ok(Ok(())) => {}
        Ok(Err(e)) => return Err(("recompute-hashes-fails", format!("calculate_lazy_hashes() = Err({e})"))),
        Err(p) => return Err(("recompute-hashes-fails", format!("calculate_lazy_hashes() panicked: {p}"))),
    }
    let w = match walk(&c) {
        Ok(w) => w,
        Err(e) => return Err(("tree-walk-fails", format!("walking the tree from index 0: {e}"))),
    };
    if let Some(k) = w.dup_key {
        return Err(("content-differs", format!("key {k} is held by two leaves reachable from the root")));
    }
    let tree_kv: BTreeMap<i64, i64> = w.leaves.iter().map(|(k, (v, _, _))| (*k, *v)).collect();
    if tree_kv != want {
        return Err((
            "content-differs",
            format!("leaves reachable from the root differ from the model: {}", diff_maps(&tree_kv, &want)),
        ));
    }
    for (k, (_, h, _)) in &w.leaves {
        let mh = &model[k].1;
        if h != mh {
            return Err((
                "content-differs",
                format!("leaf of key {k} holds hash {}, the successful operations gave it {}", hx(h), hx(mh)),
            ));
        }
    }
    // 4. root hash = independent recomputation
    let nblocks = (c.read_blob().len() / BLOCK_SIZE) as u32;
    if !model.is_empty() {
        let my_root = w.root.expect("non-empty walk has a root");
        match guard(|| c.get_hash_at_index(TreeIndex(0))) {
            Ok(Ok(Some(h))) => {
                if from_hash(&h) != my_root {
                    return Err((
                        "root-hash-mismatch",
                        format!(
                            "after calculate_lazy_hashes get_hash_at_index(0) = {}, bottom-up recomputation over the tree gives {}",
                            hx(&from_hash(&h)),
                            hx(&my_root)
                        ),
                    ));
                }
            }
            Ok(Ok(None)) => return Err(("root-hash-mismatch", "get_hash_at_index(0) = None on a non-empty map".into())),
            Ok(Err(e)) => {
                return Err(("root-hash-mismatch", format!("after calculate_lazy_hashes get_hash_at_index(0) = Err({e})")))
            }
            Err(p) => return Err(("root-hash-mismatch", format!("get_hash_at_index(0) panicked: {p}"))),
        }
        // 5. every key has a valid proof ending in that root
        for (k, (_, mh)) in model {
            let p = match guard(|| c.get_proof_of_inclusion(KeyId(*k))) {
                Ok(Ok(p)) => p,
                Ok(Err(e)) => return Err(("proof-missing", format!("get_proof_of_inclusion({k}) = Err({e}) after hashes were recomputed"))),
                Err(p) => return Err(("proof-missing", format!("get_proof_of_inclusion({k}) panicked: {p}"))),
            };
            if from_hash(&p.node_hash) != *mh {
                return Err(("proof-wrong-leaf-hash", format!("proof for key {k}: node_hash {} is not the key's leaf hash {}", hx(&from_hash(&p.node_hash)), hx(mh))));
            }
            match guard(|| (p.valid(), p.root_hash())) {
                Ok((valid, root)) => {
                    if !valid {
                        return Err(("proof-invalid", format!("proof for key {k} ({} layers): valid() = false", p.layers.len())));
                    }
                    if from_hash(&root) != my_root {
                        return Err(("proof-wrong-root", format!("proof for key {k}: root_hash() = {}, tree root is {}", hx(&from_hash(&root)), hx(&my_root))));
                    }
                }
                Err(pn) => return Err(("proof-invalid", format!("proof for key {k}: valid()/root_hash() panicked: {pn}"))),
            }
            match fold_proof(&p) {
                Ok(h) if h == my_root => {}
                Ok(h) => return Err(("proof-fold-mismatch", format!("proof for key {k}: layers fold to {}, tree root is {}", hx(&h), hx(&my_root)))),
                Err(e) => return Err(("proof-fold-mismatch", format!("proof for key {k}: {e}"))),
            }
        }
    }
    // 6. reload
    let bytes = blob.read_blob().clone();
    let mut r = match guard(|| MerkleBlob::new(bytes)) {
        Ok(Ok(r)) => r,
        Ok(Err(e)) => return Err(("reload-fails", format!("MerkleBlob::new(read_blob().clone()) = Err({e})"))),
        Err(p) => return Err(("reload-fails", format!("MerkleBlob::new(read_blob().clone()) panicked: {p}"))),
    };
    r.check_integrity_on_drop = false;
    match guard(|| r.get_keys_values()) {
        Ok(Ok(m)) => {
            let m: BTreeMap<i64, i64> = m.into_iter().map(|(k, v)| (k.0, v.0)).collect();
            if m != want {
                return Err(("reload-content-differs", format!("reloaded blob's get_keys_values() differs: {}", diff_maps(&m, &want))));
            }
        }
        Ok(Err(e)) => return Err(("reload-content-differs", format!("reloaded get_keys_values() = Err({e})"))),
        Err(p) => return Err(("reload-content-differs", format!("reloaded get_keys_values() panicked: {p}"))),
    }
    match guard(|| r.check_integrity()) {
        Ok(Ok(())) => {}
        Ok(Err(e)) => return Err(("reload-integrity-fails", format!("reloaded check_integrity() = Err({e})"))),
        Err(p) => return Err(("reload-integrity-fails", format!("reloaded check_integrity() panicked: {p}"))),
    }
    if !model.is_empty() {
        let rr = guard(|| {
            r.calculate_lazy_hashes()?;
            r.get_hash_at_index(TreeIndex(0))
        });
        match rr {
            Ok(Ok(Some(h))) if Some(from_hash(&h)) == w.root => {}
            other => return Err(("reload-root-differs", format!("reloaded blob's root after recomputing hashes is {other:?}, original's is {}", hx(&w.root.unwrap())))),
        }
    }
    let mut live: BTreeSet<u32> = BTreeSet::new();
    live.extend(w.leaf_idx.iter().copied());
    live.extend(w.internal_idx.iter().copied());
    let free_idx: Vec<u32> = (0..nblocks).filter(|i| !live.contains(i)).collect();
    let mut leaf_idx = w.leaf_idx;
    leaf_idx.sort_unstable();
    let mut internal_idx = w.internal_idx;
    internal_idx.sort_unstable();
    let mut internal_hashes = w.internal_hashes.clone();
    internal_hashes.sort_unstable();
    Ok(Obs {
        root: w.root,
        internal_hashes,
        leaves: w.leaves.len(),
        leaf_idx,
        internal_idx,
        free_idx,
        nblocks,
    })
}

/// the blob's own content, used to re-synchronise the model after a *known*
/// "Err but state changed" finding so that the history can go on
fn snapshot(blob: &MerkleBlob) -> Option<Model> {
    let mut c = blob.clone();
    c.check_integrity_on_drop = false;
    guard(|| c.calculate_lazy_hashes()).ok()?.ok()?;
    let w = walk(&c).ok()?;
    if w.dup_key.is_some() {
        return None;
    }
    Some(w.leaves.into_iter().map(|(k, (v, h, _))| (k, (v, h))).collect())
}

// --------------------------------------------------------------------------
// generator

struct G<'a> {
    s: Src<'a>,
    large: bool,
}

const SPECIAL_KEYS: [i64; 6] = [0, 1, -1, i64::MAX, i64::MIN, 11];

impl G<'_> {
    fn present_key(&mut self, model: &Model) -> Option<i64> {
        if model.is_empty() {
            return None;
        }
        let i = self.s.below(model.len());
        model.keys().nth(i).copied()
    }

    fn key(&mut self, model: &Model) -> i64 {
        if !self.large {
            return self.s.below(12) as i64;
        }
        match self.s.weighted(&[6, 2, 1]) {
            0 => mix64(u64::from(self.s.u32())) as i64,
            1 => self.present_key(model).unwrap_or(0),
            _ => *self.s.pick(&SPECIAL_KEYS),
        }
    }

    fn value(&mut self) -> i64 {
        if !self.large {
            return self.s.below(4) as i64;
        }
        match self.s.weighted(&[3, 3, 1]) {
            0 => self.s.below(4) as i64,
            1 => mix64(u64::from(self.s.u16()) ^ 0x55aa) as i64,
            _ => *self.s.pick(&[0, -1, i64::MAX, i64::MIN]),
        }
    }

    fn hash(&mut self, key: i64, value: i64, model: &Model) -> H32 {
        if !self.large {
            return match self.s.weighted(&[6, 2]) {
                0 => derived_hash(key, value),
                _ => pool_hash(self.s.below(6)),
            };
        }
        match self.s.weighted(&[6, 2, 1, 1]) {
            0 => derived_hash(key, value),
            1 => rnd_hash(self.s.u32()),
            2 => {
                if model.is_empty() {
                    derived_hash(key, value)
                } else {
                    let i = self.s.below(model.len());
                    model.values().nth(i).unwrap().1
                }
            }
            _ => {
                if self.s.bool() {
                    [0xff; 32]
                } else {
                    [0; 32]
                }
            }
        }
    }

    fn entry(&mut self, model: &Model) -> (i64, i64, H32) {
        let k = self.key(model);
        let v = self.value();
        let h = self.hash(k, v, model);
        (k, v, h)
    }

    /// a key that is neither in the model nor in `taken`
    fn fresh_key(&mut self, model: &Model, taken: &BTreeSet<i64>) -> Option<i64> {
        if self.large {
            let k = mix64(u64::from(self.s.u32()) ^ 0x1234_5678_9abc) as i64;
            if model.contains_key(&k) || taken.contains(&k) {
                None
            } else {
                Some(k)
            }
        } else {
            let avail: Vec<i64> = (0..12).filter(|k| !model.contains_key(k) && !taken.contains(k)).collect();
            if avail.is_empty() {
                None
            } else {
                Some(avail[self.s.below(avail.len())])
            }
        }
    }
}

#[derive(Clone, Copy, PartialEq, Eq)]
enum LocKind {
    Auto,
    AsRoot,
    AtLeaf,
    AtInternal,
    AtFree,
    OutOfRange,
}

impl LocKind {
    fn name(self) -> &'static str {
        match self {
            LocKind::Auto => "auto",
            LocKind::AsRoot => "as-root",
            LocKind::AtLeaf => "at-leaf",
            LocKind::AtInternal => "at-internal",
            LocKind::AtFree => "at-free",
            LocKind::OutOfRange => "out-of-range",
        }
    }
}

fn gen_location(g: &mut G<'_>, obs: &Obs) -> (InsertLocation, LocKind) {
    match g.s.weighted(&[5, 4, 1]) {
        0 => (InsertLocation::Auto {}, LocKind::Auto),
        2 => (InsertLocation::AsRoot {}, LocKind::AsRoot),
        _ => {
            let want = g.s.weighted(&[5, 1, 2, 1]);
            let right = g.s.bool();
            let side = if right { Side::Right } else { Side::Left };
            let (cands, kind): (&[u32], LocKind) = match want {
                0 if !obs.leaf_idx.is_empty() => (&obs.leaf_idx, LocKind::AtLeaf),
                1 if !obs.internal_idx.is_empty() => (&obs.internal_idx, LocKind::AtInternal),
                2 if !obs.free_idx.is_empty() => (&obs.free_idx, LocKind::AtFree),
                _ => (&[], LocKind::OutOfRange),
            };
            let index = if cands.is_empty() {
                match g.s.below(4) {
                    0 => obs.nblocks,
                    1 => obs.nblocks + 1,
                    2 => obs.nblocks + 7,
                    _ => u32::MAX,
                }
            } else {
                cands[g.s.below(cands.len())]
            };
            (InsertLocation::Leaf { index: TreeIndex(index), side }, kind)
        }
    }
}

fn size_class(n: usize) -> &'static str {
    match n {
        0 => "0",
        1 => "1",
        2 => "2",
        _ => "n",
    }
}

fn holder_of(model: &Model, h: &H32) -> Option<i64> {
    model.iter().find(|(_, (_, mh))| mh == h).map(|(k, _)| *k)
}

enum Outcome {
    Ok,
    Err(String),
    Panic(String),
}

fn outcome_of<T, E: std::fmt::Display>(r: Result<Result<T, E>, String>) -> Outcome {
    match r {
        Ok(Ok(_)) => Outcome::Ok,
        Ok(Err(e)) => Outcome::Err(e.to_string()),
        Err(p) => Outcome::Panic(p),
    }
}

fn run_history(bytes: &[u8], ctx: &mut Ctx, want_log: bool, log: &mut Vec<String>) -> CaseResult {
    let mut g = G { s: Src::new(bytes), large: false };
    g.large = g.s.weighted(&[3, 1]) == 1;
    let nops = g.s.below(61);
    let mut fp = Fnv::new();
    fp.write_u64(u64::from(g.large));

    let mut blob = MerkleBlob::new(Vec::new()).expect("empty blob");
    blob.check_integrity_on_drop = false;
    let mut model: Model = Model::new();
    let mut prev = match check_state(&blob, &model) {
        Ok(o) => o,
        Err((inv, msg)) => {
            return Err(Failure { sig: format!("C18:empty:{inv}"), msg });
        }
    };
    if want_log {
        log.push(format!("{} key space", if g.large { "large" } else { "small" }));
    }

    // ---- optional prologue: a degenerate chain. Every insert aims at the leaf
    // that was inserted last, so the tree's height equals the number of inserts;
    // ordinary histories (locations uniform over the existing leaves, Auto
    // following hash bits) stay logarithmic and never reach the depths at which
    // lineage walks, recursion limits or proof lengths could matter. The chain
    // keys live in their own range (1000..), the following operations pick
    // present keys uniformly, i.e. mostly deep ones.
    let chain = match g.s.weighted(&[38, 1, 1]) {
        0 => 0,
        1 => 60 + g.s.below(16),
        _ => 2 + g.s.below(139),
    };
    if chain > 0 {
        let hashes_first = g.s.bool();
        let mut side_bits = g.s.u32();
        let mut last: Option<i64> = None;
        for i in 0..chain {
            let k = 1000 + i as i64;
            let v = g.s.below(4) as i64;
            let h = derived_hash(k, v);
            let loc = match last {
                None => InsertLocation::Auto {},
                Some(lk) => match guard(|| blob.get_key_index(KeyId(lk))) {
                    Ok(Ok(index)) => {
                        let side = if side_bits & 1 == 1 { Side::Right } else { Side::Left };
                        side_bits = side_bits.rotate_right(1);
                        InsertLocation::Leaf { index, side }
                    }
                    other => {
                        return Err(Failure {
                            sig: "C18:chain-prologue:key-index-unavailable".into(),
                            msg: format!("chain prologue: get_key_index({lk}) of the key inserted just before = {other:?}"),
                        })
                    }
                },
            };
            match guard(|| blob.insert(KeyId(k), ValueId(v), &to_hash(&h), loc)) {
                Ok(Ok(_)) => {
                    model.insert(k, (v, h));
                    last = Some(k);
                }
                other => {
                    ctx.known_or_fail("C18:chain-prologue:legal-insert-fails", || {
                        format!("chain prologue: insert #{i} (fresh key {k}, fresh hash, at the leaf inserted last) on a chain of depth {i} = {other:?}")
                    })?;
                    break;
                }
            }
        }
        if hashes_first {
            // bring the working blob's hashes clean, so that later modifications
            // deep in the chain have to dirty the whole lineage again
            if let Ok(Err(e)) | Err(e) = guard(|| blob.calculate_lazy_hashes()).map(|r| r.map_err(|e| e.to_string())) {
                return Err(Failure {
                    sig: "C18:chain-prologue:recompute-hashes-fails".into(),
                    msg: format!("chain prologue: calculate_lazy_hashes() on a chain of depth {chain} failed: {e}"),
                });
            }
        }
        fp.write(b"chain").write_u64(chain as u64).write_u64(u64::from(hashes_first));
        ctx.label(format!(
            "chain-prologue:depth-{}",
            match chain {
                0..=31 => "2-31",
                32..=63 => "32-63",
                64..=66 => "64-66",
                67..=99 => "67-99",
                _ => "100+",
            }
        ));
        if want_log {
            log.push(format!("chain prologue: {chain} inserts each at the leaf inserted last (keys 1000..), hashes recomputed afterwards: {hashes_first}"));
        }
        prev = match check_state(&blob, &model) {
            Ok(o) => o,
            Err((inv, msg)) => {
                let sig = format!("C18:chain-prologue:ok-but-{inv}");
                ctx.known_or_fail(&sig, || format!("after a chain of {chain} legal inserts (each at the leaf inserted last): {msg}"))?;
                return Ok(());
            }
        };
    }

    // the per-step oracle is linear in keys x depth: keep chain histories short
    let nops = if chain > 0 { nops.min(16) } else { nops };
    let mut executed = 0usize;
    let mut failed_at: Option<usize> = None;
    let mut nt_failed_then_more = false;
    let mut nt_reuse = false;
    let mut nt_batch_nonempty = false;
    let mut legal_failed = false;
    let mut had_delete = false;

    for step in 0..nops {
        if g.s.remaining() == 0 {
            break;
        }
        let n_before = model.len();
        let sz = size_class(n_before);
        // ---- decode one operation (depends on the current state) and run it
        // index 0 is a no-op that only consumes its selector: zeroed bytes (what the
        // shrinkers produce) then decode to nothing instead of to junk operations
        let opk = g.s.weighted(&[2, 30, 14, 12, 10, 8, 6, 6]);
        if opk == 0 {
            continue;
        }
        let opk = opk - 1;
        let kind: String;
        let outcome: Outcome;
        let mut mutation: Option<Model> = None; // the model after the op, if it succeeds
        let mut legal = false;
        let mut is_insert_like = false;
        let descr: String;
        match opk {
            0 => {
                // Insert
                let (mut k, v, mut h) = g.entry(&model);
                // one hash in 32 is replaced by the current hash of an INTERNAL node
                // of this very tree (decided by bits of the hash itself: no extra
                // choice is consumed). It is not a leaf hash, so the insert is as
                // legal as with any other fresh hash.
                if h[31] & 0x1f == 0x1f && !prev.internal_hashes.is_empty() {
                    h = prev.internal_hashes[usize::from(h[30]) % prev.internal_hashes.len()];
                    ctx.label("insert:leaf-hash-equals-an-internal-node-hash");
                }
                // one hash in 16 is an EXISTING leaf hash with a single byte changed
                // (anywhere in its 32 bytes): distinct hashes that agree in a prefix,
                // a suffix, or all but one byte — what any index keyed by part of a
                // hash would confuse. (Decided by bits of the hash: no extra choice.)
                if h[29] & 0x0f == 0x0f && !model.is_empty() {
                    let donor = model.values().nth(usize::from(h[28]) % model.len()).unwrap().1;
                    let at = usize::from(h[27]) % 32;
                    let x = h[26] | 1;
                    h = donor;
                    h[at] ^= x;
                    ctx.label(if at >= 16 { "insert:hash-shares-first-half-with-an-existing-one" } else { "insert:hash-shares-second-half-with-an-existing-one" });
                }
                if !g.large && g.s.weighted(&[3, 5]) == 1 {
                    // small key space: mostly aim at an unused key so that trees grow
                    if let Some(fk) = g.fresh_key(&model, &BTreeSet::new()) {
                        if h == derived_hash(k, v) {
                            h = derived_hash(fk, v);
                        }
                        k = fk;
                    }
                }
                let (loc, lk) = gen_location(&mut g, &prev);
                let dup_key = model.contains_key(&k);
                let dup_hash = holder_of(&model, &h).is_some();
                let dup = match (dup_key, dup_hash) {
                    (false, false) => "",
                    (true, false) => "-dup-key",
                    (false, true) => "-dup-hash",
                    (true, true) => "-dup-key-and-hash",
                };
                kind = format!("insert-{}{}", lk.name(), dup);
                legal = dup.is_empty()
                    && (lk == LocKind::Auto || lk == LocKind::AtLeaf || (lk == LocKind::AsRoot && model.is_empty()));
                is_insert_like = true;
                fp.write(b"I").write_u64(k as u64).write_u64(v as u64).write(&h);
                match &loc {
                    InsertLocation::Auto {} => fp.write(b"a"),
                    InsertLocation::AsRoot {} => fp.write(b"r"),
                    InsertLocation::Leaf { index, side } => fp.write(b"l").write_u64(u64::from(index.0)).write(&[*side as u8]),
                };
                descr = format!("insert(k={k}, v={v}, h={}, {loc:?})", hx(&h));
                let mut m = model.clone();
                m.insert(k, (v, h));
                mutation = Some(m);
                outcome = outcome_of(guard(|| blob.insert(KeyId(k), ValueId(v), &to_hash(&h), loc)));
            }
            1 => {
                // Delete
                let k = if g.s.weighted(&[7, 1]) == 0 {
                    match g.present_key(&model) {
                        Some(k) => k,
                        None => g.key(&model),
                    }
                } else {
                    g.key(&model)
                };
                let present = model.contains_key(&k);
                kind = if present { "delete-present".into() } else { "delete-absent".into() };
                legal = present;
                fp.write(b"D").write_u64(k as u64);
                descr = format!("delete(k={k})");
                let mut m = model.clone();
                m.remove(&k);
                mutation = Some(m);
                outcome = outcome_of(guard(|| blob.delete(KeyId(k))));
            }
            2 => {
                // Upsert
                let (mut k, v, mut h) = g.entry(&model);
                if h[31] & 0x1f == 0x1f && !prev.internal_hashes.is_empty() {
                    h = prev.internal_hashes[usize::from(h[30]) % prev.internal_hashes.len()];
                    ctx.label("upsert:leaf-hash-equals-an-internal-node-hash");
                }
                if g.s.weighted(&[1, 3]) == 1 {
                    if let Some(pk) = g.present_key(&model) {
                        // keep a derived hash derived from the final key
                        if h == derived_hash(k, v) {
                            h = derived_hash(pk, v);
                        }
                        k = pk;
                    }
                }
                let holder = holder_of(&model, &h);
                kind = if model.contains_key(&k) {
                    match holder {
                        None => "upsert-fresh-hash".to_string(),
                        Some(hk) if hk == k => "upsert-own-hash".to_string(),
                        Some(_) => "upsert-foreign-hash".to_string(),
                    }
                } else {
                    is_insert_like = true;
                    match holder {
                        None => "upsert-absent".to_string(),
                        Some(_) => "upsert-absent-dup-hash".to_string(),
                    }
                };
                legal = matches!(kind.as_str(), "upsert-fresh-hash" | "upsert-own-hash" | "upsert-absent");
                fp.write(b"U").write_u64(k as u64).write_u64(v as u64).write(&h);
                descr = format!("upsert(k={k}, v={v}, h={})", hx(&h));
                let mut m = model.clone();
                m.insert(k, (v, h));
                mutation = Some(m);
                outcome = outcome_of(guard(|| blob.upsert(KeyId(k), ValueId(v), &to_hash(&h))));
            }
            3 => {
                // BatchInsert of 0..12 entries
                let n = g.s.below(13);
                let style = g.s.weighted(&[16, 1, 2]);
                let mut entries: Vec<(i64, i64, H32)> = Vec::with_capacity(n);
                if style == 1 {
                    for _ in 0..n {
                        entries.push(g.entry(&model));
                    }
                } else {
                    let mut taken = BTreeSet::new();
                    for _ in 0..n {
                        let Some(k) = g.fresh_key(&model, &taken) else { break };
                        taken.insert(k);
                        let v = g.value();
                        entries.push((k, v, derived_hash(k, v)));
                    }
                    if style == 2 && !entries.is_empty() {
                        // inject one duplicate
                        let at = g.s.below(entries.len());
                        match g.s.below(4) {
                            0 if entries.len() > 1 => {
                                // key of another entry, different hash
                                let from = (at + 1 + g.s.below(entries.len() - 1)) % entries.len();
                                entries[at].0 = entries[from].0;
                            }
                            1 if entries.len() > 1 => {
                                // hash of another entry
                                let from = (at + 1 + g.s.below(entries.len() - 1)) % entries.len();
                                entries[at].2 = entries[from].2;
                            }
                            2 if !model.is_empty() => {
                                // key of the tree
                                entries[at].0 = g.present_key(&model).unwrap();
                            }
                            _ => {
                                if !model.is_empty() {
                                    // hash of the tree
                                    let i = g.s.below(model.len());
                                    entries[at].2 = model.values().nth(i).unwrap().1;
                                } else if entries.len() > 1 {
                                    let from = (at + 1) % entries.len();
                                    entries[at].0 = entries[from].0;
                                }
                            }
                        }
                    }
                }
                let mut ks = BTreeSet::new();
                let mut hs = BTreeSet::new();
                let mut dup_within = false;
                let mut dup_tree = false;
                for (k, _, h) in &entries {
                    dup_within |= !ks.insert(*k);
                    dup_within |= !hs.insert(*h);
                    dup_tree |= model.contains_key(k) || holder_of(&model, h).is_some();
                }
                kind = if entries.is_empty() {
                    "batch_insert-empty".into()
                } else if dup_within || dup_tree {
                    "batch_insert-dup".into()
                } else {
                    "batch_insert-fresh".into()
                };
                legal = !(dup_within || dup_tree);
                is_insert_like = !entries.is_empty();
                if !entries.is_empty() {
                    ctx.label(format!(
                        "batch:{}:tree-{}",
                        match (dup_within, dup_tree) {
                            (false, false) => "all-fresh",
                            (true, false) => "dup-within",
                            (false, true) => "dup-with-tree",
                            (true, true) => "dup-within-and-with-tree",
                        },
                        sz
                    ));
                    if n_before > 0 {
                        nt_batch_nonempty = true;
                    }
                }
                fp.write(b"B").write_u64(entries.len() as u64);
                for (k, v, h) in &entries {
                    fp.write_u64(*k as u64).write_u64(*v as u64).write(h);
                }
                descr = format!(
                    "batch_insert([{}])",
                    entries.iter().map(|(k, v, h)| format!("(k={k}, v={v}, h={})", hx(h))).collect::<Vec<_>>().join(", ")
                );
                let mut m = model.clone();
                for (k, v, h) in &entries {
                    m.insert(*k, (*v, *h));
                }
                mutation = Some(m);
                let arg: Vec<((KeyId, ValueId), Hash)> =
                    entries.iter().map(|(k, v, h)| ((KeyId(*k), ValueId(*v)), to_hash(h))).collect();
                outcome = outcome_of(guard(|| blob.batch_insert(arg)));
            }
            4 => {
                kind = "calculate_lazy_hashes".into();
                fp.write(b"C");
                descr = "calculate_lazy_hashes()".into();
                let o = outcome_of(guard(|| blob.calculate_lazy_hashes()));
                outcome = match o {
                    Outcome::Ok if !model.is_empty() => {
                        // the working blob itself must now expose a root
                        match guard(|| blob.get_hash_at_index(TreeIndex(0))) {
                            Ok(Ok(Some(_))) => Outcome::Ok,
                            other => {
                                return Err(Failure {
                                    sig: "C18:calculate_lazy_hashes:ok-but-root-hash-mismatch".into(),
                                    msg: format!("step {step}: calculate_lazy_hashes() = Ok but get_hash_at_index(0) = {other:?}"),
                                })
                            }
                        }
                    }
                    o => o,
                };
            }
            5 => {
                kind = "reload".into();
                fp.write(b"R");
                descr = "reload".into();
                // the reloaded blob replaces the working one (its free list is rebuilt in index order)
                let bytes = blob.read_blob().clone();
                match guard(|| MerkleBlob::new(bytes)) {
                    Ok(Ok(mut r)) => {
                        r.check_integrity_on_drop = false;
                        blob = r;
                        outcome = Outcome::Ok;
                    }
                    Ok(Err(e)) => outcome = Outcome::Err(e.to_string()),
                    Err(p) => outcome = Outcome::Panic(p),
                }
            }
            _ => {
                kind = "proofs".into();
                let absent = g.key(&model);
                fp.write(b"P").write_u64(absent as u64);
                descr = format!("proofs (working blob as is; also key {absent})");
                // on the working blob (possibly dirty): never panics; a proof that is
                // handed out while the root is clean is checked like any other
                let clean_root = match guard(|| blob.get_hash_at_index(TreeIndex(0))) {
                    Ok(Ok(Some(h))) => Some(from_hash(&h)),
                    Ok(_) => None,
                    Err(p) => {
                        return Err(Failure { sig: "C18:proofs:panic".into(), msg: format!("step {step}: get_hash_at_index(0) panicked: {p}") });
                    }
                };
                let mut keys: Vec<i64> = model.keys().copied().collect();
                keys.push(absent);
                let mut o = Outcome::Ok;
                for k in keys {
                    match guard(|| blob.get_proof_of_inclusion(KeyId(k))) {
                        Err(p) => {
                            o = Outcome::Panic(format!("get_proof_of_inclusion({k}): {p}"));
                            break;
                        }
                        Ok(Err(_)) => {}
                        Ok(Ok(p)) => {
                            if let (Some(root), Some((_, mh))) = (clean_root, model.get(&k)) {
                                // tree is clean: this is the "once hashes are recomputed" situation
                                let ok = from_hash(&p.node_hash) == *mh
                                    && p.valid()
                                    && from_hash(&p.root_hash()) == root
                                    && fold_proof(&p) == Ok(root);
                                if !ok {
                                    return Err(Failure {
                                        sig: "C18:proofs:ok-but-proof-invalid".into(),
                                        msg: format!("step {step}: with a clean root {}, get_proof_of_inclusion({k}) = {p:?} is not a valid proof of the key's leaf hash {} ending in the root", hx(&root), hx(mh)),
                                    });
                                }
                            }
                        }
                    }
                }
                outcome = o;
            }
        }
        executed += 1;
        if failed_at.is_some() {
            nt_failed_then_more = true;
        }
        let (oname, ok) = match &outcome {
            Outcome::Ok => ("ok", true),
            Outcome::Err(_) => ("err", false),
            Outcome::Panic(_) => ("panic", false),
        };
        ctx.label(format!("{kind}:{oname}:{sz}"));
        if want_log {
            log.push(format!(
                "#{step} [{kind}, {n_before} leaves] {descr} -> {}",
                match &outcome {
                    Outcome::Ok => "Ok".to_string(),
                    Outcome::Err(e) => format!("Err({e})"),
                    Outcome::Panic(p) => format!("PANIC({p})"),
                }
            ));
        }
        if let Outcome::Panic(p) = &outcome {
            let sig = format!("C18:{kind}:panic");
            ctx.known_or_fail(&sig, || format!("step {step}: {descr} on a map of {n_before} keys panicked: {p}"))?;
            ctx.label("history-ended-early-after-known-finding");
            break;
        }
        if legal {
            if ok {
                ctx.label(format!("legal-ok:{}", legal_class(&kind)));
            } else {
                ctx.label(format!("legal-err:{}", legal_class(&kind)));
                legal_failed = true;
                // an operation the API documents as valid has to succeed: without
                // this, "the same successful operations" would be satisfied by a
                // blob that refuses everything
                let oc = match &outcome {
                    Outcome::Err(e) => e.clone(),
                    _ => String::new(),
                };
                ctx.known_or_fail(&format!("C18:{}:legal-operation-refused", legal_class(&kind)), || {
                    format!("step {step}: {descr} on a map of {n_before} keys is valid (fresh key / fresh leaf hash / present key, legal location) but returned Err({oc})")
                })?;
            }
        }
        if !ok && failed_at.is_none() {
            failed_at = Some(step);
        }
        let mutated = ok && mutation.is_some();
        if mutated {
            model = mutation.take().unwrap();
        }
        // ---- the oracle, after every step
        let prefix = if ok { "ok-but" } else { "err-but" };
        let verdict: Result<Obs, Broken> = match check_state(&blob, &model) {
            Ok(o) => {
                if !mutated && o.leaves != prev.leaves {
                    Err(("state-changed", format!("leaf count was {} and is now {}", prev.leaves, o.leaves)))
                } else if !mutated && o.root != prev.root {
                    Err((
                        "root-changed",
                        format!(
                            "root (hashes recomputed on a clone) was {} and is now {}",
                            prev.root.as_ref().map_or("none".into(), hx),
                            o.root.as_ref().map_or("none".into(), hx)
                        ),
                    ))
                } else {
                    Ok(o)
                }
            }
            Err((inv, msg)) => {
                // with the model unchanged, differing content means the state changed
                let inv = if !mutated && inv == "content-differs" {
                    "state-changed"
                } else {
                    inv
                };
                Err((inv, msg))
            }
        };
        match verdict {
            Ok(o) => {
                if ok && is_insert_like && had_delete && o.free_idx.len() < prev.free_idx.len() {
                    nt_reuse = true;
                }
                if ok && kind.starts_with("delete") {
                    had_delete = true;
                }
                prev = o;
            }
            Err((inv, msg)) => {
                let sig = format!("C18:{kind}:{prefix}-{inv}");
                let oc = match &outcome {
                    Outcome::Ok => "Ok".to_string(),
                    Outcome::Err(e) => format!("Err({e})"),
                    Outcome::Panic(_) => unreachable!(),
                };
                ctx.known_or_fail(&sig, || {
                    format!("step {step}: {descr} on a map of {n_before} keys returned {oc}, afterwards: {msg}")
                })?;
                // a listed known finding: go on behind it where the blob is still usable
                if inv == "state-changed" {
                    if let Some(m) = snapshot(&blob) {
                        if let Ok(o) = check_state(&blob, &m) {
                            model = m;
                            prev = o;
                            ctx.label("model-resynced-after-known-finding");
                            continue;
                        }
                    }
                }
                ctx.label("history-ended-early-after-known-finding");
                break;
            }
        }
    }

    ctx.label(format!("history-len:{}", match executed { 0 => "0", 1..=9 => "1-9", 10..=29 => "10-29", _ => "30-60" }));
    ctx.label(if g.large { "space:large" } else { "space:small" });
    if nt_reuse {
        ctx.label("nt:free-index-reuse-after-delete");
    }
    if nt_batch_nonempty {
        ctx.label("nt:batch-on-non-empty-tree");
    }
    if nt_failed_then_more {
        ctx.label("nt:failed-op-then-more-ops");
    }
    if legal_failed {
        ctx.label("history-with-failed-legal-op");
    }
    if (nt_reuse || nt_batch_nonempty || nt_failed_then_more) && !legal_failed {
        fp.write_u64(executed as u64);
        ctx.nontrivial(fp.finish());
    }
    ctx.ran_dry(g.s.ran_dry());
    Ok(())
}

fn legal_class(kind: &str) -> &'static str {
    if kind.starts_with("insert-auto") {
        "insert-auto-fresh"
    } else if kind.starts_with("insert-at-leaf") {
        "insert-at-leaf-fresh"
    } else if kind.starts_with("insert-as-root") {
        "insert-as-root-on-empty"
    } else if kind == "delete-present" {
        "delete-present"
    } else if kind == "upsert-fresh-hash" {
        "upsert-fresh-hash"
    } else if kind == "upsert-own-hash" {
        "upsert-own-hash"
    } else if kind == "upsert-absent" {
        "upsert-absent-fresh-hash"
    } else if kind == "batch_insert-fresh" {
        "batch-all-fresh"
    } else if kind == "batch_insert-empty" {
        "batch-empty"
    } else {
        "other"
    }
}

pub fn case_history(bytes: &[u8], ctx: &mut Ctx) -> CaseResult {
    let mut log: Vec<String> = Vec::new();
    let want = ctx.want_render();
    let r = run_history(bytes, ctx, want, &mut log);
    ctx.render(|| log.join("; "));
    r
}

pub fn run_main() {
    engine::main(Property {
        id: "C18",
        rule: "a case is an optional chain prologue (1 case in 20: 2..140 inserts each at the leaf inserted last, so that the tree's height equals their number, optionally followed by a hash recomputation; the history is then capped at 16 operations) and a history of 0..60 operations (insert at Auto/AsRoot/Leaf{live leaf, internal, free, out-of-range index; side}, upsert, delete of present/absent keys, batch_insert of 0..12 entries that are all fresh / random / fresh with one injected duplicate key or hash, calculate_lazy_hashes, reload from bytes, proofs) over a small key space (keys 0..11, values 0..3, hashes derived from (key,value) or from a pool of 6) or a large one (mixed 64-bit keys incl. extremes, arbitrary hashes incl. hashes of existing leaves); the full oracle runs after every step. Non-trivial = the history contains a successful delete followed by an insert that consumes a freed index, or a non-empty batch_insert on a non-empty tree, or a failed operation followed by further operations, AND every obviously legal operation in it succeeded; distinct by the decoded operation sequence.",
        assumptions: &[
            "sha2::Sha256 (not chia-sha2) is a correct SHA-256; an internal node's hash is sha256(0x02 | left | right) as defined by internal_hash in blob.rs",
            "get_node(index) returns the block stored at that index (it is the harness's only way to see the tree shape)",
            "for a successful batch_insert the plain map receives the entries in order (last wins)",
            "an operation that is valid by the API's own rules (insert of a fresh key with a fresh leaf hash at Auto / an existing leaf / as root of an empty tree, delete of a present key, upsert with a fresh or its own hash, a duplicate-free batch) must succeed: refusing it is reported (legal-operation-refused), because otherwise 'a plain map subjected to the same successful operations' is satisfied by a blob that refuses everything",
        ],
        death_is_violation: false,
        subchecks: vec![SubCheck {
            name: "histories",
            about: "random operation histories against a BTreeMap model; integrity, content, root recomputation, proofs and reload checked after every step",
            source: Source::Random { len: 1024, quick: 600_000, thorough: 12_000_000 },
            run: case_history,
            inflight: false,
            min_nontrivial: 200_000,
            required_labels: &[
                "legal-ok:insert-auto-fresh",
                "legal-ok:insert-at-leaf-fresh",
                "legal-ok:insert-as-root-on-empty",
                "legal-ok:delete-present",
                "legal-ok:upsert-fresh-hash",
                "legal-ok:upsert-absent-fresh-hash",
                "legal-ok:batch-all-fresh",
                "nt:free-index-reuse-after-delete",
                "nt:batch-on-non-empty-tree",
                "nt:failed-op-then-more-ops",
                "space:large",
                "space:small",
                "chain-prologue:depth-64-66",
                "chain-prologue:depth-67-99",
                "chain-prologue:depth-100+",
                "insert:leaf-hash-equals-an-internal-node-hash",
                "upsert:leaf-hash-equals-an-internal-node-hash",
                "insert:hash-shares-first-half-with-an-existing-one",
                "insert:hash-shares-second-half-with-an-existing-one",
            ],
        }],
    });
}
