//! C01 — spend conditions are accepted, rejected and summarised exactly per
//! the rules: differential test of `parse_spends::<V>` +
//! `OwnedSpendBundleConditions::from` against `vcore::model::conditions`.

use chia_bls::Signature;
use chia_consensus::conditions::{parse_spends, EmptyVisitor, MempoolVisitor};
use chia_consensus::consensus_constants::TEST_CONSTANTS;
use chia_consensus::flags::ConsensusFlags;
use chia_consensus::owned_conditions::{OwnedSpendBundleConditions, OwnedSpendConditions};
use clvmr::Allocator;
use vcore::condgen::{self, GenCfg};
use vcore::engine::{CaseResult, Ctx, Property, Source, SubCheck};
use vcore::gentree::{self, BuildMode};
use vcore::model::conditions::{self as mc, MBundle, MSpend, Outcome};
use vcore::{vensure, vensure_eq, vfail, Fnv, Src};

pub const SIG_EMPTY_HINT: &str = "C01:summary:empty-first-memo-reported-as-hint";

fn pairs_eq(got: &[(chia_bls::PublicKey, chia_protocol::Bytes)], want: &[(Vec<u8>, Vec<u8>)]) -> bool {
    got.len() == want.len()
        && got
            .iter()
            .zip(want.iter())
            .all(|(g, w)| g.0.to_bytes()[..] == w.0[..] && g.1.as_slice() == &w.1[..])
}

fn compare_spend(i: usize, g: &OwnedSpendConditions, m: &MSpend, mempool: bool, ctx: &mut Ctx) -> CaseResult {
    vensure!(g.coin_id.as_slice() == m.coin_id, "C01:summary:coin-id", "spend {i}: coin id {:?} vs model {:02x?}", g.coin_id, m.coin_id);
    vensure!(g.parent_id.as_slice() == m.parent_id, "C01:summary:parent-id", "spend {i}: parent id");
    vensure!(g.puzzle_hash.as_slice() == m.puzzle_hash, "C01:summary:puzzle-hash", "spend {i}: puzzle hash");
    vensure_eq!(g.coin_amount, m.coin_amount, "C01:summary:coin-amount", "spend {i}: coin amount");
    vensure_eq!(g.height_relative, m.height_relative, "C01:summary:height-relative", "spend {i}");
    vensure_eq!(g.seconds_relative, m.seconds_relative, "C01:summary:seconds-relative", "spend {i}");
    vensure_eq!(g.before_height_relative, m.before_height_relative, "C01:summary:before-height-relative", "spend {i}");
    vensure_eq!(g.before_seconds_relative, m.before_seconds_relative, "C01:summary:before-seconds-relative", "spend {i}");
    vensure_eq!(g.birth_height, m.birth_height, "C01:summary:birth-height", "spend {i}");
    vensure_eq!(g.birth_seconds, m.birth_seconds, "C01:summary:birth-seconds", "spend {i}");
    // created coins: compare as sorted sets of (puzzle hash, amount, hint)
    let mut got: Vec<([u8; 32], u64, Option<Vec<u8>>)> = g
        .create_coin
        .iter()
        .map(|(ph, am, h)| (ph.as_slice().try_into().unwrap(), *am, h.as_ref().map(|b| b.as_slice().to_vec())))
        .collect();
    got.sort();
    vensure_eq!(got.len(), m.create_coin.len(), "C01:summary:create-coin-count", "spend {i}: number of created coins");
    for (gc, mcn) in got.iter().zip(m.create_coin.iter()) {
        vensure!(gc.0 == mcn.0 && gc.1 == mcn.1, "C01:summary:create-coin", "spend {i}: created coin {:02x?}/{} vs model {:02x?}/{}", gc.0, gc.1, mcn.0, mcn.1);
        if gc.2 != mcn.2 {
            if gc.2.as_deref() == Some(&[][..]) && mcn.2.is_none() {
                // value-equal trees must give equal summaries: an empty first memo is "no hint"
                ctx.known_or_fail(SIG_EMPTY_HINT, || {
                    format!("spend {i}: CREATE_COIN whose first memo is an empty atom is reported with hint Some(\"\") (the same value built from the canonical nil gives None)")
                })?;
            } else {
                vfail!("C01:summary:hint", "spend {i}: hint {:02x?} vs model {:02x?}", gc.2, mcn.2);
            }
        }
    }
    vensure!(pairs_eq(&g.agg_sig_me, &m.agg_sig_me), "C01:summary:agg-sig-me", "spend {i}");
    vensure!(pairs_eq(&g.agg_sig_parent, &m.agg_sig_parent), "C01:summary:agg-sig-parent", "spend {i}");
    vensure!(pairs_eq(&g.agg_sig_puzzle, &m.agg_sig_puzzle), "C01:summary:agg-sig-puzzle", "spend {i}");
    vensure!(pairs_eq(&g.agg_sig_amount, &m.agg_sig_amount), "C01:summary:agg-sig-amount", "spend {i}");
    vensure!(pairs_eq(&g.agg_sig_puzzle_amount, &m.agg_sig_puzzle_amount), "C01:summary:agg-sig-puzzle-amount", "spend {i}");
    vensure!(pairs_eq(&g.agg_sig_parent_amount, &m.agg_sig_parent_amount), "C01:summary:agg-sig-parent-amount", "spend {i}");
    vensure!(pairs_eq(&g.agg_sig_parent_puzzle, &m.agg_sig_parent_puzzle), "C01:summary:agg-sig-parent-puzzle", "spend {i}");
    let mask = if mempool && m.ff_undecided { !mc::ELIGIBLE_FOR_FF } else { !0 };
    vensure_eq!(g.flags & mask, m.flags & mask, "C01:summary:spend-flags", "spend {i}: flags (1=dedup 2=relative 4=ff)");
    vensure_eq!(g.condition_cost, m.condition_cost, "C01:summary:spend-condition-cost", "spend {i}");
    Ok(())
}

fn compare(g: &OwnedSpendBundleConditions, m: &MBundle, mempool: bool, validate_sig: bool, parse_level: bool, ctx: &mut Ctx) -> CaseResult {
    vensure_eq!(g.spends.len(), m.spends.len(), "C01:summary:spend-count", "number of spends");
    for (i, (gs, ms)) in g.spends.iter().zip(m.spends.iter()).enumerate() {
        compare_spend(i, gs, ms, mempool, ctx)?;
    }
    vensure_eq!(g.reserve_fee, m.reserve_fee, "C01:summary:reserve-fee", "reserve fee");
    vensure_eq!(g.height_absolute, m.height_absolute, "C01:summary:height-absolute", "height_absolute");
    vensure_eq!(g.seconds_absolute, m.seconds_absolute, "C01:summary:seconds-absolute", "seconds_absolute");
    vensure_eq!(g.before_height_absolute, m.before_height_absolute, "C01:summary:before-height-absolute", "before_height_absolute");
    vensure_eq!(g.before_seconds_absolute, m.before_seconds_absolute, "C01:summary:before-seconds-absolute", "before_seconds_absolute");
    vensure!(pairs_eq(&g.agg_sig_unsafe, &m.agg_sig_unsafe), "C01:summary:agg-sig-unsafe", "agg_sig_unsafe");
    vensure_eq!(g.removal_amount, m.removal_amount, "C01:summary:removal-amount", "removal_amount");
    vensure_eq!(g.addition_amount, m.addition_amount, "C01:summary:addition-amount", "addition_amount");
    vensure_eq!(g.condition_cost, m.condition_cost, "C01:summary:condition-cost", "condition_cost");
    if parse_level {
        vensure_eq!(g.cost, m.condition_cost, "C01:summary:cost", "cost (no CLVM/byte cost at this entry point)");
    }
    vensure_eq!(g.validated_signature, validate_sig, "C01:summary:validated-signature", "validated_signature");
    Ok(())
}

pub fn flags_from_bits(bits: u8) -> ConsensusFlags {
    let mut f = ConsensusFlags::empty();
    if bits & 1 != 0 {
        f |= ConsensusFlags::NO_UNKNOWN_CONDS;
    }
    if bits & 2 != 0 {
        f |= ConsensusFlags::STRICT_ARGS_COUNT;
    }
    if bits & 4 != 0 {
        f |= ConsensusFlags::COST_CONDITIONS;
    }
    if bits & 8 != 0 {
        f |= ConsensusFlags::LIMIT_SPENDS;
    }
    f
}

pub fn flag_names(f: ConsensusFlags) -> String {
    let mut v = vec![];
    for (n, x) in [
        ("NO_UNKNOWN_CONDS", ConsensusFlags::NO_UNKNOWN_CONDS),
        ("STRICT_ARGS_COUNT", ConsensusFlags::STRICT_ARGS_COUNT),
        ("COST_CONDITIONS", ConsensusFlags::COST_CONDITIONS),
        ("LIMIT_SPENDS", ConsensusFlags::LIMIT_SPENDS),
        ("DONT_VALIDATE_SIGNATURE", ConsensusFlags::DONT_VALIDATE_SIGNATURE),
    ] {
        if f.contains(x) {
            v.push(n);
        }
    }
    v.join("|")
}

pub fn case_parse(bytes: &[u8], ctx: &mut Ctx) -> CaseResult {
    let mut s = Src::new(bytes);
    // configuration first (so that it is stable under shrinking of the tail)
    let flag_bits = s.below(16) as u8;
    let mempool = s.bool();
    let validate_sig = s.chance(26);
    let mode = BuildMode::from_src(&mut s);
    let tight_cost = s.chance(30);
    let cfg = GenCfg::standard();
    let b = condgen::gen_bundle(&mut s, &cfg);
    ctx.ran_dry(s.ran_dry());

    let mut flags = flags_from_bits(flag_bits);
    if !validate_sig {
        flags |= ConsensusFlags::DONT_VALIDATE_SIGNATURE;
    }
    let constants = condgen::model_constants(&TEST_CONSTANTS);
    let max_cost: u64 = if tight_cost { 11_000_000_000 } else { u64::MAX / 4 };
    let params = mc::Params {
        flags: flags.bits(),
        mempool_visitor: mempool,
        constants: &constants,
        key_ok: &condgen::key_ok,
        max_cost,
    };
    let model = mc::evaluate(&b.tree, b.root, &params);

    // signature: the correct aggregate over the messages the rules prescribe
    let sig = match (&model, validate_sig) {
        (Outcome::Accept(m), true) => condgen::sign_pairs(&m.pkm_pairs).unwrap_or_default(),
        _ => Signature::default(),
    };

    let mut a = Allocator::new();
    let root = gentree::build(&mut a, &b.tree, b.root, mode);
    let got = if mempool {
        parse_spends::<MempoolVisitor>(&a, root, max_cost, 0, flags, &sig, None, &TEST_CONSTANTS)
    } else {
        parse_spends::<EmptyVisitor>(&a, root, max_cost, 0, flags, &sig, None, &TEST_CONSTANTS)
    };

    for l in &b.labels {
        ctx.label(l.clone());
    }
    ctx.label(format!("flags:{flag_bits:04b}"));
    ctx.label(if mempool { "visitor:mempool" } else { "visitor:block" });
    ctx.label(format!("atoms-mode:{}", mode.atoms));
    if validate_sig {
        ctx.label("signature:validated");
    }
    ctx.render(|| {
        format!(
            "flags={} visitor={} build={:?} tree={} => model {}",
            flag_names(flags),
            if mempool { "mempool" } else { "block" },
            mode,
            b.tree.render(b.root),
            match &model {
                Outcome::Accept(_) => "ACCEPT".to_string(),
                Outcome::Reject(w, _) => format!("REJECT({w})"),
            }
        )
    });

    let mut nontrivial = false;
    match (&model, got) {
        (Outcome::Accept(m), Ok(conds)) => {
            ctx.label("verdict:accept");
            let owned = OwnedSpendBundleConditions::from(&a, conds);
            compare(&owned, m, mempool, validate_sig, true, ctx)?;
            if m.spends.iter().any(|s| s.condition_cost > 0 || !s.create_coin.is_empty()) || b.n_conds > 0 {
                nontrivial = true;
            }
            if m.spends.iter().any(|s| s.flags & mc::ELIGIBLE_FOR_FF != 0) {
                ctx.label("accept:some-ff-eligible");
            }
            if m.spends.iter().any(|s| s.flags & mc::ELIGIBLE_FOR_DEDUP != 0) {
                ctx.label("accept:some-dedup-eligible");
            }
        }
        (Outcome::Reject(why, cond_level), Err(e)) => {
            ctx.label(format!("verdict:reject:{why}"));
            let _ = e;
            if *cond_level && b.n_conds > 0 {
                nontrivial = true;
            }
        }
        (Outcome::Accept(_), Err(e)) => {
            vfail!(
                "C01:verdict:rejected-but-rules-accept",
                "parse_spends returned {e:?} but every rule is satisfied"
            );
        }
        (Outcome::Reject(why, _), Ok(_)) => {
            vfail!(
                format!("C01:verdict:accepted-but-rules-reject:{why}"),
                "parse_spends accepted, but the rules reject: {why}"
            );
        }
    }
    if nontrivial {
        let mut f = Fnv::new();
        f.write(&b.tree.serialize(b.root));
        f.write(&[flag_bits, u8::from(mempool), u8::from(validate_sig)]);
        ctx.nontrivial(f.finish());
    }
    Ok(())
}

/// the same differential at program level: bundles as CoinSpends through
/// run_spendbundle (mempool visitor) and run_block_generator2 (block visitor),
/// with identity puzzles or with *eval* puzzles whose solutions compute the
/// condition list at run time (atoms produced by substr/concat/+/- are heap
/// atoms, not the canonical nil / small-integer nodes)
pub fn case_program(bytes: &[u8], ctx: &mut Ctx) -> CaseResult {
    use chia_consensus::run_block_generator::run_block_generator2;
    use chia_consensus::solution_generator::solution_generator;
    use chia_consensus::spendbundle_conditions::run_spendbundle;
    let mut s = Src::new(bytes);
    let flag_bits = s.below(16) as u8;
    let computed = s.chance(170);
    let mut cfg = GenCfg::standard();
    cfg.shape_mutations = false;
    cfg.huge = false;
    cfg.careful_rate = 150;
    cfg.eval_puzzles = computed;
    let mut b = condgen::gen_bundle(&mut s, &cfg);
    let coin_spends = if computed {
        vcore::proglevel::coin_spends_computed(&mut b, &mut s)
    } else {
        vcore::proglevel::coin_spends(&b)
    };
    ctx.ran_dry(s.ran_dry());
    let flags = flags_from_bits(flag_bits) | ConsensusFlags::DONT_VALIDATE_SIGNATURE;
    let constants = condgen::model_constants(&TEST_CONSTANTS);
    let max_cost = u64::MAX / 4;
    ctx.label(if computed { "puzzles:eval-computed-conditions" } else { "puzzles:identity" });
    ctx.label(format!("flags:{flag_bits:04b}"));
    ctx.render(|| format!("flags={} computed={computed} bundle tree={}", flag_names(flags), b.tree.render(b.root)));
    let mut nontrivial = false;

    // ---- mempool path: spends in the offered order, mempool visitor
    let want_mempool = mc::evaluate(
        &b.tree,
        b.root,
        &mc::Params { flags: flags.bits(), mempool_visitor: true, constants: &constants, key_ok: &condgen::key_ok, max_cost },
    );
    let bundle = chia_protocol::SpendBundle::new(coin_spends.clone(), Signature::default());
    let mut a = Allocator::new();
    match (&want_mempool, run_spendbundle(&mut a, &bundle, max_cost, flags, &TEST_CONSTANTS)) {
        (Outcome::Accept(m), Ok((conds, _))) => {
            ctx.label("run_spendbundle:accept");
            let owned = OwnedSpendBundleConditions::from(&a, conds);
            compare(&owned, m, true, false, false, ctx)?;
            nontrivial = b.n_conds > 0;
        }
        (Outcome::Reject(why, _), Err(_)) => ctx.label(format!("run_spendbundle:reject:{why}")),
        (Outcome::Accept(_), Err(e)) => vfail!("C01:program:run_spendbundle-rejected-but-rules-accept", "run_spendbundle returned {e:?} but every rule is satisfied"),
        (Outcome::Reject(why, _), Ok(_)) => vfail!(format!("C01:program:run_spendbundle-accepted-but-rules-reject:{why}"), "run_spendbundle accepted, but the rules reject: {why}"),
    }

    // ---- block path: the generator lists the spends in reverse order, block visitor
    let rev_root = {
        let nodes: Vec<vcore::gentree::Tid> = b.spends.iter().rev().map(|sp| sp.node).collect();
        let sl = b.tree.list(&nodes);
        let nil = b.tree.nil();
        b.tree.pair(sl, nil)
    };
    let want_block = mc::evaluate(
        &b.tree,
        rev_root,
        &mc::Params { flags: flags.bits(), mempool_visitor: false, constants: &constants, key_ok: &condgen::key_ok, max_cost },
    );
    let generator = solution_generator(coin_spends.iter().map(|cs| (cs.coin, cs.puzzle_reveal.as_slice(), cs.solution.as_slice()))).expect("solution_generator");
    let refs: Vec<Vec<u8>> = vec![];
    match (&want_block, run_block_generator2(&generator, &refs, max_cost, flags, &Signature::default(), None, &TEST_CONSTANTS)) {
        (Outcome::Accept(m), Ok((a2, conds))) => {
            ctx.label("rbg2:accept");
            let owned = OwnedSpendBundleConditions::from(&a2, conds);
            compare(&owned, m, false, false, false, ctx)?;
            nontrivial = nontrivial || b.n_conds > 0;
        }
        (Outcome::Reject(why, _), Err(_)) => ctx.label(format!("rbg2:reject:{why}")),
        (Outcome::Accept(_), Err(e)) => vfail!("C01:program:rbg2-rejected-but-rules-accept", "run_block_generator2 returned {e:?} but every rule is satisfied"),
        (Outcome::Reject(why, _), Ok(_)) => vfail!(format!("C01:program:rbg2-accepted-but-rules-reject:{why}"), "run_block_generator2 accepted, but the rules reject: {why}"),
    }
    if nontrivial {
        let mut f = Fnv::new();
        f.write(&generator);
        f.write(&[flag_bits, u8::from(computed)]);
        ctx.nontrivial(f.finish());
    }
    Ok(())
}

pub fn property() -> Property {
    Property {
        id: "C01",
        rule: "a case is (generated bundle tree ((spend…)) from vcore::condgen: valid-by-construction bundle over small pools + 0-2 labelled condition mutations + optional spend/list shape mutation, a subset of {NO_UNKNOWN_CONDS, STRICT_ARGS_COUNT, COST_CONDITIONS, LIMIT_SPENDS}, DONT_VALIDATE_SIGNATURE in ~90% (otherwise the harness supplies the correct aggregate signature), visitor block/mempool, allocator representation mode). Non-trivial = the bundle has ≥1 condition and the model's outcome is an accept or a reject attributed to a condition-level or cross-spend rule (not to a broken outer list); distinct by hash of (serialized tree, flags, visitor).",
        assumptions: &[
            "the reference model (vcore::model::conditions) is written from the README implementation notes, flag doc-comments, eligibility comments and cost constants; error codes are not compared",
            "validity of a 48-byte public key is delegated to chia_bls::PublicKey::from_bytes (decided by C16)",
            "fast-forward eligibility is not compared for spends that contain both ASSERT_MY_PARENT_ID and an unrecognised opcode (position rule unspecified)",
        ],
        subchecks: vec![SubCheck {
            name: "parse-vs-model",
            about: "parse_spends::<V> + OwnedSpendBundleConditions::from vs the reference model, all flag subsets, both visitors",
            source: Source::Random { len: 1536, quick: 600_000, thorough: 15_000_000 },
            run: case_parse,
            inflight: false,
            min_nontrivial: 100_000,
            required_labels: &["verdict:accept", "visitor:mempool", "visitor:block", "signature:validated"],
        },
        SubCheck {
            name: "program-vs-model",
            about: "run_spendbundle and run_block_generator2 on the same bundles as CoinSpends (identity puzzles, or eval puzzles computing the conditions at run time) vs the reference model",
            source: Source::Random { len: 1536, quick: 150_000, thorough: 4_000_000 },
            run: case_program,
            inflight: false,
            min_nontrivial: 20_000,
            required_labels: &["run_spendbundle:accept", "rbg2:accept", "puzzles:eval-computed-conditions", "puzzles:identity"],
        }],
        death_is_violation: false,
    }
}
