fn main() {
    vcore::engine::main(c01::property());
}
