//! Program-level helpers shared by the consensus properties: turning a
//! generated bundle into `CoinSpend`s / a `SpendBundle` / block generators,
//! and normalising results.

use crate::condgen::GenBundle;
use crate::gentree::{Tid, Tree};
use chia_bls::Signature;
use chia_consensus::conditions::SpendBundleConditions;
use chia_consensus::flags::ConsensusFlags;
use chia_consensus::owned_conditions::OwnedSpendBundleConditions;
use chia_protocol::{Coin, CoinSpend, Program, SpendBundle};
use clvmr::Allocator;

/// `CoinSpend`s of a generated bundle: puzzle = the spend's tagged identity
/// program, solution = its condition list (both plainly serialized).
pub fn coin_spends(b: &GenBundle) -> Vec<CoinSpend> {
    b.spends
        .iter()
        .map(|sp| {
            CoinSpend::new(
                Coin::new(sp.parent.into(), sp.puzzle_hash.into(), sp.amount),
                Program::from(b.tree.serialize(sp.puzzle)),
                Program::from(b.tree.serialize(sp.cond_list)),
            )
        })
        .collect()
}

pub fn coin_spend(t: &Tree, parent: [u8; 32], ph: [u8; 32], amount: u64, puzzle: Tid, solution: Tid) -> CoinSpend {
    CoinSpend::new(
        Coin::new(parent.into(), ph.into(), amount),
        Program::from(t.serialize(puzzle)),
        Program::from(t.serialize(solution)),
    )
}

pub fn spend_bundle(coin_spends: Vec<CoinSpend>, sig: &Signature) -> SpendBundle {
    SpendBundle::new(coin_spends, sig.clone())
}

/// owned summary with `create_coin` sorted (it is a set; the Vec order comes
/// from HashSet iteration)
pub fn owned(a: &Allocator, c: SpendBundleConditions) -> OwnedSpendBundleConditions {
    let mut o = OwnedSpendBundleConditions::from(a, c);
    for sp in &mut o.spends {
        sp.create_coin.sort();
    }
    o
}

/// interesting consensus flag sets for program-level runs, chosen by index
/// (0 = simplest). `DONT_VALIDATE_SIGNATURE` is *not* included.
pub fn flag_set(i: usize) -> ConsensusFlags {
    use chia_consensus::flags::MEMPOOL_MODE;
    match i % 8 {
        0 => ConsensusFlags::empty(),
        1 => ConsensusFlags::COST_CONDITIONS,
        2 => MEMPOOL_MODE,
        3 => MEMPOOL_MODE | ConsensusFlags::COST_CONDITIONS,
        4 => ConsensusFlags::SIMPLE_GENERATOR | ConsensusFlags::COST_CONDITIONS | ConsensusFlags::LIMIT_SPENDS,
        5 => ConsensusFlags::LIMIT_HEAP | ConsensusFlags::NO_UNKNOWN_CONDS,
        6 => ConsensusFlags::STRICT_ARGS_COUNT | ConsensusFlags::COST_CONDITIONS,
        _ => MEMPOOL_MODE | ConsensusFlags::SIMPLE_GENERATOR | ConsensusFlags::COST_CONDITIONS | ConsensusFlags::CANONICAL_INTS | ConsensusFlags::LIMITS,
    }
}
pub const NUM_FLAG_SETS: usize = 8;

/// a CLVM program that evaluates to the value `node`, computing some of its
/// atoms — list terminators in particular — at run time (`substr`, `concat`,
/// `+`, `-`), so that they are heap-allocated atoms rather than the canonical
/// nil / small-integer nodes. `budget` bounds the number of `c` nodes.
pub fn computed_program(t: &mut Tree, node: Tid, s: &mut crate::src::Src<'_>, budget: &mut usize, depth: usize) -> Tid {
    use crate::gentree::TNode;
    let q = t.atom(&[1]);
    let quote = |t: &mut Tree, n: Tid| -> Tid { t.pair(q, n) };
    match t.get(node).clone() {
        TNode::Atom(b) => {
            if !s.chance(150) {
                return quote(t, node);
            }
            if b.is_empty() {
                match s.below(3) {
                    0 => {
                        // (substr "hello!" k k): an empty atom that is not the nil node
                        let op = t.atom(&[12]);
                        let src = t.atom(b"hello!");
                        let qs = quote(t, src);
                        let k = 1 + s.below(5) as u8;
                        let ka = t.atom(&[k]);
                        let qk = quote(t, ka);
                        t.list(&[op, qs, qk, qk])
                    }
                    1 => {
                        let op = t.atom(&[14]);
                        let n = t.nil();
                        let qn = quote(t, n);
                        t.list(&[op, qn, qn])
                    }
                    _ => {
                        let op = t.atom(&[17]);
                        let five = t.atom(&[5]);
                        let q5 = quote(t, five);
                        t.list(&[op, q5, q5])
                    }
                }
            } else if b.len() >= 2 {
                let op = t.atom(&[14]);
                let mid = 1 + s.below(b.len() - 1);
                let h = t.atom(&b[..mid]);
                let tl = t.atom(&b[mid..]);
                let qh = quote(t, h);
                let qt = quote(t, tl);
                t.list(&[op, qh, qt])
            } else if b[0] >= 2 && b[0] < 0x80 {
                let op = t.atom(&[16]);
                let one = t.atom(&[1]);
                let rest = t.atom(&[b[0] - 1]);
                let q1 = quote(t, one);
                let qr = quote(t, rest);
                t.list(&[op, q1, qr])
            } else {
                quote(t, node)
            }
        }
        TNode::Pair(l, r) => {
            if *budget == 0 || depth > 60 {
                return quote(t, node);
            }
            *budget -= 1;
            let lp = if s.chance(110) { computed_program(t, l, s, budget, depth + 1) } else { quote(t, l) };
            let rp = computed_program(t, r, s, budget, depth + 1);
            let c = t.atom(&[4]);
            t.list(&[c, lp, rp])
        }
    }
}

/// `CoinSpend`s of a bundle generated with `cfg.eval_puzzles`: the solution of
/// every spend is `(program)` where `program` computes the spend's condition
/// list at run time
pub fn coin_spends_computed(b: &mut GenBundle, s: &mut crate::src::Src<'_>) -> Vec<CoinSpend> {
    let mut out = vec![];
    for i in 0..b.spends.len() {
        let sp = b.spends[i].clone();
        let mut budget = 40usize;
        let prog = computed_program(&mut b.tree, sp.cond_list, s, &mut budget, 0);
        let sol = b.tree.list(&[prog]);
        out.push(CoinSpend::new(
            Coin::new(sp.parent.into(), sp.puzzle_hash.into(), sp.amount),
            Program::from(b.tree.serialize(sp.puzzle)),
            Program::from(b.tree.serialize(sol)),
        ));
    }
    out
}
