//! Program-level helpers shared by the consensus properties: turning a
//! generated bundle into `CoinSpend`s / a `SpendBundle` / block generators,
//! and normalising results.

use crate::condgen::GenBundle;
use crate::gentree::{Tid, Tree};
use chia_bls::Signature;
use chia_consensus::conditions::SpendBundleConditions;
use chia_consensus::flags::ConsensusFlags;
use chia_consensus::owned_conditions::OwnedSpendBundleConditions;
use chia_protocol::{Coin, CoinSpend, Program, SpendBundle};
use clvmr::Allocator;

/// `CoinSpend`s of a generated bundle: puzzle = the spend's tagged identity
/// program, solution = its condition list (both plainly serialized).
pub fn coin_spends(b: &GenBundle) -> Vec<CoinSpend> {
    b.spends
        .iter()
        .map(|sp| {
            CoinSpend::new(
                Coin::new(sp.parent.into(), sp.puzzle_hash.into(), sp.amount),
                Program::from(b.tree.serialize(sp.puzzle)),
                Program::from(b.tree.serialize(sp.cond_list)),
            )
        })
        .collect()
}

pub fn coin_spend(t: &Tree, parent: [u8; 32], ph: [u8; 32], amount: u64, puzzle: Tid, solution: Tid) -> CoinSpend {
    CoinSpend::new(
        Coin::new(parent.into(), ph.into(), amount),
        Program::from(t.serialize(puzzle)),
        Program::from(t.serialize(solution)),
    )
}

pub fn spend_bundle(coin_spends: Vec<CoinSpend>, sig: &Signature) -> SpendBundle {
    SpendBundle::new(coin_spends, sig.clone())
}

/// owned summary with `create_coin` sorted (it is a set; the Vec order comes
/// from HashSet iteration)
pub fn owned(a: &Allocator, c: SpendBundleConditions) -> OwnedSpendBundleConditions {
    let mut o = OwnedSpendBundleConditions::from(a, c);
    for sp in &mut o.spends {
        sp.create_coin.sort();
    }
    o
}

/// interesting consensus flag sets for program-level runs, chosen by index
/// (0 = simplest). `DONT_VALIDATE_SIGNATURE` is *not* included.
pub fn flag_set(i: usize) -> ConsensusFlags {
    use chia_consensus::flags::MEMPOOL_MODE;
    match i % 8 {
        0 => ConsensusFlags::empty(),
        1 => ConsensusFlags::COST_CONDITIONS,
        2 => MEMPOOL_MODE,
        3 => MEMPOOL_MODE | ConsensusFlags::COST_CONDITIONS,
        4 => ConsensusFlags::SIMPLE_GENERATOR | ConsensusFlags::COST_CONDITIONS | ConsensusFlags::LIMIT_SPENDS,
        5 => ConsensusFlags::LIMIT_HEAP | ConsensusFlags::NO_UNKNOWN_CONDS,
        6 => ConsensusFlags::STRICT_ARGS_COUNT | ConsensusFlags::COST_CONDITIONS,
        _ => MEMPOOL_MODE | ConsensusFlags::SIMPLE_GENERATOR | ConsensusFlags::COST_CONDITIONS | ConsensusFlags::CANONICAL_INTS | ConsensusFlags::LIMITS,
    }
}
pub const NUM_FLAG_SETS: usize = 8;
