//! Program-level helpers shared by the consensus properties: turning a
//! generated bundle into `CoinSpend`s / a `SpendBundle` / block generators,
//! and normalising results.

use crate::condgen::GenBundle;
use crate::gentree::{Tid, Tree};
use chia_bls::Signature;
use chia_consensus::conditions::SpendBundleConditions;
use chia_consensus::flags::ConsensusFlags;
use chia_consensus::owned_conditions::OwnedSpendBundleConditions;
use chia_protocol::{Coin, CoinSpend, Program, SpendBundle};
use clvmr::Allocator;

/// `CoinSpend`s of a generated bundle: puzzle = the spend's tagged identity
/// program, solution = its condition list (both plainly serialized).
pub fn coin_spends(b: &GenBundle) -> Vec<CoinSpend> {
    b.spends
        .iter()
        .map(|sp| {
            CoinSpend::new(
                Coin::new(sp.parent.into(), sp.puzzle_hash.into(), sp.amount),
                Program::from(b.tree.serialize(sp.puzzle)),
                Program::from(b.tree.serialize(sp.cond_list)),
            )
        })
        .collect()
}

pub fn coin_spend(t: &Tree, parent: [u8; 32], ph: [u8; 32], amount: u64, puzzle: Tid, solution: Tid) -> CoinSpend {
    CoinSpend::new(
        Coin::new(parent.into(), ph.into(), amount),
        Program::from(t.serialize(puzzle)),
        Program::from(t.serialize(solution)),
    )
}

pub fn spend_bundle(coin_spends: Vec<CoinSpend>, sig: &Signature) -> SpendBundle {
    SpendBundle::new(coin_spends, sig.clone())
}

/// owned summary with `create_coin` sorted (it is a set; the Vec order comes
/// from HashSet iteration)
pub fn owned(a: &Allocator, c: SpendBundleConditions) -> OwnedSpendBundleConditions {
    let mut o = OwnedSpendBundleConditions::from(a, c);
    for sp in &mut o.spends {
        sp.create_coin.sort();
    }
    o
}

/// interesting consensus flag sets for program-level runs, chosen by index
/// (0 = simplest). `DONT_VALIDATE_SIGNATURE` is *not* included.
pub fn flag_set(i: usize) -> ConsensusFlags {
    use chia_consensus::flags::MEMPOOL_MODE;
    match i % 8 {
        0 => ConsensusFlags::empty(),
        1 => ConsensusFlags::COST_CONDITIONS,
        2 => MEMPOOL_MODE,
        3 => MEMPOOL_MODE | ConsensusFlags::COST_CONDITIONS,
        4 => ConsensusFlags::SIMPLE_GENERATOR | ConsensusFlags::COST_CONDITIONS | ConsensusFlags::LIMIT_SPENDS,
        5 => ConsensusFlags::LIMIT_HEAP | ConsensusFlags::NO_UNKNOWN_CONDS,
        6 => ConsensusFlags::STRICT_ARGS_COUNT | ConsensusFlags::COST_CONDITIONS,
        _ => MEMPOOL_MODE | ConsensusFlags::SIMPLE_GENERATOR | ConsensusFlags::COST_CONDITIONS | ConsensusFlags::CANONICAL_INTS | ConsensusFlags::LIMITS,
    }
}
pub const NUM_FLAG_SETS: usize = 8;

/// a CLVM program that evaluates to the value `node`, computing some of its
/// atoms — list terminators in particular — at run time (`substr`, `concat`,
/// `+`, `-`), so that they are heap-allocated atoms rather than the canonical
/// nil / small-integer nodes. `budget` bounds the number of `c` nodes.
pub fn computed_program(t: &mut Tree, node: Tid, s: &mut crate::src::Src<'_>, budget: &mut usize, depth: usize) -> Tid {
    use crate::gentree::TNode;
    let q = t.atom(&[1]);
    let quote = |t: &mut Tree, n: Tid| -> Tid { t.pair(q, n) };
    match t.get(node).clone() {
        TNode::Atom(b) => {
            if !s.chance(150) {
                return quote(t, node);
            }
            if b.is_empty() {
                match s.below(3) {
                    0 => {
                        // (substr "hello!" k k): an empty atom that is not the nil node
                        let op = t.atom(&[12]);
                        let src = t.atom(b"hello!");
                        let qs = quote(t, src);
                        let k = 1 + s.below(5) as u8;
                        let ka = t.atom(&[k]);
                        let qk = quote(t, ka);
                        t.list(&[op, qs, qk, qk])
                    }
                    1 => {
                        let op = t.atom(&[14]);
                        let n = t.nil();
                        let qn = quote(t, n);
                        t.list(&[op, qn, qn])
                    }
                    _ => {
                        let op = t.atom(&[17]);
                        let five = t.atom(&[5]);
                        let q5 = quote(t, five);
                        t.list(&[op, q5, q5])
                    }
                }
            } else if b.len() >= 2 {
                let op = t.atom(&[14]);
                let mid = 1 + s.below(b.len() - 1);
                let h = t.atom(&b[..mid]);
                let tl = t.atom(&b[mid..]);
                let qh = quote(t, h);
                let qt = quote(t, tl);
                t.list(&[op, qh, qt])
            } else if b[0] >= 2 && b[0] < 0x80 {
                let op = t.atom(&[16]);
                let one = t.atom(&[1]);
                let rest = t.atom(&[b[0] - 1]);
                let q1 = quote(t, one);
                let qr = quote(t, rest);
                t.list(&[op, q1, qr])
            } else {
                quote(t, node)
            }
        }
        TNode::Pair(l, r) => {
            if *budget == 0 || depth > 60 {
                return quote(t, node);
            }
            *budget -= 1;
            let lp = if s.chance(110) { computed_program(t, l, s, budget, depth + 1) } else { quote(t, l) };
            let rp = computed_program(t, r, s, budget, depth + 1);
            let c = t.atom(&[4]);
            t.list(&[c, lp, rp])
        }
    }
}

/// The consensus flags that switch CLVM *operators* (hard-fork activations and
/// interpreter options). They are inert for quoted condition lists; they matter
/// as soon as a puzzle executes the operators concerned, see `op_probe`.
pub const OP_FLAGS: [ConsensusFlags; 6] = [
    ConsensusFlags::RELAXED_BLS,
    ConsensusFlags::ENABLE_KECCAK_OPS_OUTSIDE_GUARD,
    ConsensusFlags::ENABLE_SHA256_TREE,
    ConsensusFlags::ENABLE_SECP_OPS,
    ConsensusFlags::MALACHITE,
    ConsensusFlags::ENABLE_GC,
];

/// the subset of `OP_FLAGS` selected by the low six bits
pub fn op_flag_subset(bits: usize) -> ConsensusFlags {
    let mut f = ConsensusFlags::empty();
    for (i, fl) in OP_FLAGS.iter().enumerate() {
        if bits >> i & 1 == 1 {
            f |= *fl;
        }
    }
    f
}

/// a CLVM expression over quoted constants whose outcome (value, cost, or
/// raise) depends on one of the operator flags: `bls_g1_negate`/`bls_g2_negate`
/// of a right-sized atom that is no point (RELAXED_BLS), `keccak256`,
/// `sha256tree`, `secp256k1_verify` with garbage arguments (unknown operators
/// unless enabled), `modpow` (DISABLE_OP), `%` and `divmod` (MALACHITE backend)
pub fn op_probe(t: &mut Tree, s: &mut crate::src::Src<'_>) -> (Tid, &'static str) {
    let q = t.atom(&[1]);
    let call = |t: &mut Tree, op: u8, args: &[&[u8]]| -> Tid {
        let mut items = vec![t.atom(&[op])];
        for a in args {
            let x = t.atom(a);
            items.push(t.pair(q, x));
        }
        t.list(&items)
    };
    match s.below(8) {
        0 => (call(t, 51, &[&[0x11; 48]]), "probe:bls_g1_negate-of-non-point"),
        1 => (call(t, 55, &[&[0x11; 96]]), "probe:bls_g2_negate-of-non-point"),
        2 => (call(t, 62, &[b"probe"]), "probe:keccak256"),
        3 => (call(t, 63, &[b"probe"]), "probe:sha256tree"),
        4 => (call(t, 60, &[&[3], &[5], &[7]]), "probe:modpow"),
        5 => (call(t, 61, &[&[0x7f, 0x11, 0x22, 0x33, 0x44, 0x55, 0x66, 0x77, 0x88], &[0x83]]), "probe:mod-negative-divisor"),
        6 => (call(t, 64, &[&[2; 33], &[3; 32], &[4; 64]]), "probe:secp256k1_verify-garbage"),
        _ => (call(t, 20, &[&[0x81, 0x00, 0x01], &[0x7f]]), "probe:divmod-negative-dividend"),
    }
}

/// `prog` preceded by an operator probe: `(i PROBE prog prog)` evaluates the
/// probe (all arguments of `i` are evaluated) and yields `prog`'s value
/// whatever the probe returns; it fails iff the probe raises
pub fn with_probe(t: &mut Tree, prog: Tid, s: &mut crate::src::Src<'_>) -> (Tid, &'static str) {
    let (probe, name) = op_probe(t, s);
    let i = t.atom(&[3]);
    (t.list(&[i, probe, prog, prog]), name)
}

/// `CoinSpend`s of a bundle generated with `cfg.eval_puzzles`: the solution of
/// every spend is `(program)` where `program` computes the spend's condition
/// list at run time
pub fn coin_spends_computed(b: &mut GenBundle, s: &mut crate::src::Src<'_>) -> Vec<CoinSpend> {
    let mut out = vec![];
    for i in 0..b.spends.len() {
        let sp = b.spends[i].clone();
        let mut budget = 40usize;
        let prog = computed_program(&mut b.tree, sp.cond_list, s, &mut budget, 0);
        let sol = b.tree.list(&[prog]);
        out.push(CoinSpend::new(
            Coin::new(sp.parent.into(), sp.puzzle_hash.into(), sp.amount),
            Program::from(b.tree.serialize(sp.puzzle)),
            Program::from(b.tree.serialize(sol)),
        ));
    }
    out
}
