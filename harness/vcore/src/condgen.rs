//! Generator of spend bundles at the level of the generator *output* tree
//! `((spend …))`, shared by the consensus properties.
//!
//! Construction rather than rejection: a bundle starts out valid by
//! construction (balanced amounts, every assertion has its counterpart,
//! ephemeral children point at a coin their parent creates) and then receives
//! 0–3 labelled mutations. Pools are small on purpose so that cross-spend
//! relations match about half the time and near-miss otherwise.
//!
//! Every spend's puzzle is a *tagged identity* program
//! `(i (q . tag) 1 ())` whose result is its solution; the puzzle hash
//! therefore does not depend on the conditions, and the same bundle can be
//! used at parse level (only the hash matters) and at program level
//! (`CoinSpend { puzzle, solution = condition list }`).

use crate::gentree::{Tid, Tree};
use crate::model::conditions as mc;
use crate::model::int::enc_u64;
use crate::model::treehash;
use crate::src::Src;
use sha2::{Digest, Sha256};
use std::sync::OnceLock;

pub const NUM_KEYS: usize = 6;
pub const NUM_TAGS: usize = 6;

pub struct KeyPool {
    pub sks: Vec<chia_bls::SecretKey>,
    pub pks: Vec<[u8; 48]>,
}

pub fn key_pool() -> &'static KeyPool {
    static POOL: OnceLock<KeyPool> = OnceLock::new();
    POOL.get_or_init(|| {
        let mut sks = vec![];
        let mut pks = vec![];
        for i in 0..NUM_KEYS {
            let mut seed = [0u8; 32];
            seed[0] = i as u8 + 1;
            seed[31] = 0xa5;
            let sk = chia_bls::SecretKey::from_seed(&seed);
            pks.push(sk.public_key().to_bytes());
            sks.push(sk);
        }
        KeyPool { sks, pks }
    })
}

/// 48-byte strings that are *not* acceptable public keys
pub fn bad_keys() -> &'static Vec<[u8; 48]> {
    static BAD: OnceLock<Vec<[u8; 48]>> = OnceLock::new();
    BAD.get_or_init(|| {
        let mut inf = [0u8; 48];
        inf[0] = 0xc0;
        let ff = [0xffu8; 48];
        let zero = [0u8; 48];
        // a valid key with one coordinate byte changed (off-curve w.h.p.; the
        // model's key oracle decides in any case)
        let mut tweaked = key_pool().pks[0];
        tweaked[20] ^= 0x55;
        vec![inf, ff, zero, tweaked]
    })
}

/// the model's key-validity oracle (delegated to chia-bls; C16 decides BLS
/// encoding rules)
pub fn key_ok(b: &[u8]) -> bool {
    let Ok(arr) = <[u8; 48]>::try_from(b) else {
        return false;
    };
    // fast path: pool keys were produced by SecretKey::public_key
    if key_pool().pks.iter().any(|k| *k == arr) {
        return true;
    }
    match chia_bls::PublicKey::from_bytes(&arr) {
        Ok(pk) => !pk.is_inf(),
        Err(_) => false,
    }
}

/// `(i (q . tag) 1 ())` — evaluates to its solution for a non-nil tag
pub fn tagged_identity(t: &mut Tree, tag: u8) -> Tid {
    let i = t.atom(&[3]);
    let q = t.atom(&[1]);
    let tg = t.atom(&[tag]);
    let quoted = t.pair(q, tg);
    let one = t.atom(&[1]);
    let nil = t.nil();
    t.list(&[i, quoted, one, nil])
}

/// `(a (i (q . tag) 2 2) 3)` — runs the program given as the first element of
/// its solution with the rest of the solution as environment: the conditions
/// are then *computed at run time* (atoms produced by operators reach the
/// consensus code as heap-allocated atoms)
pub fn tagged_eval(t: &mut Tree, tag: u8) -> Tid {
    let i = t.atom(&[3]);
    let q = t.atom(&[1]);
    let tg = t.atom(&[tag]);
    let quoted = t.pair(q, tg);
    let two = t.atom(&[2]);
    let sel = t.list(&[i, quoted, two, two]);
    let three = t.atom(&[3]);
    t.list(&[two, sel, three])
}

pub fn eval_puzzle_hashes() -> &'static Vec<[u8; 32]> {
    static PH: OnceLock<Vec<[u8; 32]>> = OnceLock::new();
    PH.get_or_init(|| {
        (0..NUM_TAGS)
            .map(|k| {
                let mut t = Tree::new();
                let p = tagged_eval(&mut t, k as u8 + 1);
                treehash::tree_hash(&t, p)
            })
            .collect()
    })
}

pub fn tag_puzzle_hashes() -> &'static Vec<[u8; 32]> {
    static PH: OnceLock<Vec<[u8; 32]>> = OnceLock::new();
    PH.get_or_init(|| {
        (0..NUM_TAGS)
            .map(|k| {
                let mut t = Tree::new();
                let p = tagged_identity(&mut t, k as u8 + 1);
                treehash::tree_hash(&t, p)
            })
            .collect()
    })
}

pub fn sha(parts: &[&[u8]]) -> [u8; 32] {
    let mut h = Sha256::new();
    for p in parts {
        h.update(p);
    }
    h.finalize().into()
}

/// interesting unsigned 64-bit values; index 0 is the simplest
pub fn interesting_u64(s: &mut Src<'_>) -> u64 {
    const FIXED: [u64; 24] = [
        1,
        0,
        2,
        0x7f,
        0x80,
        0xff,
        0x100,
        0x7fff,
        0x8000,
        0xffff,
        0x1_0000,
        0x7f_ffff,
        0x80_0000,
        0x7fff_ffff,
        0x8000_0000,
        0xffff_ffff,
        0x1_0000_0000,
        0x7fff_ffff_ffff,
        0x8000_0000_0000,
        0x7fff_ffff_ffff_ffff,
        0x8000_0000_0000_0000,
        0xffff_ffff_ffff_fffe,
        0xffff_ffff_ffff_ffff,
        1_000_000_000_000,
    ];
    match s.weighted(&[10, 4, 3]) {
        0 => FIXED[s.below(FIXED.len())],
        1 => s.below(1000) as u64,
        _ => {
            let bits = s.range(1, 64);
            let raw = s.u64();
            if bits == 64 {
                raw
            } else {
                (raw & ((1u64 << bits) - 1)) | (1u64 << (bits - 1))
            }
        }
    }
}

/// how an integer argument is encoded
#[derive(Clone, Copy, Debug, PartialEq, Eq)]
pub enum IntEnc {
    Canonical,
    RedundantZero,
    Negative,
    Oversized,
    ZeroByte,
}

/// one in sixteen out-of-range integers is not just a few bytes too long but far
/// beyond every size limit of the condition parser (1 KiB .. 2 KiB). Decided by
/// bits of the value itself, so that the number of choice bytes consumed (and
/// with it the meaning of recorded choice sequences) stays the same.
fn lengthen(b: &mut Vec<u8>) {
    let last = *b.last().expect("non-empty");
    if b.len() >= 2 && last & 0x0f == 0x0f {
        let extra = 1020 + usize::from(last >> 4) * 64 + usize::from(b[1] & 7);
        let fill = b[1];
        b.resize(b.len() + extra, fill);
    }
}

pub fn encode_int(v: u64, enc: IntEnc, s: &mut Src<'_>) -> Vec<u8> {
    match enc {
        IntEnc::Canonical => enc_u64(v),
        IntEnc::RedundantZero => {
            // one more leading zero than the canonical form has (for 0 this is
            // the single zero byte)
            let mut b = vec![0u8];
            b.extend_from_slice(&enc_u64(v));
            b
        }
        IntEnc::Negative => {
            let n = s.range(1, 9);
            let mut b = s.bytes(n);
            b[0] |= 0x80;
            lengthen(&mut b);
            b
        }
        IntEnc::Oversized => {
            // needs more than 8 bytes (more than 4 for heights is reached by the
            // interesting values themselves)
            let n = s.range(9, 12);
            let mut b = s.bytes(n);
            b[0] = (b[0] & 0x7f) | 0x01;
            lengthen(&mut b);
            b
        }
        IntEnc::ZeroByte => vec![0],
    }
}

fn pick_int_enc(s: &mut Src<'_>) -> IntEnc {
    match s.weighted(&[240, 2, 2, 2, 1]) {
        0 => IntEnc::Canonical,
        1 => IntEnc::RedundantZero,
        2 => IntEnc::Negative,
        3 => IntEnc::Oversized,
        _ => IntEnc::ZeroByte,
    }
}

#[derive(Clone, Debug)]
pub struct GSpend {
    pub parent: [u8; 32],
    pub tag: u8,
    pub puzzle_hash: [u8; 32],
    pub amount: u64,
    pub coin_id: [u8; 32],
    /// the individual condition nodes (before list-level mutations)
    pub conds: Vec<Tid>,
    /// the condition list node as placed in the spend
    pub cond_list: Tid,
    /// the tagged identity puzzle (for program-level use)
    pub puzzle: Tid,
    /// the spend node itself
    pub node: Tid,
    /// false if the spend tuple was mutated so that it no longer corresponds
    /// to (parent, puzzle hash, amount, conditions)
    pub well_formed: bool,
}

#[derive(Clone, Debug, Default)]
pub struct GenCfg {
    /// maximum number of spends in the common case
    pub max_spends: usize,
    pub max_conds: usize,
    /// probability (per 256) of applying mutations at all
    pub mutation_rate: u16,
    /// allow AGG_SIG conditions
    pub agg_sigs: bool,
    /// allow "huge" cases (6001 spends, 1025 announcements)
    pub huge: bool,
    /// only features that pass full mempool strictness (for C06)
    pub strict_friendly: bool,
    /// allow the spend tuple / outer list shape mutations
    pub shape_mutations: bool,
    /// probability (per 256) that the bundle is planned in *careful* mode:
    /// every output affordable and distinct, every assertion matched, every
    /// self-assertion right, no opposing locks
    pub careful_rate: u16,
    /// use the *eval* puzzles (`tagged_eval`) instead of the tagged identity
    /// puzzles: only the puzzle hashes (and the `puzzle` node of every spend)
    /// change; see `proglevel::coin_spends_computed`
    pub eval_puzzles: bool,
}

impl GenCfg {
    pub fn standard() -> Self {
        GenCfg {
            max_spends: 6,
            max_conds: 8,
            mutation_rate: 64,
            agg_sigs: true,
            huge: true,
            strict_friendly: false,
            shape_mutations: true,
            careful_rate: 100,
            eval_puzzles: false,
        }
    }
}

pub struct GenBundle {
    pub tree: Tree,
    /// `((spend …))` — what `parse_spends` takes
    pub root: Tid,
    pub spends: Vec<GSpend>,
    pub labels: Vec<String>,
    /// total number of condition nodes
    pub n_conds: usize,
}

struct Pools {
    parents: Vec<[u8; 32]>,
    msgs: Vec<Vec<u8>>,
}

fn make_pools(s: &mut Src<'_>) -> Pools {
    let mut parents = vec![];
    for i in 0..4u8 {
        let mut p = [0u8; 32];
        p[0] = 0x10 + i;
        p[31] = s.u8() & 3;
        parents.push(p);
    }
    let msgs = vec![
        vec![],
        b"hello".to_vec(),
        vec![0x42; 32],
        vec![1],
        vec![0x33; 64],
    ];
    Pools { parents, msgs }
}

/// abstract plan of one condition; turned into a tree node afterwards
#[derive(Clone, Debug)]
enum Plan {
    CreateCoin { ph: [u8; 32], amount: u64, memo: u8 },
    ReserveFee(u64),
    AnnounceCoin(Vec<u8>),
    AnnouncePuzzle(Vec<u8>),
    AssertCoinAnn([u8; 32]),
    AssertPuzzleAnn([u8; 32]),
    ConcurrentSpend([u8; 32]),
    ConcurrentPuzzle([u8; 32]),
    Send { mode: u8, msg: Vec<u8>, dst: Vec<Vec<u8>> },
    Receive { mode: u8, msg: Vec<u8>, src: Vec<Vec<u8>> },
    MyCoinId([u8; 32]),
    MyParentId([u8; 32]),
    MyPuzzleHash([u8; 32]),
    MyAmount(u64),
    Lock { op: u16, value: u64 },
    Ephemeral,
    AggSig { op: u16, key: Vec<u8>, msg: Vec<u8> },
    Softfork(u64),
    Remark,
    TwoByte(u16),
    UnknownOneByte(u8),
}

fn spend_descriptor(mode: u8, sp: &GSpend) -> Vec<Vec<u8>> {
    match mode & 7 {
        0b111 => vec![sp.coin_id.to_vec()],
        m => {
            let mut v = vec![];
            if m & 0b100 != 0 {
                v.push(sp.parent.to_vec());
            }
            if m & 0b010 != 0 {
                v.push(sp.puzzle_hash.to_vec());
            }
            if m & 0b001 != 0 {
                v.push(enc_u64(sp.amount));
            }
            v
        }
    }
}

fn build_cond(t: &mut Tree, op_bytes: &[u8], args: &[Tid]) -> Tid {
    let op = t.atom(op_bytes);
    let mut items = vec![op];
    items.extend_from_slice(args);
    t.list(&items)
}

fn plan_to_node(t: &mut Tree, p: &Plan, s: &mut Src<'_>, labels: &mut Vec<String>, strict_friendly: bool) -> Tid {
    let int = |t: &mut Tree, v: u64, s: &mut Src<'_>, labels: &mut Vec<String>| -> Tid {
        let enc = if strict_friendly { IntEnc::Canonical } else { pick_int_enc(s) };
        if enc != IntEnc::Canonical {
            labels.push(format!("int-enc:{enc:?}"));
        }
        let b = encode_int(v, enc, s);
        t.atom(&b)
    };
    match p {
        Plan::CreateCoin { ph, amount, memo } => {
            let a0 = t.atom(ph);
            let a1 = int(t, *amount, s, labels);
            let op = t.atom(&[51]);
            // memo shapes
            let kinds = [
                "absent", "nil-list", "hint32", "hint-short", "hint33", "empty-first", "pair-first", "improper", "several",
                "atom-memos",
            ];
            let k = (*memo as usize).min(kinds.len() - 1);
            labels.push(format!("memo:{}", kinds[k]));
            let mut h32 = [0x77u8; 32];
            h32[0] = *memo;
            match k {
                0 => t.list(&[op, a0, a1]),
                1 => {
                    let m = t.nil();
                    t.list(&[op, a0, a1, m])
                }
                2 => {
                    let h = t.atom(&h32);
                    let m = t.list(&[h]);
                    t.list(&[op, a0, a1, m])
                }
                3 => {
                    let h = t.atom(&[0x99]);
                    let m = t.list(&[h]);
                    t.list(&[op, a0, a1, m])
                }
                4 => {
                    let h = t.atom(&[0x55; 33]);
                    let m = t.list(&[h]);
                    t.list(&[op, a0, a1, m])
                }
                5 => {
                    let h = t.nil();
                    let m = t.list(&[h]);
                    t.list(&[op, a0, a1, m])
                }
                6 => {
                    let x = t.atom(&[1]);
                    let y = t.atom(&[2]);
                    let pr = t.pair(x, y);
                    let m = t.list(&[pr]);
                    t.list(&[op, a0, a1, m])
                }
                7 => {
                    let h = t.atom(&h32);
                    let tail = t.atom(&[8]);
                    let m = t.pair(h, tail);
                    t.list(&[op, a0, a1, m])
                }
                8 => {
                    let h = t.atom(&h32);
                    let h2 = t.atom(b"memo2");
                    let h3 = t.atom(&[0x11; 40]);
                    let m = t.list(&[h, h2, h3]);
                    t.list(&[op, a0, a1, m])
                }
                _ => {
                    // memos is an atom instead of a list
                    let m = t.atom(&h32);
                    t.list(&[op, a0, a1, m])
                }
            }
        }
        Plan::ReserveFee(v) => {
            let a = int(t, *v, s, labels);
            build_cond(t, &[52], &[a])
        }
        Plan::AnnounceCoin(m) => {
            let a = t.atom(m);
            build_cond(t, &[60], &[a])
        }
        Plan::AnnouncePuzzle(m) => {
            let a = t.atom(m);
            build_cond(t, &[62], &[a])
        }
        Plan::AssertCoinAnn(h) => {
            let a = t.atom(h);
            build_cond(t, &[61], &[a])
        }
        Plan::AssertPuzzleAnn(h) => {
            let a = t.atom(h);
            build_cond(t, &[63], &[a])
        }
        Plan::ConcurrentSpend(h) => {
            let a = t.atom(h);
            build_cond(t, &[64], &[a])
        }
        Plan::ConcurrentPuzzle(h) => {
            let a = t.atom(h);
            build_cond(t, &[65], &[a])
        }
        Plan::Send { mode, msg, dst } | Plan::Receive { mode, msg, src: dst } => {
            let opb = if matches!(p, Plan::Send { .. }) { 66u8 } else { 67u8 };
            let m = if *mode == 0 { t.nil() } else { t.atom(&[*mode]) };
            let mg = t.atom(msg);
            let mut args = vec![m, mg];
            for d in dst {
                args.push(t.atom(d));
            }
            build_cond(t, &[opb], &args)
        }
        Plan::MyCoinId(h) => {
            let a = t.atom(h);
            build_cond(t, &[70], &[a])
        }
        Plan::MyParentId(h) => {
            let a = t.atom(h);
            build_cond(t, &[71], &[a])
        }
        Plan::MyPuzzleHash(h) => {
            let a = t.atom(h);
            build_cond(t, &[72], &[a])
        }
        Plan::MyAmount(v) => {
            let a = int(t, *v, s, labels);
            build_cond(t, &[73], &[a])
        }
        Plan::Lock { op, value } => {
            let a = int(t, *value, s, labels);
            build_cond(t, &[*op as u8], &[a])
        }
        Plan::Ephemeral => build_cond(t, &[76], &[]),
        Plan::AggSig { op, key, msg } => {
            let k = t.atom(key);
            let m = t.atom(msg);
            build_cond(t, &[*op as u8], &[k, m])
        }
        Plan::Softfork(v) => {
            let a = int(t, *v, s, labels);
            let extra = t.atom(b"future");
            if s.bool() {
                build_cond(t, &[90], &[a, extra])
            } else {
                build_cond(t, &[90], &[a])
            }
        }
        Plan::Remark => {
            let n = s.below(3);
            let mut args = vec![];
            for _ in 0..n {
                let b = s.bytes(3);
                args.push(t.atom(&b));
            }
            build_cond(t, &[1], &args)
        }
        Plan::TwoByte(op) => {
            let a = t.atom(b"x");
            build_cond(t, &op.to_be_bytes(), &[a])
        }
        Plan::UnknownOneByte(b) => {
            let a = t.atom(b"y");
            build_cond(t, &[*b], &[a])
        }
    }
}

fn op_name(op: u16) -> String {
    if op > 255 {
        "op:two-byte".to_string()
    } else if !mc::KNOWN_OPCODES.contains(&op) {
        "op:unknown-one-byte".to_string()
    } else {
        format!("op:{op}")
    }
}

fn plan_op(p: &Plan) -> u16 {
    match p {
        Plan::CreateCoin { .. } => 51,
        Plan::ReserveFee(_) => 52,
        Plan::AnnounceCoin(_) => 60,
        Plan::AssertCoinAnn(_) => 61,
        Plan::AnnouncePuzzle(_) => 62,
        Plan::AssertPuzzleAnn(_) => 63,
        Plan::ConcurrentSpend(_) => 64,
        Plan::ConcurrentPuzzle(_) => 65,
        Plan::Send { .. } => 66,
        Plan::Receive { .. } => 67,
        Plan::MyCoinId(_) => 70,
        Plan::MyParentId(_) => 71,
        Plan::MyPuzzleHash(_) => 72,
        Plan::MyAmount(_) => 73,
        Plan::Lock { op, .. } => *op,
        Plan::Ephemeral => 76,
        Plan::AggSig { op, .. } => *op,
        Plan::Softfork(_) => 90,
        Plan::Remark => 1,
        Plan::TwoByte(op) => *op,
        Plan::UnknownOneByte(b) => u16::from(*b),
    }
}

/// generate a bundle
pub fn gen_bundle(s: &mut Src<'_>, cfg: &GenCfg) -> GenBundle {
    let mut t = Tree::new();
    let mut labels: Vec<String> = vec![];
    let pools = make_pools(s);
    let phs = if cfg.eval_puzzles { eval_puzzle_hashes() } else { tag_puzzle_hashes() };
    let keys = key_pool();

    let careful = s.chance(cfg.careful_rate);
    if careful {
        labels.push("plan:careful".into());
    }
    // ---- spends
    let huge_spends = cfg.huge && s.below(1500) == 1499;
    let n_spends = if huge_spends {
        labels.push("huge:6001-spends".into());
        6001
    } else {
        match s.weighted(&[6, 10, 8, 5, 3, 2]) {
            0 => 1,
            1 => 2,
            2 => 3,
            3 => 4.min(cfg.max_spends.max(1)),
            4 => cfg.max_spends.max(1),
            _ => (cfg.max_spends * 2).max(1),
        }
    };
    let mut spends: Vec<GSpend> = Vec::with_capacity(n_spends);
    for i in 0..n_spends {
        let tag = if huge_spends { 1 } else { s.below(NUM_TAGS) as u8 + 1 };
        let ph = phs[(tag - 1) as usize];
        let parent = if huge_spends {
            let mut p = [0u8; 32];
            p[0] = 0x20;
            p[28..32].copy_from_slice(&(i as u32).to_be_bytes());
            p
        } else {
            let mut p = *s.pick(&pools.parents);
            if s.chance(140) {
                // mostly distinct parents
                p[1] = i as u8 + 1;
            }
            p
        };
        let amount = if huge_spends { 1 } else { interesting_u64(s) };
        spends.push(GSpend {
            parent,
            tag,
            puzzle_hash: ph,
            amount,
            coin_id: mc::coin_id(&parent, &ph, amount),
            conds: vec![],
            cond_list: 0,
            puzzle: 0,
            node: 0,
            well_formed: true,
        });
    }
    // ephemeral links: child j spends a coin created by parent i
    let mut plans: Vec<Vec<Plan>> = vec![vec![]; n_spends];
    let mut budget_out: Vec<u128> = vec![0; n_spends];
    let mut is_child: Vec<bool> = vec![false; n_spends];
    if !huge_spends && n_spends >= 2 && s.chance(110) {
        let n_links = s.range(1, 2);
        for _ in 0..n_links {
            let i = s.below(n_spends);
            let mut j = s.below(n_spends);
            if i == j {
                j = (j + 1) % n_spends;
            }
            // the child's amount must be payable by the parent
            let child_amount = if spends[j].amount <= spends[i].amount {
                spends[j].amount
            } else {
                spends[i].amount / 2
            };
            spends[j].amount = child_amount;
            is_child[j] = true;
            spends[j].parent = spends[i].coin_id;
            spends[j].coin_id = mc::coin_id(&spends[j].parent, &spends[j].puzzle_hash, child_amount);
            if careful || s.chance(225) {
                plans[i].push(Plan::CreateCoin {
                    ph: spends[j].puzzle_hash,
                    amount: child_amount,
                    memo: s.below(4) as u8,
                });
                budget_out[i] += u128::from(child_amount);
                labels.push("ephemeral:linked".into());
            } else {
                labels.push("ephemeral:parent-does-not-create".into());
            }
            if s.chance(90) {
                plans[j].push(Plan::Ephemeral);
            }
        }
        // coin ids of grandchildren may now be stale; recompute in order
        for _ in 0..2 {
            for j in 0..n_spends {
                let cid = mc::coin_id(&spends[j].parent, &spends[j].puzzle_hash, spends[j].amount);
                if cid != spends[j].coin_id {
                    let old = spends[j].coin_id;
                    spends[j].coin_id = cid;
                    for k in 0..n_spends {
                        if spends[k].parent == old {
                            spends[k].parent = cid;
                        }
                    }
                }
            }
        }
    }

    // ---- conditions (plans)
    let total_in: u128 = spends.iter().map(|x| u128::from(x.amount)).sum();
    let mut total_out: u128 = budget_out.iter().sum();
    let huge_announce = cfg.huge && !huge_spends && s.below(600) == 599;
    if huge_announce {
        labels.push("huge:1025-announcements".into());
        let k = s.below(n_spends);
        let n = if s.bool() { 1025 } else { 1024 };
        for q in 0..n {
            plans[k].push(Plan::AnnounceCoin(vec![(q >> 8) as u8, q as u8]));
        }
    }
    let lock_ops: [u16; 10] = [80, 81, 82, 83, 84, 85, 86, 87, 74, 75];
    let agg_ops: [u16; 8] = [43, 44, 45, 46, 47, 48, 49, 50];
    for i in 0..n_spends {
        if huge_spends && i > 3 {
            continue;
        }
        let n_conds = match s.weighted(&[3, 6, 8, 6, 3]) {
            0 => 0,
            1 => 1,
            2 => s.range(2, 3),
            3 => s.range(3, cfg.max_conds.max(3)),
            _ => cfg.max_conds,
        };
        for _ in 0..n_conds {
            let kind = s.weighted(&[
                14, // create coin
                4,  // reserve fee
                6,  // announce coin
                4,  // announce puzzle
                5,  // assert coin ann
                4,  // assert puzzle ann
                3,  // concurrent spend
                3,  // concurrent puzzle
                5,  // message pair
                5,  // self assertions
                8,  // locks
                1,  // ephemeral
                if cfg.agg_sigs { 5 } else { 0 },
                if cfg.strict_friendly { 0 } else { 1 }, // softfork
                2,  // remark
                if cfg.strict_friendly { 0 } else { 1 }, // two-byte
                if cfg.strict_friendly { 0 } else { 1 }, // unknown one byte
            ]);
            match kind {
                0 => {
                    let remaining = total_in.saturating_sub(total_out);
                    let amount = if careful || s.chance(215) {
                        // affordable
                        let r = remaining.min(u128::from(u64::MAX)) as u64;
                        match s.below(4) {
                            0 => r,
                            1 => r / 2,
                            2 => r.min(spends[i].amount),
                            _ => r.min(s.below(1000) as u64),
                        }
                    } else {
                        interesting_u64(s)
                    };
                    let ph = if s.chance(40) {
                        [0x66u8; 32]
                    } else if s.chance(60) {
                        spends[i].puzzle_hash
                    } else {
                        phs[s.below(NUM_TAGS)]
                    };
                    let (mut ph, amount) = if s.chance(40) && (!careful || u128::from(spends[i].amount) <= total_in.saturating_sub(total_out)) {
                        // singleton-like: recreate the coin itself
                        (spends[i].puzzle_hash, spends[i].amount)
                    } else {
                        (ph, amount)
                    };
                    if careful {
                        // no duplicate outputs within a spend
                        let mut bump = 0u8;
                        while plans[i].iter().any(|p| matches!(p, Plan::CreateCoin { ph: q, amount: am, .. } if *q == ph && *am == amount)) {
                            bump += 1;
                            ph = [0x66u8; 32];
                            ph[31] = bump;
                        }
                    }
                    total_out += u128::from(amount);
                    let memo = if cfg.strict_friendly { s.below(6) as u8 } else { s.below(10) as u8 };
                    plans[i].push(Plan::CreateCoin { ph, amount, memo });
                }
                1 => {
                    let remaining = total_in.saturating_sub(total_out);
                    let v = if careful || s.chance(200) {
                        (remaining.min(u128::from(u64::MAX)) as u64).min(s.below(100_000) as u64)
                    } else {
                        interesting_u64(s)
                    };
                    total_out += u128::from(v);
                    plans[i].push(Plan::ReserveFee(v));
                }
                2 => plans[i].push(Plan::AnnounceCoin(s.pick(&pools.msgs).clone())),
                3 => plans[i].push(Plan::AnnouncePuzzle(s.pick(&pools.msgs).clone())),
                4 => {
                    let k = s.below(n_spends);
                    let m = s.pick(&pools.msgs).clone();
                    if careful || s.chance(150) {
                        // make it match
                        plans[k].push(Plan::AnnounceCoin(m.clone()));
                    }
                    let id = sha(&[&spends[k].coin_id, &m]);
                    if !careful && s.chance(36) {
                        // the id of a COIN announcement asserted as a PUZZLE
                        // announcement: the two kinds live in separate name spaces
                        labels.push("announcement-id-asserted-under-the-other-kind".into());
                        plans[i].push(Plan::AssertPuzzleAnn(id));
                    } else {
                        plans[i].push(Plan::AssertCoinAnn(id));
                    }
                }
                5 => {
                    let k = s.below(n_spends);
                    let m = s.pick(&pools.msgs).clone();
                    if careful || s.chance(150) {
                        plans[k].push(Plan::AnnouncePuzzle(m.clone()));
                    }
                    let id = sha(&[&spends[k].puzzle_hash, &m]);
                    if !careful && s.chance(36) {
                        labels.push("announcement-id-asserted-under-the-other-kind".into());
                        plans[i].push(Plan::AssertCoinAnn(id));
                    } else {
                        plans[i].push(Plan::AssertPuzzleAnn(id));
                    }
                }
                6 => {
                    let id = if careful || s.chance(190) {
                        spends[s.below(n_spends)].coin_id
                    } else {
                        mc::coin_id(&pools.parents[0], &phs[0], 7)
                    };
                    plans[i].push(Plan::ConcurrentSpend(id));
                }
                7 => {
                    let ph = if careful || s.chance(190) {
                        spends[s.below(n_spends)].puzzle_hash
                    } else {
                        phs[s.below(NUM_TAGS)]
                    };
                    plans[i].push(Plan::ConcurrentPuzzle(ph));
                }
                8 => {
                    // a message from spend i to spend k
                    let k = s.below(n_spends);
                    let mode = s.below(64) as u8;
                    let (src_mode, dst_mode) = ((mode >> 3) & 7, mode & 7);
                    let msg = s.pick(&pools.msgs).clone();
                    let dst = spend_descriptor(dst_mode, &spends[k]);
                    let src = spend_descriptor(src_mode, &spends[i]);
                    if !careful && s.chance(26) {
                        // KEY-CONFUSION ATTACK: a send and a receive that do NOT
                        // correspond, but whose (sender, receiver, message) byte
                        // strings would coincide if the three components were
                        // concatenated without delimiters in some other order
                        // (message first / message in the middle). The counterpart
                        // descriptor is free (it need not describe a real coin),
                        // so the attacker controls every byte. Correct validation
                        // rejects the bundle (message not sent/received).
                        let x: u64 = ((s.u64() | (1 << 40)) >> 16) << 16; // low 16 bits zero
                        let xb = x.to_be_bytes();
                        let m = s.pick(&pools.msgs).clone();
                        let variant = s.below(4);
                        let mut m2 = m.clone();
                        match variant & 1 {
                            0 => {
                                // message-first order: M 00 01 x0..x7  ==  M' 00 00
                                m2.extend_from_slice(&[0x00, 0x01]);
                                m2.extend_from_slice(&xb[..6]);
                            }
                            _ => {
                                // message-in-the-middle order: 00 M 01 x0..x7  ==  00 M' 00
                                m2.push(0x01);
                                m2.extend_from_slice(&xb[..7]);
                            }
                        }
                        labels.push("message:key-confusion-attack".into());
                        if variant < 2 {
                            // the SEND names its receiver by amount only; the RECEIVE commits to nothing
                            plans[i].push(Plan::Send { mode: 0b000_001, msg: m, dst: vec![enc_u64(x)] });
                            plans[k].push(Plan::Receive { mode: 0, msg: m2, src: vec![] });
                        } else {
                            // mirrored: the RECEIVE names its sender by amount only
                            plans[k].push(Plan::Receive { mode: 0b001_000, msg: m, src: vec![enc_u64(x)] });
                            plans[i].push(Plan::Send { mode: 0, msg: m2, dst: vec![] });
                        }
                        continue;
                    }
                    let which = if careful { 0 } else { s.weighted(&[12, 2, 2, 1]) };
                    // the same message more than once (messages are counted, not
                    // just matched): all sends first, then all receives — for a
                    // spend messaging itself that is S,S,R,R within one spend
                    let copies = if s.chance(40) { 2 + s.below(2) } else { 1 };
                    if copies > 1 {
                        labels.push(if i == k { "message:repeated-self-message".into() } else { "message:repeated".into() });
                    }
                    if which != 1 {
                        for _ in 0..copies {
                            plans[i].push(Plan::Send { mode, msg: msg.clone(), dst: dst.clone() });
                        }
                    }
                    if which != 2 {
                        let m2 = if which == 3 { mode ^ 1 } else { mode };
                        for _ in 0..copies {
                            plans[k].push(Plan::Receive { mode: m2, msg: msg.clone(), src: src.clone() });
                        }
                    }
                }
                9 => {
                    let wrong = !careful && s.chance(35);
                    let sp = &spends[i];
                    let p = match s.below(4) {
                        0 => Plan::MyCoinId(if wrong { sp.parent } else { sp.coin_id }),
                        1 => Plan::MyParentId(if wrong { sp.coin_id } else { sp.parent }),
                        2 => Plan::MyPuzzleHash(if wrong { phs[(sp.tag as usize) % NUM_TAGS] } else { sp.puzzle_hash }),
                        _ => Plan::MyAmount(if wrong { sp.amount ^ 1 } else { sp.amount }),
                    };
                    if wrong {
                        labels.push("self-assert:wrong".into());
                    }
                    plans[i].push(p);
                }
                10 => {
                    let op = *s.pick(&lock_ops);
                    let value = match s.below(3) {
                        0 => s.below(200) as u64,
                        1 => 1000 + s.below(200) as u64,
                        _ => interesting_u64(s),
                    };
                    let (op, value) = if careful {
                        // absolute locks only on coins created in this bundle
                        let op = if is_child[i] {
                            [81u16, 83, 85, 87][s.below(4)]
                        } else {
                            op
                        };
                        let v = match op {
                            74 | 75 => 7,
                            80..=83 => s.below(200) as u64,
                            _ => 1000 + s.below(200) as u64,
                        };
                        (op, v)
                    } else {
                        (op, value)
                    };
                    plans[i].push(Plan::Lock { op, value });
                    if !careful && s.chance(64) {
                        // the opposing lock of the same kind, right at the boundary
                        let opp = match op {
                            80 => 84,
                            81 => 85,
                            82 => 86,
                            83 => 87,
                            84 => 80,
                            85 => 81,
                            86 => 82,
                            87 => 83,
                            o => o,
                        };
                        let v2 = match s.below(3) {
                            0 => value,
                            1 => value.wrapping_add(1),
                            _ => value.wrapping_sub(1),
                        };
                        plans[i].push(Plan::Lock { op: opp, value: v2 });
                    }
                }
                11 => {
                    if !careful {
                        plans[i].push(Plan::Ephemeral);
                    }
                }
                12 => {
                    let op = *s.pick(&agg_ops);
                    let key = if s.chance(236) || cfg.strict_friendly {
                        keys.pks[s.below(NUM_KEYS)].to_vec()
                    } else {
                        labels.push("agg-sig:bad-key".into());
                        s.pick(bad_keys()).to_vec()
                    };
                    let msg = s.pick(&pools.msgs).clone();
                    plans[i].push(Plan::AggSig { op, key, msg });
                }
                13 => plans[i].push(Plan::Softfork(match s.below(3) {
                    0 => s.below(50) as u64,
                    1 => 0xffff_ffff,
                    _ => interesting_u64(s),
                })),
                14 => plans[i].push(Plan::Remark),
                15 => {
                    let hi = s.range(1, 255) as u16;
                    let lo = s.below(256) as u16;
                    plans[i].push(Plan::TwoByte((hi << 8) | lo));
                }
                _ => {
                    // a one-byte opcode outside the known set
                    let mut b = s.u8();
                    while mc::KNOWN_OPCODES.contains(&u16::from(b)) {
                        b = b.wrapping_add(1);
                    }
                    plans[i].push(Plan::UnknownOneByte(b));
                }
            }
        }
        // shuffle the plan a little so that counterpart conditions appended by
        // other spends are not always last: rotate by a chosen amount
        if plans[i].len() > 1 {
            let r = s.below(plans[i].len());
            plans[i].rotate_left(r);
        }
    }

    // ---- plans -> nodes
    let mut n_conds = 0usize;
    for i in 0..n_spends {
        let mut nodes = vec![];
        for p in &plans[i] {
            if !huge_spends && !huge_announce {
                labels.push(op_name(plan_op(p)));
            }
            nodes.push(plan_to_node(&mut t, p, s, &mut labels, cfg.strict_friendly));
        }
        n_conds += nodes.len();
        spends[i].conds = nodes;
    }

    // ---- condition-level mutations
    let do_mut = !huge_spends && !huge_announce && s.chance(cfg.mutation_rate) && n_conds > 0;
    if do_mut {
        let n_mut = s.range(1, 2);
        for _ in 0..n_mut {
            let si = s.below(n_spends);
            if spends[si].conds.is_empty() {
                continue;
            }
            let ci = s.below(spends[si].conds.len());
            let node = spends[si].conds[ci];
            let (items, tail) = t.list_items(node);
            if items.is_empty() {
                continue;
            }
            let strict_ok = cfg.strict_friendly;
            let kind = if strict_ok { s.weighted(&[1, 1]) + 100 } else { s.below(9) };
            let new = match kind {
                0 => {
                    labels.push("mut:extra-arg".into());
                    let mut it = items.clone();
                    it.push(t.atom(b"extra"));
                    t.list_with_tail(&it, tail)
                }
                1 => {
                    labels.push("mut:missing-last-arg".into());
                    let mut it = items.clone();
                    if it.len() > 1 {
                        it.pop();
                    }
                    t.list_with_tail(&it, tail)
                }
                2 => {
                    labels.push("mut:improper-arg-terminator".into());
                    let tl = t.atom(&[8]);
                    t.list_with_tail(&items, tl)
                }
                3 => {
                    labels.push("mut:arg-becomes-pair".into());
                    let mut it = items.clone();
                    if it.len() > 1 {
                        let k = 1 + s.below(it.len() - 1);
                        let x = t.atom(&[1]);
                        it[k] = t.pair(it[k], x);
                    }
                    t.list_with_tail(&it, tail)
                }
                4 => {
                    labels.push("mut:opcode-leading-zero".into());
                    let mut it = items.clone();
                    let mut b = vec![0u8];
                    b.extend_from_slice(t.atom_bytes(it[0]).unwrap_or(&[1]));
                    it[0] = t.atom(&b);
                    t.list_with_tail(&it, tail)
                }
                5 => {
                    labels.push("mut:opcode-is-pair".into());
                    let mut it = items.clone();
                    let x = t.atom(&[1]);
                    it[0] = t.pair(it[0], x);
                    t.list_with_tail(&it, tail)
                }
                6 => {
                    labels.push("mut:opcode-three-bytes".into());
                    let mut it = items.clone();
                    it[0] = t.atom(&[1, 2, 3]);
                    t.list_with_tail(&it, tail)
                }
                7 => {
                    labels.push("mut:condition-is-atom".into());
                    t.atom(&[51])
                }
                8 => {
                    labels.push("mut:arg-length".into());
                    // change the length of a hash-like argument by one byte
                    let mut it = items.clone();
                    if it.len() > 1 {
                        let k = 1 + s.below(it.len() - 1);
                        if let Some(b) = t.atom_bytes(it[k]) {
                            let mut b = b.to_vec();
                            if s.bool() && !b.is_empty() {
                                b.pop();
                            } else {
                                b.push(0x01);
                            }
                            it[k] = t.atom(&b);
                        }
                    }
                    t.list_with_tail(&it, tail)
                }
                100 => {
                    labels.push("mut:dup-condition".into());
                    node
                }
                _ => {
                    labels.push("mut:swap-with-next".into());
                    node
                }
            };
            if kind == 100 {
                spends[si].conds.push(node);
            } else if kind == 101 {
                let n = spends[si].conds.len();
                spends[si].conds.swap(ci, (ci + 1) % n);
            } else {
                spends[si].conds[ci] = new;
            }
        }
    }

    // ---- assemble spends
    let mut spend_nodes = vec![];
    let shape = cfg.shape_mutations && !huge_spends && s.chance(28);
    let shape_kind = if shape { s.below(8) + 1 } else { 0 };
    let shape_idx = s.below(n_spends);
    for i in 0..n_spends {
        let mut tail = t.nil();
        if shape_kind == 1 && i == shape_idx {
            labels.push("shape:cond-list-bad-terminator".into());
            tail = t.atom(&[8]);
        }
        let cl = t.list_with_tail(&spends[i].conds.clone(), tail);
        spends[i].cond_list = cl;
        let pz = if cfg.eval_puzzles { tagged_eval(&mut t, spends[i].tag) } else { tagged_identity(&mut t, spends[i].tag) };
        spends[i].puzzle = pz;
        let pa = t.atom(&spends[i].parent);
        let ph = t.atom(&spends[i].puzzle_hash);
        let am = t.atom(&enc_u64(spends[i].amount));
        let mut fields = vec![pa, ph, am, cl];
        let mut sp_tail = t.nil();
        if i == shape_idx {
            match shape_kind {
                2 => {
                    labels.push("shape:spend-extra-field".into());
                    fields.push(t.atom(b"extra"));
                }
                3 => {
                    labels.push("shape:spend-too-short".into());
                    fields.pop();
                    spends[i].well_formed = false;
                }
                4 => {
                    labels.push("shape:spend-improper-tail".into());
                    sp_tail = t.atom(&[9]);
                }
                5 => {
                    labels.push("shape:amount-redundant-zero".into());
                    // 1..9 redundant leading zero bytes in front of the canonical form
                    let mut b = vec![0u8; 1 + s.below(9)];
                    b.extend_from_slice(&enc_u64(spends[i].amount));
                    fields[2] = t.atom(&b);
                    spends[i].well_formed = false;
                }
                6 => {
                    labels.push("shape:parent-31-bytes".into());
                    fields[0] = t.atom(&spends[i].parent[..31]);
                    spends[i].well_formed = false;
                }
                _ => {}
            }
        }
        let node = t.list_with_tail(&fields, sp_tail);
        spends[i].node = node;
        spend_nodes.push(node);
    }
    if shape_kind == 7 && n_spends >= 1 {
        labels.push("shape:double-spend".into());
        let dup = spend_nodes[shape_idx];
        spend_nodes.push(dup);
    }
    let mut list_tail = t.nil();
    if shape_kind == 8 {
        labels.push("shape:spend-list-bad-terminator".into());
        list_tail = t.atom(&[7]);
    }
    let spend_list = t.list_with_tail(&spend_nodes, list_tail);
    // outer list: ((spends) . extra)
    let outer_tail = if cfg.shape_mutations && s.chance(20) {
        labels.push("shape:outer-extra".into());
        t.atom(b"zzz")
    } else {
        t.nil()
    };
    let root = t.pair(spend_list, outer_tail);
    labels.push(format!("spends:{}", if n_spends > 12 { "many".to_string() } else { n_spends.to_string() }));
    GenBundle {
        tree: t,
        root,
        spends,
        labels,
        n_conds,
    }
}

/// model constants from the consensus constants
pub fn model_constants(c: &chia_consensus::consensus_constants::ConsensusConstants) -> mc::Constants {
    let f = |b: &chia_protocol::Bytes32| -> [u8; 32] { b.as_slice().try_into().unwrap() };
    mc::Constants {
        agg_sig_me: f(&c.agg_sig_me_additional_data),
        agg_sig_parent: f(&c.agg_sig_parent_additional_data),
        agg_sig_puzzle: f(&c.agg_sig_puzzle_additional_data),
        agg_sig_amount: f(&c.agg_sig_amount_additional_data),
        agg_sig_puzzle_amount: f(&c.agg_sig_puzzle_amount_additional_data),
        agg_sig_parent_amount: f(&c.agg_sig_parent_amount_additional_data),
        agg_sig_parent_puzzle: f(&c.agg_sig_parent_puzzle_additional_data),
    }
}

/// the correct aggregate signature for the `(pk, final message)` pairs the
/// model says the bundle requires; None if some key is not in the pool
pub fn sign_pairs(pairs: &[(Vec<u8>, Vec<u8>)]) -> Option<chia_bls::Signature> {
    let pool = key_pool();
    let mut sig = chia_bls::Signature::default();
    for (pk, msg) in pairs {
        let idx = pool.pks.iter().position(|k| k[..] == pk[..])?;
        sig.aggregate(&chia_bls::sign(&pool.sks[idx], msg));
    }
    Some(sig)
}
