//! Owned CLVM trees in an arena, their construction inside a `clvmr::Allocator`
//! under different *representation modes*, and a small text rendering.
//!
//! The arena is built bottom-up: the children of a pair always have smaller
//! indices than the pair itself. A node index that is referenced from several
//! pairs is a shared sub-tree (a DAG in memory, a tree as a CLVM value).

use crate::src::Src;
use clvmr::allocator::{Allocator, NodePtr, SExp};

#[derive(Clone, Debug, PartialEq, Eq)]
pub enum TNode {
    Atom(Vec<u8>),
    Pair(u32, u32),
}

#[derive(Clone, Debug, Default)]
pub struct Tree {
    pub nodes: Vec<TNode>,
}

pub type Tid = u32;

impl Tree {
    pub fn new() -> Self {
        Self { nodes: Vec::new() }
    }
    pub fn atom(&mut self, b: &[u8]) -> Tid {
        self.nodes.push(TNode::Atom(b.to_vec()));
        (self.nodes.len() - 1) as Tid
    }
    pub fn nil(&mut self) -> Tid {
        self.atom(&[])
    }
    pub fn pair(&mut self, l: Tid, r: Tid) -> Tid {
        debug_assert!((l as usize) < self.nodes.len() && (r as usize) < self.nodes.len());
        self.nodes.push(TNode::Pair(l, r));
        (self.nodes.len() - 1) as Tid
    }
    /// proper list (nil-terminated)
    pub fn list(&mut self, items: &[Tid]) -> Tid {
        let nil = self.nil();
        self.list_with_tail(items, nil)
    }
    pub fn list_with_tail(&mut self, items: &[Tid], tail: Tid) -> Tid {
        let mut cur = tail;
        for it in items.iter().rev() {
            cur = self.pair(*it, cur);
        }
        cur
    }
    /// canonical CLVM integer atom
    pub fn int(&mut self, v: u128) -> Tid {
        let b = crate::model::int::enc_u128(v);
        self.atom(&b)
    }
    pub fn get(&self, id: Tid) -> &TNode {
        &self.nodes[id as usize]
    }
    pub fn is_atom(&self, id: Tid) -> bool {
        matches!(self.nodes[id as usize], TNode::Atom(_))
    }
    pub fn atom_bytes(&self, id: Tid) -> Option<&[u8]> {
        match &self.nodes[id as usize] {
            TNode::Atom(b) => Some(b),
            TNode::Pair(..) => None,
        }
    }
    pub fn pair_of(&self, id: Tid) -> Option<(Tid, Tid)> {
        match &self.nodes[id as usize] {
            TNode::Pair(l, r) => Some((*l, *r)),
            TNode::Atom(_) => None,
        }
    }
    /// iterate a (possibly improper) list: items and the terminator
    pub fn list_items(&self, mut id: Tid) -> (Vec<Tid>, Tid) {
        let mut out = vec![];
        while let Some((l, r)) = self.pair_of(id) {
            out.push(l);
            id = r;
        }
        (out, id)
    }

    /// number of nodes of the *expanded* tree below `root` (saturating)
    pub fn expanded_size(&self, root: Tid) -> u64 {
        let mut sz = vec![0u64; root as usize + 1];
        for i in 0..=root as usize {
            sz[i] = match &self.nodes[i] {
                TNode::Atom(_) => 1,
                TNode::Pair(l, r) => 1u64
                    .saturating_add(sz[*l as usize])
                    .saturating_add(sz[*r as usize]),
            };
        }
        sz[root as usize]
    }

    /// does the DAG below root reach some pair through more than one path?
    pub fn has_shared_pair(&self, root: Tid) -> bool {
        let mut refs = vec![0u32; root as usize + 1];
        let mut reach = vec![false; root as usize + 1];
        reach[root as usize] = true;
        for i in (0..=root as usize).rev() {
            if !reach[i] {
                continue;
            }
            if let TNode::Pair(l, r) = &self.nodes[i] {
                for c in [*l as usize, *r as usize] {
                    reach[c] = true;
                    refs[c] += 1;
                }
            }
        }
        (0..=root as usize).any(|i| refs[i] > 1 && matches!(self.nodes[i], TNode::Pair(..)))
    }

    /// plain CLVM serialization (no back-references), written from the
    /// definition; iterative.
    pub fn serialize(&self, root: Tid) -> Vec<u8> {
        let mut out = Vec::new();
        let mut stack = vec![root];
        while let Some(id) = stack.pop() {
            match &self.nodes[id as usize] {
                TNode::Atom(b) => write_atom(&mut out, b),
                TNode::Pair(l, r) => {
                    out.push(0xff);
                    stack.push(*r);
                    stack.push(*l);
                }
            }
            if out.len() > (64 << 20) {
                break;
            }
        }
        out
    }

    /// render as s-expression text (bounded)
    pub fn render(&self, root: Tid) -> String {
        let mut out = String::new();
        self.render_into(root, &mut out, 0);
        out
    }

    fn render_into(&self, id: Tid, out: &mut String, depth: usize) {
        if out.len() > 1500 || depth > 40 {
            out.push('…');
            return;
        }
        match &self.nodes[id as usize] {
            TNode::Atom(b) => out.push_str(&render_atom(b)),
            TNode::Pair(..) => {
                out.push('(');
                let mut cur = id;
                let mut first = true;
                loop {
                    match &self.nodes[cur as usize] {
                        TNode::Pair(l, r) => {
                            if !first {
                                out.push(' ');
                            }
                            first = false;
                            self.render_into(*l, out, depth + 1);
                            cur = *r;
                            if out.len() > 1500 {
                                out.push('…');
                                break;
                            }
                        }
                        TNode::Atom(b) => {
                            if !b.is_empty() {
                                out.push_str(" . ");
                                out.push_str(&render_atom(b));
                            }
                            break;
                        }
                    }
                }
                out.push(')');
            }
        }
    }

    /// read a tree back out of an allocator (bounded by `max_nodes`)
    pub fn from_allocator(a: &Allocator, root: NodePtr, max_nodes: usize) -> Option<(Tree, Tid)> {
        // iterative post-order
        let mut t = Tree::new();
        enum Op {
            Visit(NodePtr),
            Build,
        }
        let mut ops = vec![Op::Visit(root)];
        let mut vals: Vec<Tid> = vec![];
        while let Some(op) = ops.pop() {
            match op {
                Op::Visit(n) => match a.sexp(n) {
                    SExp::Atom => {
                        let id = t.atom(a.atom(n).as_ref());
                        vals.push(id);
                    }
                    SExp::Pair(l, r) => {
                        ops.push(Op::Build);
                        ops.push(Op::Visit(r));
                        ops.push(Op::Visit(l));
                    }
                },
                Op::Build => {
                    let r = vals.pop()?;
                    let l = vals.pop()?;
                    let id = t.pair(l, r);
                    vals.push(id);
                }
            }
            if t.nodes.len() > max_nodes {
                return None;
            }
        }
        let root = vals.pop()?;
        Some((t, root))
    }
}

pub fn write_atom(out: &mut Vec<u8>, b: &[u8]) {
    let n = b.len();
    if n == 0 {
        out.push(0x80);
    } else if n == 1 && b[0] < 0x80 {
        out.push(b[0]);
    } else {
        if n < 0x40 {
            out.push(0x80 | n as u8);
        } else if n < 0x2000 {
            out.push(0xc0 | (n >> 8) as u8);
            out.push(n as u8);
        } else if n < 0x10_0000 {
            out.push(0xe0 | (n >> 16) as u8);
            out.push((n >> 8) as u8);
            out.push(n as u8);
        } else if n < 0x800_0000 {
            out.push(0xf0 | (n >> 24) as u8);
            out.push((n >> 16) as u8);
            out.push((n >> 8) as u8);
            out.push(n as u8);
        } else {
            out.push(0xf8 | (n >> 32) as u8);
            out.push((n >> 24) as u8);
            out.push((n >> 16) as u8);
            out.push((n >> 8) as u8);
            out.push(n as u8);
        }
        out.extend_from_slice(b);
    }
}

pub fn render_atom(b: &[u8]) -> String {
    if b.is_empty() {
        return "()".to_string();
    }
    if b.len() <= 2 && b[0] & 0x80 == 0 && !(b.len() == 2 && b[0] == 0 && b[1] & 0x80 == 0) {
        // small canonical positive integer
        let mut v = 0u32;
        for x in b {
            v = (v << 8) | u32::from(*x);
        }
        return format!("{v}");
    }
    if b.len() > 40 {
        let mut s = String::from("0x");
        for x in &b[..8] {
            s.push_str(&format!("{x:02x}"));
        }
        s.push_str(&format!("…[{} bytes]", b.len()));
        return s;
    }
    let mut s = String::from("0x");
    for x in b {
        s.push_str(&format!("{x:02x}"));
    }
    s
}

// --------------------------------------------------------------------------
// building into an allocator

/// how atoms and shared nodes are represented in the allocator
#[derive(Clone, Copy, Debug, PartialEq, Eq)]
pub struct BuildMode {
    /// one allocator node per arena node (DAG) instead of one per occurrence
    pub share: bool,
    /// 0: `new_atom`; 1: small values via `new_small_number` where possible;
    /// 2: every atom is a `new_substr` of a larger heap buffer (so that small
    /// integers and the empty atom are *heap-backed*, not canonical nodes);
    /// 3: atoms ≥ 2 bytes via `new_concat` of two halves
    pub atoms: u8,
}

impl BuildMode {
    pub const PLAIN: BuildMode = BuildMode {
        share: true,
        atoms: 0,
    };
    pub fn from_src(s: &mut Src<'_>) -> Self {
        BuildMode {
            share: s.below(4) != 1,
            atoms: s.below(4) as u8,
        }
    }
}

fn build_atom(a: &mut Allocator, b: &[u8], mode: u8) -> NodePtr {
    match mode {
        1 => {
            // canonical small number?
            if b.len() <= 4 && crate::model::int::enc_u128(be_value(b)) == b {
                let v = be_value(b) as u32;
                if v < (1 << 26) {
                    return a.new_small_number(v).expect("new_small_number");
                }
            }
            a.new_atom(b).expect("new_atom")
        }
        2 => {
            let mut buf = Vec::with_capacity(b.len() + 9);
            buf.extend_from_slice(&[0xa5, 0x5a, 0xa5]);
            buf.extend_from_slice(b);
            buf.extend_from_slice(&[0xc3; 6]);
            let big = a.new_atom(&buf).expect("new_atom");
            a.new_substr(big, 3, 3 + b.len() as u32).expect("new_substr")
        }
        3 if b.len() >= 2 => {
            let mid = b.len() / 2;
            let l = a.new_atom(&b[..mid]).expect("new_atom");
            let r = a.new_atom(&b[mid..]).expect("new_atom");
            a.new_concat(b.len(), &[l, r]).expect("new_concat")
        }
        _ => a.new_atom(b).expect("new_atom"),
    }
}

fn be_value(b: &[u8]) -> u128 {
    let mut v = 0u128;
    for x in b.iter().take(16) {
        v = (v << 8) | u128::from(*x);
    }
    v
}

/// Build the sub-tree `root` into the allocator. With `share = false` the
/// expanded tree is built (one node per occurrence) as long as its size stays
/// below 200 000 nodes, otherwise it falls back to sharing.
pub fn build(a: &mut Allocator, t: &Tree, root: Tid, mode: BuildMode) -> NodePtr {
    let share = mode.share || t.expanded_size(root) > 200_000;
    if share {
        let mut map: Vec<Option<NodePtr>> = vec![None; root as usize + 1];
        // only build reachable nodes
        let mut reach = vec![false; root as usize + 1];
        reach[root as usize] = true;
        for i in (0..=root as usize).rev() {
            if reach[i] {
                if let TNode::Pair(l, r) = &t.nodes[i] {
                    reach[*l as usize] = true;
                    reach[*r as usize] = true;
                }
            }
        }
        for i in 0..=root as usize {
            if !reach[i] {
                continue;
            }
            map[i] = Some(match &t.nodes[i] {
                TNode::Atom(b) => build_atom(a, b, mode.atoms),
                TNode::Pair(l, r) => a
                    .new_pair(map[*l as usize].unwrap(), map[*r as usize].unwrap())
                    .expect("new_pair"),
            });
        }
        map[root as usize].unwrap()
    } else {
        // expanded: iterative post-order
        enum Op {
            Visit(Tid),
            Build,
        }
        let mut ops = vec![Op::Visit(root)];
        let mut vals: Vec<NodePtr> = vec![];
        while let Some(op) = ops.pop() {
            match op {
                Op::Visit(id) => match &t.nodes[id as usize] {
                    TNode::Atom(b) => vals.push(build_atom(a, b, mode.atoms)),
                    TNode::Pair(l, r) => {
                        ops.push(Op::Build);
                        ops.push(Op::Visit(*r));
                        ops.push(Op::Visit(*l));
                    }
                },
                Op::Build => {
                    let r = vals.pop().unwrap();
                    let l = vals.pop().unwrap();
                    vals.push(a.new_pair(l, r).expect("new_pair"));
                }
            }
        }
        vals.pop().unwrap()
    }
}

// --------------------------------------------------------------------------
// generic random trees (used by C17 and as "garbage" sub-trees elsewhere)

/// interesting atoms for tree-hash / representation purposes
pub fn gen_atom(s: &mut Src<'_>) -> Vec<u8> {
    // rarely: atoms around size thresholds in the thousands (1 KiB message
    // limit, 4 KiB, 8 KiB serialization length classes, tens of KiB)
    if s.below(400) == 399 {
        let n = *s.pick(&[1024usize, 1025, 4095, 4096, 4097, 8191, 8192, 10_000, 70_000]);
        let fill = s.u8();
        let mut v = vec![fill; n];
        v[0] = s.u8();
        v[n - 1] = s.u8();
        return v;
    }
    match s.weighted(&[6, 10, 3, 3, 4, 2, 1]) {
        0 => vec![],
        1 => {
            // small integers 0..=25 (precomputed-hash range and neighbours)
            let v = s.below(26) as u8;
            if v == 0 {
                vec![]
            } else {
                vec![v]
            }
        }
        2 => vec![s.u8()],
        3 => {
            // non-canonical small: leading zero
            vec![0, s.below(26) as u8]
        }
        4 => {
            let n = s.range(2, 40);
            s.bytes(n)
        }
        5 => s.bytes(32),
        _ => {
            let n = s.range(41, 300);
            s.bytes(n)
        }
    }
}

/// random tree with sharing; returns the root. `budget` bounds the number of
/// arena nodes added.
pub fn gen_tree(s: &mut Src<'_>, t: &mut Tree, budget: usize) -> Tid {
    let start = t.nodes.len();
    let n_atoms = s.range(1, 6.min(budget.max(1)));
    let mut pool: Vec<Tid> = vec![];
    for _ in 0..n_atoms {
        let b = gen_atom(s);
        pool.push(t.atom(&b));
    }
    let steps = s.below(budget.max(1));
    for _ in 0..steps {
        if t.nodes.len() - start >= budget {
            break;
        }
        // bias towards recent nodes so that the tree grows deep, but allow
        // any earlier node (sharing)
        let pick = |s: &mut Src<'_>, pool: &Vec<Tid>| -> Tid {
            if s.bool() {
                let k = pool.len();
                let back = s.below(3.min(k));
                pool[k - 1 - back]
            } else {
                pool[s.below(pool.len())]
            }
        };
        let (l, r) = if s.chance(40) {
            let b = gen_atom(s);
            let at = t.atom(&b);
            if s.bool() {
                (at, pick(s, &pool))
            } else {
                (pick(s, &pool), at)
            }
        } else {
            (pick(s, &pool), pick(s, &pool))
        };
        let p = t.pair(l, r);
        pool.push(p);
    }
    *pool.last().unwrap()
}
